/-
C08 — Arguments bind to the actor signature identically under every converter.
Model: RepidModel/Conv/Bind.lean (`basicCall`, `pydanticCall`, CPython's `call`; SPEC `spec`).
-/
import RepidProofs.Proofs.ConvCall

namespace Repid.C08
open Repid Conv

/-- payload entries never carry the name of a dependency parameter (such a payload makes Python reject
    the call with a duplicate keyword argument) -/
def NoDepKeys (s : Sig) (fields : List (String × V)) : Prop :=
  ∀ e ∈ fields, ∀ p ∈ s.named, p.isDep = true → e.1 ≠ p.name

def extras (s : Sig) (fields : List (String × V)) : List (String × V) :=
  fields.filter (fun e => !(s.payloadParams.map (·.name)).contains e.1)

theorem payloadParams_eq (s : Sig) (wf : WF s) :
    s.payloadParams = s.posOnly ++ (s.posOrKw ++ s.kwOnly).filter (!·.isDep) := by
  have h : s.posOnly.filter (!·.isDep) = s.posOnly :=
    List.filter_eq_self.mpr (fun p hp => by simp [posOnly_nondep wf p hp])
  simp [Sig.payloadParams, Sig.named, List.filter_append, h]

theorem mapNamed_filter_error (fields : List (String × V)) (l : List P) (e : Err)
    (h : mapNamed (popOrDefault fields) (l.filter (!·.isDep)) = .error e) :
    mapNamed (specValue fields) l = .error e := by
  induction l with
  | nil => simp [mapNamed] at h
  | cons p rest ih =>
    by_cases hd : p.isDep = true
    · simp only [List.filter_cons, hd, Bool.not_true, Bool.false_eq_true, if_false] at h
      simp only [mapNamed, specValue, hd, if_true, ih h]
    · have hd' : p.isDep = false := by simpa using hd
      simp only [List.filter_cons, hd', Bool.not_false, if_true, mapNamed] at h
      simp only [mapNamed, ← popOrDefault_eq_spec fields p hd']
      cases hp : popOrDefault fields p with
      | error e' => simp [hp] at h; subst h; rfl
      | ok v =>
        simp only [hp] at h
        cases hr : mapNamed (popOrDefault fields) (rest.filter (!·.isDep)) with
        | error e' => simp [hr] at h; subst h; simp [ih hr]
        | ok r => simp [hr] at h

theorem posOnly_error (s : Sig) (wf : WF s) (fields : List (String × V)) (e : Err)
    (h : mapE (popOrDefault fields) s.posOnly = .error e) :
    mapNamed (specValue fields) s.posOnly = .error e := by
  have hc : mapNamed (specValue fields) s.posOnly = mapNamed (popOrDefault fields) s.posOnly :=
    mapNamed_congr _ _ _ (fun p hp => (popOrDefault_eq_spec fields p (posOnly_nondep wf p hp)).symm)
  rw [hc, mapNamed_of_mapE, h]

theorem posOnly_ok (s : Sig) (wf : WF s) (fields : List (String × V)) (a : List V)
    (h : mapE (popOrDefault fields) s.posOnly = .ok a) :
    mapNamed (specValue fields) s.posOnly = .ok ((s.posOnly.map (·.name)).zip a) := by
  have hc : mapNamed (specValue fields) s.posOnly = mapNamed (popOrDefault fields) s.posOnly :=
    mapNamed_congr _ _ _ (fun p hp => (popOrDefault_eq_spec fields p (posOnly_nondep wf p hp)).symm)
  rw [hc, mapNamed_of_mapE, h]

/-- spec, written with the three parameter groups -/
theorem spec_unfold (s : Sig) (fields : List (String × V)) (payload : Option (List (String × V)))
    (hp : payload.getD [] = fields) :
    spec s payload =
      match mapNamed (specValue fields) s.named with
      | .error e => .error e
      | .ok N => .ok { named := N, star := if !s.varKw && s.varPos then (extras s fields).map (·.2) else [],
                       dstar := if s.varKw then extras s fields else [] } := by
  simp only [spec, hp, extras]
  cases mapNamed (specValue fields) s.named <;> rfl

theorem named_error_of_parts (s : Sig) (fields : List (String × V)) (e : Err) :
    (mapNamed (specValue fields) s.posOnly = .error e ∨
     (∃ a, mapNamed (specValue fields) s.posOnly = .ok a ∧
        mapNamed (specValue fields) (s.posOrKw ++ s.kwOnly) = .error e)) →
    mapNamed (specValue fields) s.named = .error e := by
  intro h
  simp only [Sig.named, List.append_assoc]
  rw [mapNamed_append]
  rcases h with h | ⟨a, ha, hb⟩
  · rw [h]
  · rw [ha, hb]

/-- **`basic_binds_spec_partial`** — for EVERY well-formed signature (any number of positional-only,
    positional-or-keyword and keyword-only parameters, with or without defaults, dependency parameters
    mixed in, `*args`, `**kwargs`) and EVERY non-empty payload (exact, missing keys, extra keys), the call
    made through `BasicConverter` binds exactly as the statement says: each parameter receives the payload
    entry of its name or else its declared default, entries without a matching parameter go only to the
    catch-all, a missing parameter without default fails the execution.
    PARTIAL: excluded is `*args` without `**kwargs` together with a positional-or-keyword parameter and an
    unmatched payload entry (known finding F6b, `basic_varargs_collision_witness`). -/
theorem basic_binds_spec_partial (s : Sig) (wf : WF s) (fields : List (String × V))
    (hdep : NoDepKeys s fields)
    (hF6b : s.varPos = true → s.varKw = false → extras s fields ≠ [] → s.posOrKw = []) :
    basicCall s (some fields) = spec s (some fields) := by
  rw [spec_unfold s fields (some fields) rfl]
  have hpp := payloadParams_eq s wf
  -- `rest` of the converter is `extras` of the spec
  have hrest : fields.filter (fun e => !((s.posOnly ++ (s.posOrKw ++ s.kwOnly).filter (!·.isDep)).map (·.name)).contains e.1)
      = extras s fields := by simp [extras, hpp]
  have hR : ∀ e ∈ extras s fields, e.1 ∉ (s.posOrKw ++ s.kwOnly).map (·.name) := by
    intro e he hm
    obtain ⟨q, hq, hqn⟩ := List.mem_map.mp hm
    have hef := List.mem_filter.mp he
    by_cases hd : q.isDep = true
    · have hqn' : q ∈ s.named := by
        simp only [Sig.named, List.append_assoc, List.mem_append]; exact Or.inr (by simpa using hq)
      exact hdep e hef.1 q hqn' hd hqn.symm
    · have : q ∈ s.payloadParams := by
        rw [hpp]; exact List.mem_append_right _ (List.mem_filter.mpr ⟨hq, by simpa using hd⟩)
      have hin : e.1 ∈ s.payloadParams.map (·.name) := hqn ▸ List.mem_map_of_mem this
      have := hef.2
      rw [notcontains_false _ _ hin] at this; cases this
  simp only [basicCall, wf.decl, Bool.not_true, Bool.false_eq_true, if_false, basicConvert]
  cases ha : mapE (popOrDefault fields) s.posOnly with
  | error e =>
    simp only [bind, Except.bind]
    rw [named_error_of_parts s fields e (Or.inl (posOnly_error s wf fields e ha))]
  | ok args0 =>
    simp only [bind, Except.bind]
    cases hk : mapNamed (popOrDefault fields) ((s.posOrKw ++ s.kwOnly).filter (!·.isDep)) with
    | error e =>
      simp only []
      rw [named_error_of_parts s fields e (Or.inr ⟨_, posOnly_ok s wf fields args0 ha, mapNamed_filter_error fields _ e hk⟩)]
    | ok kw0 =>
      simp only [hrest]
      by_cases hvk : s.varKw = true
      · simp only [hvk, if_true]
        have := call_canonical s wf fields args0 kw0 (extras s fields) [] ha hk hR (fun _ => hvk) (by simp)
        simp only [List.append_nil] at this
        rw [this]
        cases mapNamed (specValue fields) s.named <;> simp
      · have hvk' : s.varKw = false := by simpa using hvk
        simp only [hvk', Bool.false_eq_true, if_false]
        by_cases hvp : s.varPos = true
        · simp only [hvp, if_true]
          have := call_canonical s wf fields args0 kw0 [] ((extras s fields).map (·.2)) ha hk (by simp) (by simp)
            (fun hne => ⟨hvp, hF6b hvp hvk' (fun h => hne (by simp [h]))⟩)
          simp only [List.append_nil] at this
          rw [this]
          cases mapNamed (specValue fields) s.named <;> simp
        · have hvp' : s.varPos = false := by simpa using hvp
          simp only [hvp', Bool.false_eq_true, if_false]
          have := call_canonical s wf fields args0 kw0 [] [] ha hk (by simp) (by simp) (by simp)
          simp only [List.append_nil] at this
          rw [this]
          cases mapNamed (specValue fields) s.named <;> simp

/-- Refutation of the excluded case on the current code: `f(a, *args)` with payload {"a": 1, "x": 9} is
    called as `f(9, a=1)` — TypeError "multiple values" — instead of `f(1, 9)`. -/
theorem basic_varargs_collision_witness :
    let s : Sig := { posOrKw := [{ name := "a" }], varPos := true }
    let fields := [("a", V.json "1"), ("x", V.json "9")]
    basicCall s (some fields) = .error (.multiple "a") ∧
    spec s (some fields) = .ok { named := [("a", .json "1")], star := [.json "9"], dstar := [] } := by
  decide

/-- `pydantic_binds_spec`: the same for `PydanticConverter` on every signature it supports (no `*args` /
    `**kwargs`): unmatched payload entries are ignored, everything else as the statement says — for the empty
    payload too (`fix:` 6b4d5d8). -/
theorem pydantic_binds_spec (s : Sig) (wf : WF s) (hsup : s.varPos = false ∧ s.varKw = false)
    (payload : Option (List (String × V))) :
    pydanticCall s payload = spec s payload := by
  rw [spec_unfold s (payload.getD []) payload rfl]
  simp only [pydanticCall, pydanticDeclOk, wf.decl, hsup.1, hsup.2, Bool.not_false, Bool.and_self, Bool.not_true,
    Bool.false_eq_true, if_false, pydanticConvert, Bool.and_false]
  cases ha : mapE (popOrDefault (payload.getD [])) s.posOnly with
  | error e =>
    simp only [bind, Except.bind]
    rw [named_error_of_parts s _ e (Or.inl (posOnly_error s wf _ e ha))]
  | ok args0 =>
    simp only [bind, Except.bind]
    cases hk : mapNamed (popOrDefault (payload.getD [])) ((s.posOrKw ++ s.kwOnly).filter (!·.isDep)) with
    | error e =>
      simp only []
      rw [named_error_of_parts s _ e (Or.inr ⟨_, posOnly_ok s wf _ args0 ha, mapNamed_filter_error _ _ e hk⟩)]
    | ok kw0 =>
      have := call_canonical s wf (payload.getD []) args0 kw0 [] [] ha hk (by simp) (by simp) (by simp)
      simp only [List.append_nil] at this
      simp only [this]
      cases mapNamed (specValue (payload.getD [])) s.named <;> simp

/-- a job enqueued WITHOUT arguments: `BasicConverter` passes nothing and Python's own defaults apply —
    which is again the specification (every parameter gets its default, a parameter without default fails) -/
theorem basic_no_args_binds_spec (s : Sig) (wf : WF s) : basicCall s none = spec s none := by
  rw [spec_unfold s [] none rfl]
  obtain ⟨hn1, hn2, hn3⟩ := nodup_parts wf
  have hex : extras s [] = [] := rfl
  simp only [basicCall, wf.decl, Bool.not_true, Bool.false_eq_true, if_false, basicConvert, List.nil_append, hex,
    List.map_nil]
  have hfil : (depKwargs s).filter (fun e => !((s.posOrKw ++ s.kwOnly).map (·.name)).contains e.1) = [] := by
    apply List.filter_eq_nil_iff.mpr
    intro e he
    rw [notcontains_false _ _ (depKwargs_names_sub s wf e he)]; simp
  have lk : ∀ p ∈ s.posOrKw ++ s.kwOnly, lookup p.name (depKwargs s) =
      (if p.isDep then some (V.dep p.name) else none) := by
    intro p hp
    have hpn : p ∈ s.named := by
      simp only [Sig.named, List.append_assoc, List.mem_append]; exact Or.inr (by simpa using hp)
    by_cases hd : p.isDep = true
    · simp only [hd, if_true]; exact lookup_dep s.named wf.names p hpn hd
    · simp only [hd, Bool.false_eq_true, if_false]
      apply lookup_none
      simp only [depKwargs, dep_names]
      intro hm
      obtain ⟨q, hq, hqn⟩ := List.mem_map.mp hm
      have hq' := List.mem_filter.mp hq
      have : q = p := eq_of_name_eq _ wf.names q p hq'.1 hpn hqn
      subst this; exact hd hq'.2
  have hpo : mapIdxNamed (bindPositional [] (depKwargs s) false) 0 s.posOnly = mapNamed (specValue []) s.posOnly := by
    apply mapIdxNamed_eq
    intro i p hp
    have hmem : p ∈ s.posOnly := List.mem_of_getElem? hp
    simp [bindPositional, specValue, posOnly_nondep wf p hmem, lookup]
  have hpk : mapIdxNamed (bindPositional [] (depKwargs s) true) s.posOnly.length s.posOrKw
      = mapNamed (specValue []) s.posOrKw := by
    apply mapIdxNamed_eq
    intro i p hp
    have hmem : p ∈ s.posOrKw := List.mem_of_getElem? hp
    have := lk p (by simp [hmem])
    by_cases hd : p.isDep = true <;> simp [bindPositional, specValue, this, hd, lookup]
  have hko : mapNamed (bindKwOnly (depKwargs s)) s.kwOnly = mapNamed (specValue []) s.kwOnly := by
    apply mapNamed_congr
    intro p hp
    have := lk p (by simp [hp])
    by_cases hd : p.isDep = true <;> simp [bindKwOnly, specValue, this, hd, lookup]
  unfold call
  have g1 : ¬ (([] : List V).length > s.posOnly.length + s.posOrKw.length ∧ ¬ s.varPos = true) := by simp
  rw [if_neg g1, hfil, if_neg (by simp), hpo, hpk, hko]
  simp only [Sig.named]
  rw [mapNamed_append, mapNamed_append]
  cases mapNamed (specValue []) s.posOnly with
  | error e => rfl
  | ok a =>
    cases mapNamed (specValue []) s.posOrKw with
    | error e => rfl
    | ok b =>
      cases mapNamed (specValue []) s.kwOnly with
      | error e => rfl
      | ok c => cases s.varKw <;> cases s.varPos <;> simp

/-- `converters_agree`: on every signature both converters support and every payload without an unmatched…
    in fact on EVERY payload: the basic and the pydantic converter call the actor with equal arguments -/
theorem converters_agree (s : Sig) (wf : WF s) (hsup : s.varPos = false ∧ s.varKw = false)
    (payload : Option (List (String × V))) (hdep : ∀ f, payload = some f → NoDepKeys s f) :
    basicCall s payload = pydanticCall s payload := by
  rw [pydantic_binds_spec s wf hsup payload]
  cases payload with
  | none => exact basic_no_args_binds_spec s wf
  | some f => exact basic_binds_spec_partial s wf f (hdep f rfl) (by simp [hsup.1])

theorem mapNamed_ok_all (g : P → Except Err V) (l : List P) (r : List (String × V))
    (h : mapNamed g l = .ok r) : ∀ p ∈ l, ∃ v, g p = .ok v := by
  induction l generalizing r with
  | nil => simp
  | cons x rest ih =>
    simp only [mapNamed] at h
    cases hx : g x with
    | error e => simp [hx] at h
    | ok y =>
      simp only [hx] at h
      cases hr : mapNamed g rest with
      | error e => simp [hr] at h
      | ok ys =>
        intro p hp
        simp only [List.mem_cons] at hp
        rcases hp with rfl | hp
        · exact ⟨y, hx⟩
        · exact ih ys hr p hp

/-- `missing_required_fails`: a payload lacking a parameter that has no default never runs the actor (the
    specified outcome is a failure) — and, by the theorems above, neither converter runs it -/
theorem missing_required_fails (s : Sig) (payload : Option (List (String × V))) (p : P) (hp : p ∈ s.named)
    (hnd : p.isDep = false) (hreq : p.hasDefault = false) (hmiss : lookup p.name (payload.getD []) = none) :
    ∀ b, spec s payload ≠ .ok b := by
  intro b hb
  rw [spec_unfold s (payload.getD []) payload rfl] at hb
  cases hm : mapNamed (specValue (payload.getD [])) s.named with
  | error e => simp [hm] at hb
  | ok N =>
    obtain ⟨v, hv⟩ := mapNamed_ok_all _ _ _ hm p hp
    simp [specValue, hnd, hmiss, hreq] at hv

/-- `no_args_runs_defaults`: a job enqueued without arguments runs any actor whose parameters all have
    defaults (or are dependencies): the specified outcome is a call with every default -/
theorem no_args_runs_defaults (s : Sig) (hall : ∀ p ∈ s.named, p.isDep = true ∨ p.hasDefault = true) :
    ∃ b, spec s none = .ok b := by
  rw [spec_unfold s [] none rfl]
  have : ∀ l : List P, (∀ p ∈ l, p.isDep = true ∨ p.hasDefault = true) → ∃ N, mapNamed (specValue []) l = .ok N := by
    intro l
    induction l with
    | nil => intro _; exact ⟨[], rfl⟩
    | cons x rest ih =>
      intro h
      obtain ⟨N, hN⟩ := ih (fun p hp => h p (by simp [hp]))
      have hx := h x (by simp)
      by_cases hd : x.isDep = true
      · exact ⟨(x.name, V.dep x.name) :: N, by simp [mapNamed, specValue, hd, hN]⟩
      · have hdf : x.hasDefault = true := by rcases hx with h | h; exact absurd h hd; exact h
        exact ⟨(x.name, V.dflt x.name) :: N, by simp [mapNamed, specValue, hd, lookup, hdf, hN]⟩
  obtain ⟨N, hN⟩ := this s.named hall
  rw [hN]; exact ⟨_, rfl⟩

-- Non-vacuity of the hypotheses: f(a, /, b, c=…, *, d: Depends, e=…, **kw) with extra and missing keys.
example :
    let s : Sig := { posOnly := [{ name := "a" }], posOrKw := [{ name := "b" }, { name := "c", hasDefault := true }],
                     kwOnly := [{ name := "d", isDep := true }, { name := "e", hasDefault := true }], varKw := true }
    let fields := [("b", V.json "2"), ("zz", V.json "0"), ("a", V.json "1")]
    (s.named.map (·.name)).Nodup ∧ declOk s = true ∧
    basicCall s (some fields) = .ok { named := [("a", .json "1"), ("b", .json "2"), ("c", .dflt "c"), ("d", .dep "d"), ("e", .dflt "e")],
                                      star := [], dstar := [("zz", .json "0")] } := by
  decide

/-- outside the excluded point the checked call IS the call: a payload without dependency-named keys never collides -/
theorem basicCallChecked_eq (s : Sig) (payload : Option (List (String × V)))
    (hdep : ∀ f, payload = some f → NoDepKeys s f) : basicCallChecked s payload = basicCall s payload := by
  have hnone : depKeyCollision s payload = none := by
    cases payload with
    | none => rfl
    | some fields =>
      simp only [depKeyCollision]
      split
      · have : fields.find? (fun e => hasKey e.1 (depKwargs s)) = none := by
          rw [List.find?_eq_none]
          intro e he hk
          rw [hasKey_iff] at hk
          simp only [depKwargs, List.map_map, List.mem_map, List.mem_filter, Function.comp] at hk
          obtain ⟨q, ⟨hq, hd⟩, hn⟩ := hk
          exact hdep fields rfl e he q hq hd hn.symm
        simp [this]
      · rfl
  unfold basicCallChecked basicCall
  split
  · rfl
  · cases hc : basicConvert s payload with
    | error e => rfl
    | ok r => simp only [hnone]

/-- `dep_key_collision_fails` — the point the main theorem excludes (`NoDepKeys`): a payload entry named like a dependency
    parameter, sent to a `**kwargs` actor, never reaches the actor body — the call is rejected (repeated keyword), the
    execution fails; so no invocation sees a dependency parameter replaced by payload data -/
theorem dep_key_collision_fails (s : Sig) (fields : List (String × V)) (k : String)
    (hc : depKeyCollision s (some fields) = some k) : ∃ e, basicCallChecked s (some fields) = .error e := by
  unfold basicCallChecked
  split
  · exact ⟨_, rfl⟩
  · cases hb : basicConvert s (some fields) with
    | error e => exact ⟨e, rfl⟩
    | ok r => exact ⟨.multiple k, by simp [hc]⟩

-- the excluded point is inhabited
example : depKeyCollision { posOrKw := [{ name := "x" }, { name := "d", isDep := true, hasDefault := true }], varKw := true }
    (some [("x", .json "1"), ("d", .json "\"from-payload\"")]) = some "d" := by decide

end Repid.C08
