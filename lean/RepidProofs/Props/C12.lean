/-
C12 — Expired messages are never executed; live ones are never dropped (in-memory broker).
-/
import RepidModel.Pred.Broker
import RepidProofs.Proofs.MemStep

namespace Repid.C12
open Repid Mem Pred.C12

/-- a normal-category poll that returns a message at `now` returns a non-expired one -/
theorem mem_no_expired_delivery (q : Q) (now : Int) (topics : List String) (m : Msg)
    (h : (pollNormal q now topics).1 = some m) :
    notExpiredAt now m.params.timestamp m.params.ttl = true := by
  unfold pollNormal at h
  cases hs : q.simple with
  | nil => simp [hs] at h
  | cons x rest =>
    simp only [hs] at h
    by_cases h1 : x.params.isOverdue now = true
    · simp [h1] at h
    · by_cases h2 : (!wants topics x) = true
      · simp [h1, h2] at h
      · simp [h1, h2] at h
        subst h
        simpa [notExpiredAt, Params.isOverdue] using h1

/-- an expired message at the head of the queue is moved to the dead letters by that poll, is not
    returned, and from then on is what a DEAD-category poll can return -/
theorem mem_expired_to_dead (q : Q) (now : Int) (topics : List String) (m : Msg) (rest : List Msg)
    (hs : q.simple = m :: rest) (hexp : m.params.isOverdue now = true) :
    (pollNormal q now topics).1 = none ∧
    (pollNormal q now topics).2.dead = q.dead ++ [m] ∧
    (pollNormal q now topics).2.simple = rest := by
  simp [pollNormal, hs, hexp]

/-- …and it stays retrievable: a DEAD-category poll returns the head of the dead letters -/
theorem mem_dead_retrievable (q : Q) (m : Msg) (rest : List Msg) (hd : q.dead = m :: rest) :
    (pollDead q).1 = some m := by
  simp [pollDead, hd]

/-- a message still within its time-to-live (or without one) is never dead-lettered for that
    reason: whatever an atom adds to `dead` was either nacked by its holder or was overdue at the
    instant of the poll that moved it -/
theorem mem_live_not_dropped (cron : String → Int → Int) (q : Q) (op : Op) (m : Msg)
    (hnew : m ∈ (step cron q op).dead) (hold : m ∉ q.dead) :
    (∃ i, op = .nack i ∧ m.id = i) ∨
    (∃ c now topics, op = .poll c .normal now topics ∧ m.params.isOverdue now = true) := by
  cases op with
  | put x now =>
    simp only [step, put] at hnew; split at hnew <;> exact absurd hnew hold
  | ack i => simp only [step, ackA] at hnew; split at hnew <;> exact absurd hnew hold
  | nack i =>
    simp only [step, nackA] at hnew
    split at hnew
    · next h hf =>
      simp only [List.mem_append, List.mem_singleton] at hnew
      rcases hnew with h1 | h1
      · exact absurd h1 hold
      · left; refine ⟨i, rfl, ?_⟩
        have := List.find?_some hf
        subst h1; simpa using this
    · exact absurd hnew hold
  | reject i => simp only [step, rejectA] at hnew; split at hnew <;> exact absurd hnew hold
  | unhold i => simp only [step, unholdA] at hnew; split at hnew <;> exact absurd hnew hold
  | reput x now =>
    simp only [step, reputA, put] at hnew; split at hnew <;> exact absurd hnew hold
  | update now => simp only [step, updateDelayed] at hnew; exact absurd hnew hold
  | finish c perm =>
    simp only [step] at hnew
    split at hnew
    · simp only [finishA] at hnew; exact absurd hnew hold
    · exact absurd hnew hold
  | poll c cat now topics =>
    right
    cases cat with
    | normal =>
      refine ⟨c, now, topics, rfl, ?_⟩
      simp only [step, pollTake, poll, pollNormal] at hnew
      cases hs : q.simple with
      | nil => simp [hs] at hnew; exact absurd hnew hold
      | cons x rest =>
        simp only [hs] at hnew
        by_cases h1 : x.params.isOverdue now = true
        · simp [h1] at hnew
          rcases hnew with h | h
          · exact absurd h hold
          · subst h; exact h1
        · by_cases h2 : (!wants topics x) = true
          · simp [h1, h2] at hnew; exact absurd hnew hold
          · simp [h1, h2] at hnew; exact absurd hnew hold
    | delayed =>
      exfalso
      simp only [step, pollTake, poll, pollDelayed] at hnew
      cases hk : minKey q.delayed with
      | none => simp [hk] at hnew; exact hold hnew
      | some t =>
        simp only [hk] at hnew
        cases hp : (popAt q.delayed t).1 <;> simp [hp] at hnew <;> exact hold hnew
    | dead =>
      exfalso
      simp only [step, pollTake, poll, pollDead] at hnew
      cases hd : q.dead with
      | nil => simp [hd] at hnew
      | cons x rest =>
        simp [hd] at hnew hold
        exact hold.2 hnew

/-- boundary: exactly at expiry a message is still live; one microsecond later it is expired -/
theorem boundary (ts ttl : Int) :
    notExpiredAt (ts + ttl) ts (some ttl) = true ∧ notExpiredAt (ts + ttl + 1) ts (some ttl) = false := by
  simp [notExpiredAt, Sched.overdue]; omega

/-- rescheduling restarts the time-to-live clock (`timestamp := now`) … -/
theorem reschedule_restarts_clock (p : Params) (now : Int) (cron : String → Int → Int) (ttl : Int)
    (hp : p.ttl = some ttl) (hpos : 0 ≤ ttl) :
    (p.prepareReschedule now cron).isOverdue now = false := by
  simp [Params.prepareReschedule, Params.isOverdue, Sched.overdue, hp]; omega

/-- … a retry does not (same `timestamp`, same `ttl`). -/
theorem retry_keeps_clock (p : Params) (now d t : Int) :
    (p.prepareRetry now d).isOverdue t = p.isOverdue t := by
  simp [Params.prepareRetry, Params.isOverdue]

end Repid.C12
