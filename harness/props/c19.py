"""C19 — schedule arithmetic.  Tie: the real pure functions under a pinned clock vs
`Sched.backoff / nextDefer / computeNext / overdue`; the Lean predicates `Pred.C19.*` are evaluated
on the implementation's values."""
from __future__ import annotations

import implenv  # noqa: F401  (must be first)

from datetime import timedelta

from common import NONE, A, Model, Result, Rng, sx, tier_scale
from vtime import CLOCK, from_us, td_us, to_us, us_td

from repid import Job
from repid.data._buckets import ArgsBucket, ResultBucket
from repid.data._parameters import DelayProperties, Parameters
from repid.retry_policy import default_retry_policy_factory

RULE = ("boundary sets (now before/at/after the time base, exact multiples of the period ±1 µs, "
        "ttl expiry −1/0/+1 µs, retry numbers around max_exponent) plus PRNG-drawn values; a case is "
        "non-trivial when it is a distinct input tuple; compared: implementation value == model value, "
        "and the Lean predicate Pred.C19.* on the implementation value")
ASSUMPTIONS = ["TZ=UTC, naive datetimes; datetime arithmetic is exact integer microseconds",
               "croniter is not installed: the cron branch is a model parameter and is not exercised"]

S = 1_000_000


def opt(x):
    return NONE if x is None else x


def params_sx(p: Parameters):
    r = NONE if p.result is None else [A("R"), p.result.id_, opt(td_us(p.result.ttl))]
    return [A("P"), td_us(p.execution_timeout), r, p.retries.max_amount, p.retries.already_tried,
            opt(to_us(p.delay.delay_until)), opt(td_us(p.delay.defer_by)),
            NONE if p.delay.cron is None else p.delay.cron, opt(to_us(p.delay.next_execution_time)),
            to_us(p.timestamp), opt(td_us(p.ttl))]


def gen_backoff(rng: Rng, n: int):
    cases = [(10, 86400, 5, 15), (1, 1, 1, 1), (0, 0, 0, 0), (5, 10**9, 7, 40), (3, 3, 100, 2)]
    for _ in range(n):
        mn = rng.choice([0, 1, 2, 10, rng.randrange(0, 10**6)])
        mx = mn + rng.choice([0, 1, 5, 86400, rng.randrange(0, 10**9 - mn + 1)])
        mx = min(mx, 10**9)
        mn = min(mn, mx)
        cases.append((mn, mx, rng.choice([1, 2, 5, rng.randrange(1, 10**4)]), rng.choice([0, 1, 5, 15, 30, 64])))
    for mn, mx, mult, me in cases:
        ns = sorted({1, 2, 3, max(1, me - 1), max(1, me), me + 1, me + 2, 50, rng.randrange(1, 10**6)})
        yield (mn, mx, mult, me, ns)


def gen_next(rng: Rng, n: int):
    periods = [1 * S, 2 * S, 10 * S, 3600 * S, 86400 * S, 365 * 86400 * S, 1 * S + 1, 7 * S + 333_333]
    out = []
    for p in periods:
        for k in (-3, -1, 0, 1, 2, 7):
            for d in (-1, 0, 1, p // 2):
                out.append((0, k * p + d, p, None))
    for _ in range(n):
        p = rng.choice(periods + [rng.randrange(S, 10**13)])
        ts = rng.randrange(-10**12, 10**12)
        now = ts + rng.choice([rng.randrange(-5 * p, 50 * p), rng.randrange(0, 4) * p + rng.choice([-1, 0, 1])])
        du = rng.choice([None, None, now - 1, now, now + 1, now + rng.randrange(1, 10**10), ts])
        out.append((ts, now, p, du))
    return out


def run(ctx) -> Result:
    tier, seed = ctx["tier"], ctx["seed"]
    rng = Rng(seed, "c19")
    res = Result("C19")
    model = Model()
    n = tier_scale(tier, 150, 5000) * (4 if ctx.get("search") else 1)
    reqs: list[str] = []
    meta: list[tuple] = []   # (kind, case, impl_value_repr)

    def ask(kind, case, line, impl):
        reqs.append(line)
        meta.append((kind, case, impl))

    # ---- back-off -----------------------------------------------------------------------
    for mn, mx, mult, me, ns in gen_backoff(rng, n // 6):
        pol = default_retry_policy_factory(min_backoff=mn, max_backoff=mx, multiplier=mult, max_exponent=me)
        prev = None
        for k in ns:
            try:
                td = pol(k)
            except Exception as e:  # noqa: BLE001  -- "never overflows": raising on a valid input is a violation
                res.bad("impl", "default retry policy raised on a valid input",
                        case={"fn": "backoff", "min": mn, "max": mx, "mult": mult, "max_exp": me, "n": k},
                        observed=f"!{type(e).__name__}: {e}", expected="a timedelta within [min_backoff, max_backoff]")
                continue
            v = td_us(td)
            assert v % S == 0
            v //= S
            case = {"fn": "backoff", "min": mn, "max": mx, "mult": mult, "max_exp": me, "n": k}
            ask("eq", case, sx([A("backoff"), mn, mx, mult, me, k]), str(v))
            ask("pred", case, sx([A("c19.backoffOk"), mn, mx, v]), "true")
            if prev is not None:
                ask("pred", dict(case, prev_n=prev[0], prev=prev[1]), sx([A("c19.monoOk"), prev[1], v]), "true")
            prev = (k, v)
            res.dist["backoff"] += 1
            res.note(("b", mn, mx, mult, me, k), sample=case if k == ns[0] else None)
        # adjacent retry numbers (monotone step by step)
        for k in range(1, 12):
            try:
                a, b = td_us(pol(k)) // S, td_us(pol(k + 1)) // S
            except Exception:  # noqa: BLE001  (reported above)
                continue
            ask("pred", {"fn": "backoff-mono", "min": mn, "max": mx, "mult": mult, "max_exp": me, "n": k},
                sx([A("c19.monoOk"), a, b]), "true")

    # ---- compute_next_execution_time ------------------------------------------------------
    for ts, now, p, du in gen_next(rng, n):
        CLOCK.reset(now)
        par = Parameters(timestamp=from_us(ts),
                         delay=DelayProperties(delay_until=from_us(du), defer_by=us_td(p)))
        try:
            nxt = to_us(par.compute_next_execution_time)
        except Exception as e:  # noqa: BLE001
            res.bad("impl", "compute_next_execution_time raised on a valid input",
                    case={"timestamp_us": ts, "now_us": now, "period_us": p, "delay_until_us": du},
                    observed=f"!{type(e).__name__}: {e}", expected="a datetime")
            continue
        case = {"fn": "compute_next_execution_time", "timestamp_us": ts, "now_us": now, "period_us": p, "delay_until_us": du}
        ask("eq", case, sx([A("computeNext"), params_sx(par), now]), sx(opt(nxt)))
        ask("pred", case, sx([A("c19.nextOk"), ts, now, p, opt(du), opt(nxt)]), "true")
        if du is None:
            ask("eq", case, sx([A("nextDefer"), ts, now, p]), sx(opt(nxt)))
        res.dist["next:" + ("du-ahead" if du is not None and du > now else "grid")] += 1
        res.note(("n", ts, now, p, du), sample=case if len(res.samples) < 4 else None)
        # _prepare_reschedule / _prepare_retry fields
        rs = par._prepare_reschedule()
        ask("eq", dict(case, fn="_prepare_reschedule"), sx([A("prepareReschedule"), params_sx(par), now]), sx(params_sx(rs)))
        d = rng.choice([0, 1, S, 10 * S, rng.randrange(0, 10**12)])
        rt = par._prepare_retry(us_td(d))
        ask("eq", dict(case, fn="_prepare_retry", backoff_us=d), sx([A("prepareRetry"), params_sx(par), now, d]), sx(params_sx(rt)))

    # ---- is_overdue: Parameters, ArgsBucket, ResultBucket, Job ---------------------------
    import repid as _repid
    from repid import Connection, InMemoryMessageBroker
    conn = Connection(InMemoryMessageBroker())
    import asyncio
    loop = asyncio.new_event_loop()
    loop.run_until_complete(conn.message_broker.queue_declare("default"))
    for _ in range(n // 3 + 8):
        ts = rng.randrange(-10**12, 10**12)
        ttl = rng.choice([None, S, 2 * S, 3600 * S, rng.randrange(S, 10**13), 0, 1])
        for off in (-1, 0, 1, rng.randrange(-10**7, 10**7)):
            now = ts + (ttl or 0) + off
            objs = {
                "Parameters": lambda: Parameters(timestamp=from_us(ts), ttl=us_td(ttl)),
                "ArgsBucket": lambda: ArgsBucket(data="", timestamp=from_us(ts), ttl=us_td(ttl)),
                "ResultBucket": lambda: ResultBucket(data="", started_when=1, finished_when=2, timestamp=from_us(ts), ttl=us_td(ttl)),
            }
            for cls, mk in objs.items():
                CLOCK.reset(now)
                b = mk().is_overdue
                case = {"fn": cls + ".is_overdue", "timestamp_us": ts, "ttl_us": ttl, "now_us": now}
                ask("eq", case, sx([A("overdue"), now, ts, opt(ttl)]), sx(bool(b)))
                ask("pred", case, sx([A("c19.overdueOk"), now, ts, opt(ttl), bool(b)]), "true")
                res.dist["overdue:" + cls] += 1
                res.note(("o", cls, ts, ttl, now))
            # Job.timestamp is taken at construction (Job refuses a time-to-live below one second)
            if ttl is not None and ttl < S:
                continue
            CLOCK.reset(ts)
            job = Job("some_job", ttl=us_td(ttl), _connection=conn)
            CLOCK.reset(now)
            b = job.is_overdue
            case = {"fn": "Job.is_overdue", "timestamp_us": ts, "ttl_us": ttl, "now_us": now}
            ask("eq", case, sx([A("overdue"), now, ts, opt(ttl)]), sx(bool(b)))
            ask("pred", case, sx([A("c19.overdueOk"), now, ts, opt(ttl), bool(b)]), "true")
            res.dist["overdue:Job"] += 1
            res.note(("o", "Job", ts, ttl, now))
            # … and the message the job becomes shares the job's time base: enqueued at `now`, it carries the job's timestamp,
            # so that job and message decide expiry alike
            sent = loop.run_until_complete(job.enqueue())
            mp = sent[2]
            case = {"fn": "Job → message parameters", "job_created_us": ts, "enqueued_at_us": now, "ttl_us": ttl}
            if to_us(mp.timestamp) != ts or bool(mp.is_overdue) != bool(b):
                res.bad("impl", "the message enqueued by a job does not carry the job's timestamp: expiry is not decided alike for the "
                                "job and its message", case=case,
                        observed={"message_timestamp_us": to_us(mp.timestamp), "message_overdue": bool(mp.is_overdue), "job_overdue": bool(b)},
                        expected={"message_timestamp_us": ts})
            res.dist["job-message-time-base"] += 1

    loop.close()
    answers = model.ask(reqs)
    res.extra["model_requests"] = len(reqs)
    for (kind, case, impl), line, ans in zip(meta, reqs, answers):
        if ans == impl:
            continue
        if kind == "pred":
            res.bad("impl", "Pred.C19 on implementation value", case=case, observed=line, expected="true")
        else:
            res.bad("corr", "Sched model vs implementation", case=dict(case, request=line), observed=impl, expected=ans)
    return res


def search(ctx) -> Result:
    return run(dict(ctx, tier="thorough"))
