import RepidModel.Driver.State
import RepidModel.Worker.Chain

namespace Repid.Driver
open Repid Sexp Wire Worker

def apiOf : Sexp → Option Api
  | .atom "ack" => some .ack
  | .atom "nack" => some .nack
  | .atom "reject" => some .reject
  | .atom "reschedule" => some .reschedule
  | .list [.atom "retry", n] => do pure (.retry (← toOpt? toInt? n))
  | .list [.atom "forceRetry", n] => do pure (.forceRetry (← toOpt? toInt? n))
  | _ => none

def preOf : Sexp → Option Pre
  | .atom "setResult" => some .setResult
  | .atom "setException" => some .setException
  | .list [.atom "cb", i, r] => do pure (.addCallback (← toNat? i) (← toBool? r))
  | _ => none

def outcomeOf : Sexp → Option Outcome
  | .atom "ret" => some .ret
  | .atom "raise" => some .raise
  | .atom "timeout" => some .timeout
  | .atom "convFail" => some .convFail
  | .atom "depFail" => some .depFail
  | .list [.atom "eager", pre, a] => do pure (.eager (← mapM? preOf pre) (← apiOf a))
  | _ => none

def bcallTo : BCall → Sexp
  | .ack => .atom "ack"
  | .nack => .atom "nack"
  | .reject => .atom "reject"
  | .requeue p => .list [.atom "requeue", paramsTo p]

def cbTo : Cb → Sexp
  | .user i _ => .list [.atom "cb", ofNat i]
  | .store s => .list [.atom "store", ofBool s]

def refusalTo : Refusal → Sexp
  | .readOnly => .atom "readOnly"
  | .category => .atom "category"
  | .budget => .atom "budget"
  | .noResultParams => .atom "noResultParams"
  | .noResultBroker => .atom "noResultBroker"

def catOf' : Sexp → Option Mem.Cat
  | .atom "NORMAL" => some .normal
  | .atom "DELAYED" => some .delayed
  | .atom "DEAD" => some .dead
  | _ => none

def worker : String → List Sexp → Option Sexp
  -- (proc.process <P> now policyNext hasBroker storeFails <outcome>)
  | "proc.process", [p, now, pn, hb, sf, o] => do
    let p ← paramsOf p; noCron p
    let t := process p (← toInt? now) cronStub (← toInt? pn) (← toBool? hb) (← toBool? sf) (← outcomeOf o)
    pure (.list [.atom "trace", ofList bcallTo t.calls, ofList ofBool t.stores, ofBool t.bodyRan,
                 ofList cbTo t.ran, ofBool t.raised])
  -- (proc.report <P> success now policyNext) / (proc.disposition …)
  | "proc.report", [p, s, now, pn] => do
    let p ← paramsOf p; noCron p
    pure (bcallTo (report p (← toBool? s) (← toInt? now) cronStub (← toInt? pn)))
  | "proc.disposition", [p, s, now, pn] => do
    let p ← paramsOf p; noCron p
    pure (bcallTo (disposition p (← toBool? s) (← toInt? now) cronStub (← toInt? pn)))
  -- (handle.calls category <P> now dflt (api…)) → per call: (ok <bcall>) | (err <refusal>)
  | "handle.calls", [cat, p, now, dflt, seq] => do
    let p ← paramsOf p; noCron p
    let h : Handle := { category := ← catOf' cat }
    let rs := h.calls p (← toInt? now) cronStub (← toInt? dflt) (← mapM? apiOf seq)
    pure (ofList (fun | .ok b => .list [.atom "ok", bcallTo b] | .error r => .list [.atom "err", refusalTo r]) rs)
  | _, _ => none

end Repid.Driver
