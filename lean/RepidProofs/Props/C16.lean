/-
C16 — Message handles are single-use and respect their category.
Model: `Worker.Handle` (message.py) and `Worker.DepState` (message_dependency.py).
-/
import RepidModel.Worker.Processor
import RepidModel.Pred.Worker

namespace Repid.C16
open Repid Worker Mem

def isOk {ε α : Type} : Except ε α → Bool
  | .ok _ => true
  | .error _ => false

/-- a used handle refuses every action (and makes no broker call) -/
theorem used_handle_refuses (h : Handle) (p : Params) (now : Int) (cron : String → Int → Int)
    (dflt : Int) (a : Api) (hro : h.readOnly = true) :
    ∃ r, h.call p now cron dflt a = .error r := by
  cases a <;> simp [Handle.call, hro] <;> (try split) <;> simp

theorem used_handle_all_refused (h : Handle) (p : Params) (now : Int) (cron : String → Int → Int)
    (dflt : Int) (seq : List Api) (hro : h.readOnly = true) :
    ∀ x ∈ h.calls p now cron dflt seq, isOk x = false := by
  induction seq with
  | nil => simp [Handle.calls]
  | cons a rest ih =>
    obtain ⟨r, hr⟩ := used_handle_refuses h p now cron dflt a hro
    simp only [Handle.calls, hr]
    intro x hx
    simp only [List.mem_cons] at hx
    rcases hx with hx | hx
    · subst hx; rfl
    · exact ih x hx

/-- an accepted action marks the handle as used -/
theorem accepted_marks_used (h h' : Handle) (p : Params) (now : Int) (cron : String → Int → Int)
    (dflt : Int) (a : Api) (b : BCall) (hc : h.call p now cron dflt a = .ok (b, h')) :
    h'.readOnly = true := by
  cases a <;> simp only [Handle.call] at hc <;> (repeat' split at hc) <;> simp_all <;>
    (obtain ⟨_, rfl⟩ := hc; rfl)

/-- `at_most_one_broker_call`: for EVERY sequence of message-API calls on a handle of any category
    and any retry state, at most one call reaches the broker; every call after it is refused. -/
theorem at_most_one_broker_call (h : Handle) (p : Params) (now : Int) (cron : String → Int → Int)
    (dflt : Int) (seq : List Api) :
    ((h.calls p now cron dflt seq).filter isOk).length ≤ 1 := by
  induction seq generalizing h with
  | nil => simp [Handle.calls]
  | cons a rest ih =>
    simp only [Handle.calls]
    cases hc : h.call p now cron dflt a with
    | error r => simpa [isOk] using ih h
    | ok bh =>
      obtain ⟨b, h'⟩ := bh
      have hused := accepted_marks_used h h' p now cron dflt a b hc
      have hall := used_handle_all_refused h' p now cron dflt rest hused
      have : (h'.calls p now cron dflt rest).filter isOk = [] :=
        List.filter_eq_nil_iff.mpr (fun x hx => by simp [hall x hx])
      rw [List.filter_cons]
      simp [isOk, this]

/-- nack, retry and force-retry are refused for messages taken from the delayed or dead category -/
theorem category_refusals (h : Handle) (p : Params) (now : Int) (cron : String → Int → Int)
    (dflt : Int) (n : Option Int) (hcat : h.category ≠ .normal) :
    h.call p now cron dflt .nack = .error .category ∧
    h.call p now cron dflt (.retry n) = .error .category ∧
    h.call p now cron dflt (.forceRetry n) = .error .category := by
  simp [Handle.call, hcat]

/-- retry is refused once the budget is spent — and leaves the handle usable: a following ack (or
    any other accepted action) still goes through; force-retry is not subject to the budget. -/
theorem retry_budget_refusal_keeps_handle (p : Params) (now : Int) (cron : String → Int → Int)
    (dflt : Int) (n : Option Int) (hspent : p.retries.alreadyTried ≥ p.retries.maxAmount) :
    ({} : Handle).calls p now cron dflt [.retry n, .ack] = [.error .budget, .ok .ack] ∧
    ({} : Handle).calls p now cron dflt [.retry n, .forceRetry n] =
      [.error .budget, .ok (.requeue (p.prepareRetry now (n.getD dflt)))] := by
  simp [Handle.calls, Handle.call, hspent]

/-- refused calls never change the handle: dropping them from a sequence changes nothing else -/
theorem refusals_keep_handle (h : Handle) (p : Params) (now : Int) (cron : String → Int → Int)
    (dflt : Int) (a : Api) (rest : List Api) (r : Refusal) (hr : h.call p now cron dflt a = .error r) :
    h.calls p now cron dflt (a :: rest) = .error r :: h.calls p now cron dflt rest := by
  simp [Handle.calls, hr]

/-! ### callbacks after an eager response -/

/-- user callbacks in registration order (same function as `Pred.C16.users`) -/
def userCbs : List Pre → List Cb
  | [] => []
  | .addCallback i r :: rest => .user i r :: userCbs rest
  | _ :: rest => userCbs rest

theorem userCbs_eq_users (pre : List Pre) : userCbs pre = Pred.C16.users pre := by
  induction pre with
  | nil => rfl
  | cons x rest ih => cases x <;> simp [userCbs, Pred.C16.users, ih]

def isUser : Cb → Bool
  | .user _ _ => true
  | .store _ => false

theorem foldPre_callbacks (hrp hb : Bool) (pre : List Pre) (d d' : DepState)
    (h : foldPre d hrp hb pre = .ok d') : d'.callbacks = d.callbacks ++ userCbs pre := by
  induction pre generalizing d with
  | nil => simp [foldPre] at h; subst h; simp [userCbs]
  | cons x rest ih =>
    simp only [foldPre] at h
    cases hx : d.pre hrp hb x with
    | error e => simp [hx] at h
    | ok d1 =>
      simp only [hx] at h
      have := ih d1 h
      cases x with
      | addCallback i r => simp [DepState.pre] at hx; subst hx; simp [this, userCbs]
      | setResult =>
        cases hrp <;> cases hb <;> simp [DepState.pre] at hx
        subst hx; simpa [userCbs] using this
      | setException =>
        cases hrp <;> cases hb <;> simp [DepState.pre] at hx
        subst hx; simpa [userCbs] using this

theorem userCbs_isUser (pre : List Pre) : ∀ c ∈ userCbs pre, isUser c = true := by
  induction pre with
  | nil => intro c hcm; simp [userCbs] at hcm
  | cons x rest ih =>
    intro c hcm
    cases x with
    | addCallback i r =>
      simp only [userCbs, List.mem_cons] at hcm
      rcases hcm with hcm | hcm
      · subst hcm; rfl
      · exact ih c hcm
    | setResult => exact ih c (by simpa [userCbs] using hcm)
    | setException => exact ih c (by simpa [userCbs] using hcm)

/-- `callback_order`: the callbacks run in registration order; the result store is one extra entry
    placed among them (its position is fixed by the latest set_result / set_exception call). -/
theorem callback_order (hrp hb : Bool) (pre : List Pre) (d : DepState)
    (h : foldPre {} hrp hb pre = .ok d) :
    d.finalCallbacks.filter isUser = userCbs pre ∧
    (d.finalCallbacks.filter (fun c => !isUser c)).length ≤ 1 := by
  have hc := foldPre_callbacks hrp hb pre {} d h
  simp only [List.nil_append] at hc
  have hall : ∀ c ∈ userCbs pre, isUser c = true := userCbs_isUser pre
  unfold DepState.finalCallbacks
  cases hl : d.lazy with
  | none =>
    simp only [hc]
    refine ⟨List.filter_eq_self.mpr hall, ?_⟩
    have : (userCbs pre).filter (fun c => !isUser c) = [] :=
      List.filter_eq_nil_iff.mpr (fun c hcm => by simp [hall c hcm])
    simp [this]
  | some is =>
    simp only [hc, List.filter_append]
    have h1 : ∀ l : List Cb, (∀ c ∈ l, isUser c = true) → l.filter isUser = l :=
      fun l hl => List.filter_eq_self.mpr hl
    have h2 : ∀ l : List Cb, (∀ c ∈ l, isUser c = true) → l.filter (fun c => !isUser c) = [] :=
      fun l hl => List.filter_eq_nil_iff.mpr (fun c hcm => by simp [hl c hcm])
    have ht : ∀ c ∈ (userCbs pre).take is.1, isUser c = true := fun c hcm => hall c (List.mem_of_mem_take hcm)
    have hd : ∀ c ∈ (userCbs pre).drop is.1, isUser c = true := fun c hcm => hall c (List.mem_of_mem_drop hcm)
    refine ⟨?_, ?_⟩
    · rw [h1 _ ht, h1 _ hd]; simp [isUser, List.take_append_drop]
    · rw [h2 _ ht, h2 _ hd]; simp [isUser]

/-- the store takes the place recorded by the LATEST set_result/set_exception call: callbacks
    registered before it run before the store, later ones after it -/
theorem store_position (d : DepState) (i : Nat) (s : Bool) (hl : d.lazy = some (i, s)) :
    d.finalCallbacks = d.callbacks.take i ++ [.store s] ++ d.callbacks.drop i := by
  simp [DepState.finalCallbacks, hl]

open Pred.C16 in
/-- state after folding the declarations: the callback list grows by the user callbacks, the lazy
    store position is the callback count at the moment of the LAST set_* call -/
theorem foldPre_state (hrp hb : Bool) (pre : List Pre) (d d' : DepState)
    (h : foldPre d hrp hb pre = .ok d') :
    d'.callbacks = d.callbacks ++ users pre ∧
    d'.lazy = (match lastSet pre with
               | none => d.lazy
               | some (i, s) => some (d.callbacks.length + (users (pre.take i)).length, s)) := by
  induction pre generalizing d with
  | nil => simp [foldPre] at h; subst h; simp [users, lastSet]
  | cons x rest ih =>
    simp only [foldPre] at h
    cases hx : d.pre hrp hb x with
    | error e => simp [hx] at h
    | ok d1 =>
      simp only [hx] at h
      obtain ⟨h1, h2⟩ := ih d1 h
      cases x with
      | addCallback i r =>
        simp [DepState.pre] at hx; subst hx
        refine ⟨by simp [h1, users], ?_⟩
        rw [h2]
        simp only [lastSet, isSet, Option.map_none]
        cases lastSet rest with
        | none => simp
        | some is => simp [users, List.take_succ_cons]; omega
      | setResult =>
        cases hrp <;> cases hb <;> simp [DepState.pre] at hx
        subst hx
        refine ⟨by simpa [users] using h1, ?_⟩
        rw [h2]
        simp only [lastSet, isSet, Option.map_some]
        cases lastSet rest with
        | none => simp [users]
        | some is => simp [users, List.take_succ_cons]
      | setException =>
        cases hrp <;> cases hb <;> simp [DepState.pre] at hx
        subst hx
        refine ⟨by simpa [users] using h1, ?_⟩
        rw [h2]
        simp only [lastSet, isSet, Option.map_some]
        cases lastSet rest with
        | none => simp [users]
        | some is => simp [users, List.take_succ_cons]

open Pred.C16 in
theorem users_append (a b : List Pre) : users (a ++ b) = users a ++ users b := by
  induction a with
  | nil => rfl
  | cons x rest ih => cases x <;> simp [users, ih]

open Pred.C16 in
/-- the element at the position reported by `lastSet` is a set_* call -/
theorem lastSet_spec (pre : List Pre) (i : Nat) (s : Bool) (h : lastSet pre = some (i, s)) :
    ∃ x, pre[i]? = some x ∧ isSet x = some s := by
  induction pre generalizing i with
  | nil => simp [lastSet] at h
  | cons y rest ih =>
    simp only [lastSet] at h
    cases hl : lastSet rest with
    | some js =>
      simp [hl] at h
      obtain ⟨hi, hs⟩ := h
      subst hi; subst hs
      obtain ⟨x, hx, hxs⟩ := ih js.1 (by rw [hl])
      exact ⟨x, by simpa using hx, hxs⟩
    | none =>
      rw [hl] at h
      cases hy : isSet y with
      | none => simp [hy] at h
      | some s' =>
        simp [hy] at h
        obtain ⟨hi, hss⟩ := h
        subst hi; subst hss
        exact ⟨y, by simp, hy⟩

open Pred.C16 in
/-- **`callback_order`, full statement**: after any sequence of set_result / set_exception /
    add_callback calls, the callbacks executed after the eager response are exactly the SPEC order:
    the registered callbacks in registration order, with the result store in the place of the latest
    set_result / set_exception call. -/
theorem final_eq_spec (hrp hb : Bool) (pre : List Pre) (d : DepState)
    (h : foldPre {} hrp hb pre = .ok d) : d.finalCallbacks = specOrder pre := by
  obtain ⟨h1, h2⟩ := foldPre_state hrp hb pre {} d h
  simp only [List.nil_append, List.length_nil, Nat.zero_add] at h1 h2
  unfold DepState.finalCallbacks specOrder
  cases hl : lastSet pre with
  | none => simp [hl] at h2; simp [h2, h1]
  | some is =>
    obtain ⟨i, s⟩ := is
    simp only [hl] at h2
    simp only [h2, h1]
    obtain ⟨x, hx, hxs⟩ := lastSet_spec pre i s hl
    have hsplit : pre = pre.take i ++ x :: pre.drop (i + 1) := by
      have hi : i < pre.length := by
        rcases Nat.lt_or_ge i pre.length with h | h
        · exact h
        · simp [List.getElem?_eq_none h] at hx
      have hxe : pre[i] = x := by
        have := List.getElem?_eq_getElem hi
        rw [this] at hx; injection hx
      rw [← hxe]
      exact (List.take_append_drop i pre).symm.trans (by rw [List.drop_eq_getElem_cons hi])
    have hux : users (x :: pre.drop (i + 1)) = users (pre.drop (i + 1)) := by
      cases x <;> simp [users, isSet] at hxs ⊢
    have hu : users pre = users (pre.take i) ++ users (pre.drop (i + 1)) := by
      conv => lhs; rw [hsplit]
      rw [users_append, hux]
    rw [hu]
    simp [List.take_append_of_le_length, List.drop_append_of_le_length]

/-- `body_stops`: an accepted eager response ends the actor run with "reporting done" — the rest of
    the body does not run and the worker makes no further broker call. -/
theorem body_stops (p : Params) (now : Int) (cron : String → Int → Int) (pn : Int) (hb : Bool)
    (a : Api) (b : BCall) (h' : Handle) (hc : ({} : Handle).call p now cron pn a = .ok (b, h')) :
    (actorRun p now cron pn hb false (.eager [] a)).reportingDone = true ∧
    (actorRun p now cron pn hb false (.eager [] a)).calls = [b] := by
  simp [actorRun, foldPre, hc, DepState.finalCallbacks, runCallbacks]

-- Non-vacuity / concrete sequence: [nack (refused: dead category), reject, ack].
example : ({ category := .dead } : Handle).calls {} 0 (fun _ n => n) 0 [.nack, .reject, .ack] =
    [.error .category, .ok .reject, .error .readOnly] := by
  simp [Handle.calls, Handle.call]

end Repid.C16
