/-
C01 — Broker operations never lose or duplicate a message (in-memory broker).
Property theorems only; helper lemmas are in RepidProofs/Proofs/Mem*.lean.

Places of the statement ↔ model: waiting = `simple`, delayed = `delayed`, held = `processing`,
dead-lettered = `dead`, finally acknowledged = ghost `acked`.  The ghost `limbo` holds a message
between the two halves of `requeue` — it is in NO place of the statement.
-/
import RepidModel.Pred.C01
import RepidProofs.Proofs.MemOps

namespace Repid.C01
open Repid Mem Pred.C01

/-- `mem_count`: every atom preserves, for every id, the number of occurrences over
    waiting ++ delayed ++ dead ++ held ++ acknowledged ++ limbo; only an atom that brings a message
    in from outside (`put`, or the enqueue half of a requeue of a message that was not held) adds
    one. -/
theorem mem_count (cron : String → Int → Int) (i : String) (q : Q) (op : Op) :
    (ids (step cron q op)).count i = (ids q).count i + (introduces q op).count i := by
  rw [← total_eq_count_ids, ← total_eq_count_ids]; exact total_step cron i q op

/-- `mem_exactly_one_place`: after ANY finite history of atoms — any interleaving of any number of
    clients, any clock values, any cancellation points (a cancelled call is a prefix of its atoms)
    — starting from the empty queue, with distinct introduced ids, every id ever enqueued occurs
    exactly once over all places (limbo included) and no other id occurs at all. -/
theorem mem_exactly_one_place (cron : String → Int → Int) (ops : List Op)
    (hdistinct : (introduced cron {} ops).Nodup) (i : String) :
    (ids (run cron {} ops)).count i = (if i ∈ introduced cron {} ops then 1 else 0) := by
  rw [← total_eq_count_ids, total_run]
  have h0 : total i ({} : Q) = 0 := by simp [total, heldMsgs]
  rw [h0]
  simp [hdistinct.count]

/-- …and, when no requeue is half-done at the end of the history (`limbo = []`), through the
    predicate the driver evaluates on implementation snapshots: each enqueued id is in exactly one
    of waiting / delayed / held / dead / acknowledged. -/
theorem mem_onePlace (cron : String → Int → Int) (ops : List Op)
    (hdistinct : (introduced cron {} ops).Nodup) (hlimbo : (run cron {} ops).limbo = []) :
    onePlace (run cron {} ops) (introduced cron {} ops) ((run cron {} ops).acked.map (·.id)) = true := by
  have key := mem_exactly_one_place cron ops hdistinct
  have split : ∀ i, (ids (run cron {} ops)).count i
      = live i (run cron {} ops) + ((run cron {} ops).acked.map (·.id)).count i := by
    intro i
    simp [ids, allMsgs, live, cntId, List.count_append, Nat.add_assoc, hlimbo]
  simp only [onePlace, Bool.and_eq_true, List.all_eq_true, beq_iff_eq, List.contains_iff_mem]
  refine ⟨fun i hi => ?_, fun i hi => ?_⟩
  · have := key i; rw [split i] at this; simpa [hi] using this
  · apply Classical.byContradiction
    intro hne
    have h0 := key i
    simp only [hne, if_false] at h0
    have : i ∈ ids (run cron {} ops) := by
      simp only [ids, allMsgs, liveIds, List.map_append, List.mem_append] at hi ⊢
      rcases hi with ((h | h) | h) | h
      · exact Or.inl (Or.inl (Or.inl (Or.inl (Or.inl h))))
      · exact Or.inl (Or.inl (Or.inl (Or.inl (Or.inr h))))
      · exact Or.inl (Or.inl (Or.inl (Or.inr h)))
      · exact Or.inl (Or.inl (Or.inr h))
    exact absurd (List.count_pos_iff.mpr this) (by omega)

/-! ### per-operation clauses (for a message that occurs once and is held) -/

/-- ack removes the message (it is then in no live place; it is in the acknowledged ghost). -/
theorem ack_removes (q : Q) (i : String) (h : Held) (hone : (ids q).count i = 1)
    (hheld : findHeld q i = some h) : ackOk (ackA q i) i = true := by
  rw [← total_eq_count_ids] at hone
  have hc := total_ackA i q i
  have hp := held_count_pos hheld
  have hid := findHeld_id hheld
  rw [total_eq_live] at hc hone
  simp only [ackOk, beq_iff_eq]
  simp only [ackA, hheld, live, cntId_eq_cnt, heldMsgs, cnt_append, cnt_singleton, hid, if_true] at *
  simp only [dropHeld] at *
  omega

/-- nack dead-letters it. -/
theorem nack_dead_letters (q : Q) (i : String) (h : Held) (hone : (ids q).count i = 1)
    (hheld : findHeld q i = some h) : nackOk (nackA q i) i = true := by
  rw [← total_eq_count_ids] at hone
  have hp := held_count_pos hheld
  have hid := findHeld_id hheld
  rw [total_eq_live] at hone
  simp only [nackOk, Bool.and_eq_true, beq_iff_eq]
  simp only [nackA, hheld, live, cntId_eq_cnt, heldMsgs, cnt_append, cnt_singleton, hid, if_true, dropHeld] at *
  omega

/-- reject returns it to the category it was taken from — PARTIAL: proved for messages taken
    through the normal category (the code puts every rejected message into `simple`). -/
theorem reject_origin_partial (q : Q) (i : String) (h : Held) (hone : (ids q).count i = 1)
    (hheld : findHeld q i = some h) (hfrm : h.frm = .normal) :
    rejectOk (rejectA q i) i h.frm = true := by
  rw [← total_eq_count_ids] at hone
  have hp := held_count_pos hheld
  have hid := findHeld_id hheld
  rw [total_eq_live] at hone
  simp only [rejectOk, hfrm, Bool.and_eq_true, beq_iff_eq]
  simp only [rejectA, hheld, live, cntId_eq_cnt, heldMsgs, cnt_append, cnt_singleton, hid, if_true, dropHeld] at *
  omega

/-- Refutation of the full clause on the current code: a dead-lettered message taken by a
    DEAD-category consumer and rejected ends up *waiting* (deliverable to normal consumers). -/
theorem reject_dead_witness :
    let m : Msg := { id := "m1", topic := "t" }
    let q0 : Q := { dead := [m] }
    let q1 := (pollTake q0 0 .dead 0 []).2
    let q2 := rejectA q1 "m1"
    findHeld q1 "m1" = some { msg := m, who := 0, frm := .dead } ∧
    rejectOk q2 "m1" .dead = false ∧ q2.simple = [m] ∧ q2.dead = [] := by
  decide

/-- the same for a message inspected through the DELAYED category: after reject it is waiting
    although its due time lies in the future. -/
theorem reject_delayed_witness :
    let m : Msg := { id := "m1", topic := "t", params := { delay := { nextExecutionTime := some 3600000000 } } }
    let q0 := put {} m 0 (fun _ n => n)
    let q1 := (pollTake q0 0 .delayed 0 []).2
    let q2 := rejectA q1 "m1"
    rejectOk q2 "m1" .delayed = false ∧ (q2.simple.map (·.id)) = ["m1"] ∧ q2.delayed = [] := by
  decide

/-- a *completed* requeue replaces the held message by the new payload and parameters under the
    same id: afterwards the id is in exactly one live place, with the new content. -/
theorem requeue_replaces (cron : String → Int → Int) (q : Q) (m : Msg) (now : Int) (h : Held)
    (hone : (ids q).count m.id = 1) (hheld : findHeld q m.id = some h) :
    live m.id (reputA (unholdA q m.id) m now cron) = 1 ∧
    (reputA (unholdA q m.id) m now cron).limbo = q.limbo := by
  rw [← total_eq_count_ids] at hone
  have hp := held_count_pos hheld
  have hid := findHeld_id hheld
  rw [total_eq_live] at hone
  have hl0 : cnt m.id q.limbo = 0 := by
    simp only [live, cntId_eq_cnt] at hone; omega
  have hl0' : ∀ x ∈ q.limbo, ¬ (x.id == m.id) = true := by
    intro x hx hxe
    have : 0 < cnt m.id q.limbo := by
      unfold cnt
      exact List.count_pos_iff.mpr (List.mem_map.mpr ⟨x, hx, by simpa using hxe⟩)
    omega
  have herase : (q.limbo ++ [h.msg]).eraseP (·.id == m.id) = q.limbo := by
    rw [List.eraseP_append_right _ hl0']
    simp [hid]
  unfold reputA unholdA put
  simp only [hheld]
  split
  · simp only [live, cntId_eq_cnt, heldMsgs, cnt_dictAppend, dropHeld, herase, if_true, and_true] at *
    omega
  · simp only [live, cntId_eq_cnt, heldMsgs, cnt_append, cnt_singleton, dropHeld, herase, if_true, and_true] at *
    omega

/-- Cancellation: every call other than `requeue` consists of a single atom, so a cancelled call
    has applied none or all of its effect on the places — PARTIAL (requeue excluded). -/
theorem cancel_atomic_partial (c : Call) (k : Nat) (hc : ∀ m now, c ≠ .requeue m now) :
    c.cancelledAfter k = [] ∨ c.cancelledAfter k = c.atoms := by
  cases c with
  | requeue m now => exact absurd rfl (hc m now)
  | enqueue m now => cases k <;> simp [Call.cancelledAfter, Call.atoms]
  | ack i => cases k <;> simp [Call.cancelledAfter, Call.atoms]
  | nack i => cases k <;> simp [Call.cancelledAfter, Call.atoms]
  | reject i => cases k <;> simp [Call.cancelledAfter, Call.atoms]
  | finish c p => cases k <;> simp [Call.cancelledAfter, Call.atoms]

/-- Refutation for `requeue` on the current code: cancelled between its two halves the message is
    in no place at all (neither live nor acknowledged): it is lost. -/
theorem requeue_cancel_witness :
    let m : Msg := { id := "m1", topic := "t" }
    let q0 : Q := { processing := [{ msg := m, who := 0, frm := .normal }] }
    let c := Call.requeue m 0
    let q1 := run (fun _ n => n) q0 (c.cancelledAfter 1)
    c.cancelledAfter 1 ≠ [] ∧ c.cancelledAfter 1 ≠ c.atoms ∧
    live "m1" q1 = 0 ∧ q1.acked = [] ∧ onePlace q1 ["m1"] [] = false := by
  decide

/-- the take of a message and its marking as held are one atom: no cancellation point of
    `consume` separates them (a message is never out of the queue without being held). -/
theorem take_marks_held (q : Q) (c : Nat) (cat : Cat) (now : Int) (topics : List String) (m : Msg)
    (h : (pollTake q c cat now topics).1 = some m) :
    { msg := m, who := c, frm := cat } ∈ (pollTake q c cat now topics).2.processing := by
  unfold pollTake at *
  cases hp : poll q cat now topics with
  | mk r q' =>
    cases r with
    | none => simp [hp] at h
    | some m' => simp [hp] at h ⊢; exact Or.inr h.symm

-- Non-vacuity: a concrete history (enqueue ×2, consume, requeue, consume, ack) meets the hypotheses.
example :
    let m1 : Msg := { id := "a", topic := "t" }
    let m2 : Msg := { id := "b", topic := "t" }
    let ops : List Op := [.put m1 0, .put m2 0, .poll 0 .normal 0 [], .unhold "a", .reput m1 5,
                          .poll 0 .normal 6 [], .ack "b"]
    (introduced (fun _ n => n) {} ops).Nodup ∧ (run (fun _ n => n) {} ops).limbo = [] ∧
    introduced (fun _ n => n) {} ops = ["a", "b"] := by decide

end Repid.C01
