import RepidModel.Driver.Conv
import RepidModel.Deps.Resolve

namespace Repid.Driver
open Repid Sexp Deps

def refOfSx : Sexp → Option Ref
  | .atom "msg" => some .msg
  | .list [.atom "prov", k] => (toNat? k).map .prov
  | _ => none

def nameRefOf : Sexp → Option (String × Ref)
  | .list [n, r] => do pure (← toStr? n, ← refOfSx r)
  | _ => none

/-- (k fn sig ((name ref)…) fails) -/
def providerOf : Sexp → Option (Nat × Provider)
  | .list [k, fn, s, refs, f] => do
    pure (← toNat? k, { fn := ← toNat? fn, sig := ← sigOf s, refs := ← mapM? nameRefOf refs, fails := ← toBool? f })
  | _ => none

partial def valTo : Val → Sexp
  | .msg => .atom "msg"
  | .app fn kw => .list [.atom "app", ofNat fn,
      .list ((kw.mergeSort (fun a b => a.1 ≤ b.1)).map fun e => .list [.str e.1, valTo e.2])]

def resTo : Except Deps.Err Val → Sexp
  | .ok v => .list [.atom "ok", valTo v, ofList ofNat (v.fns.mergeSort (· ≤ ·))]
  | .error (.failed fn) => .list [.atom "error", .atom "failed", ofNat fn]
  | .error .unknown => .list [.atom "error", .atom "unknown"]
  | .error .fuel => .list [.atom "error", .atom "fuel"]

/-- (deps.resolve (provider…) ref) with fuel = number of Depends objects + 1 (enough for any acyclic graph over them);
    (deps.decl sig) → accepted?;  (deps.call sig) → how the provider's parameters are bound -/
def deps : String → List Sexp → Option Sexp
  | "deps.resolve", [env, r] => do
    let e ← mapM? providerOf env
    pure (resTo (resolve e (e.length + 1) (← refOfSx r)))
  | "deps.decl", [s] => do pure (ofBool (declOk (← sigOf s)))
  | "deps.call", [s] => do pure (boundTo (callProvider (← sigOf s)))
  | _, _ => none

end Repid.Driver
