/-
Health-check endpoint (code-model).  Anchors:
  repid/health_check_server.py:34-52    HealthCheckServer.start / stop
  repid/health_check_server.py:55-62    health_status
  repid/health_check_server.py:65-98    _HttpServerProtocol.data_received / handle_request
  repid/_runner.py:124-135              runner marks UNHEALTHY when a consumer task ends with an exception
  repid/worker.py:70-72,117-121         server started before and stopped after the run
Modelled: the text-level request handling (what `data_received` does with one chunk of decoded text) and the
server's bookkeeping (serving flag, status).  Not modelled: sockets, TCP segmentation, the event loop.
-/
namespace Repid.Health

inductive Status where
  | ok | unhealthy
  deriving Repr, DecidableEq, Inhabited

/-- `f"{status.value} {status.name}"` -/
def Status.content : Status → List Char
  | .ok => "200 OK".toList
  | .unhealthy => "503 UNHEALTHY".toList

def notFound : List Char := "404 Not Found".toList

/-- `s.split(sep, maxsplit=1)` for a non-empty separator: the text before and after the FIRST occurrence of `sep`
    (`none`: no occurrence, i.e. the split has one element) -/
def splitFirst (sep : List Char) : List Char → Option (List Char × List Char)
  | [] => none
  | c :: cs =>
    if sep.isPrefixOf (c :: cs) then some ([], (c :: cs).drop sep.length)
    else match splitFirst sep cs with
      | some (a, b) => some (c :: a, b)
      | none => none

def crlf : List Char := ['\r', '\n']
def crlf2 : List Char := ['\r', '\n', '\r', '\n']

/-- `headers.split("\r\n", maxsplit=1)[0]` -/
def firstLine (head : List Char) : List Char :=
  match splitFirst crlf head with
  | some (l, _) => l
  | none => head

/-- `data_received` up to `handle_request`: `(method, path)` of the request, or `none` where the code raises
    ValueError (no blank line; fewer than three space-separated parts in the first line) -/
def parse (msg : List Char) : Option (List Char × List Char) :=
  match splitFirst crlf2 msg with
  | none => none                                        -- headers, _ = message.split("\r\n\r\n", 1)
  | some (head, _) =>
    match splitFirst [' '] (firstLine head) with        -- method, path, _ = line.split(" ", 2)
    | none => none
    | some (method, rest) =>
      match splitFirst [' '] rest with
      | none => none
      | some (path, _) => some (method, path)

/-- `handle_request`: the content (status line text = body) of the response -/
def content (endpoint : List Char) (st : Status) (method path : List Char) : List Char :=
  if method = "GET".toList ∧ path = endpoint then st.content else notFound

/-- one chunk of decoded text arriving on a connection: the response content written before the connection is
    closed, or `none` — an exception in `data_received`: asyncio closes that connection, nothing is written -/
def handle (endpoint : List Char) (st : Status) (msg : List Char) : Option (List Char) :=
  (parse msg).map fun (m, p) => content endpoint st m p

/-- `(f"HTTP/1.1 {content}\r\n" …  f"Content-Length: {len(content)}\r\n" … f"{content}")` without the Date header -/
def response (c : List Char) : List Char :=
  "HTTP/1.1 ".toList ++ c ++ crlf ++ "Content-Type: text/plain".toList ++ crlf ++
  "Content-Length: ".toList ++ (toString c.length).toList ++ crlf ++ "Connection: close".toList ++ crlf2 ++ c

/-! ### the server's bookkeeping -/

structure Srv where
  endpoint : List Char
  serving : Bool := false
  status : Status := .ok
  deriving Repr, DecidableEq, Inhabited

inductive Ev where
  | start                         -- Worker.run: health_check_server.start()
  | stop                          -- Worker.run: health_check_server.stop()
  | consumerFailed                -- a consumer task ended with an exception
  | request (text : List Char)    -- a connection delivers one chunk of (decoded) text
  | garbage                       -- a connection delivers bytes that are not UTF-8
  deriving Repr, DecidableEq, Inhabited

inductive Out where
  | none
  | refused                       -- nothing listens on the port
  | dropped                       -- connection closed without a response
  | answered (content : List Char)
  deriving Repr, DecidableEq, Inhabited

def step (s : Srv) : Ev → Srv × Out
  | .start => ({ s with serving := true }, .none)
  | .stop => ({ s with serving := false }, .none)
  | .consumerFailed => ({ s with status := .unhealthy }, .none)
  | .garbage => (s, if s.serving then .dropped else .refused)
  | .request text =>
    (s, if !s.serving then .refused else
        match handle s.endpoint s.status text with    -- the status at the time of the request (fix: 9a54…)
        | some c => .answered c
        | none => .dropped)

def run (s : Srv) : List Ev → Srv × List Out
  | [] => (s, [])
  | e :: rest =>
    let (s', o) := step s e
    let (s'', os) := run s' rest
    (s'', o :: os)

end Repid.Health
