/-
Conservation on the Redis model: every operation of a well-behaved client moves a message between exactly two places.
Helper lemmas for `Props/Redis.lean` (redis_conservation).
-/
import RepidModel.Broker.Redis

namespace Repid.RedisProofs
open Repid Redis

abbrev K := Nat × String

def nN (r : R) (k : K) : Nat := r.normal.count k
def nD (r : R) (k : K) : Nat := (r.delayed.filter (·.1 == k)).length
def nX (r : R) (k : K) : Nat := r.dead.count k
def nP (r : R) (k : K) : Nat := (r.processing.filter (·.1 == k.2)).length

/-- number of places a message is in: waiting, delayed, dead-lettered, held -/
def total (r : R) (k : K) : Nat := nN r k + nD r k + nX r k + nP r k

theorem zadd_filter_absent {α : Type} [BEq α] [LawfulBEq α] (z : List (α × Int)) (m : α) (s : Int)
    (h : (z.filter (·.1 == m)).length = 0) : ((zadd z m s).filter (·.1 == m)).length = 1 := by
  have hnone : z.any (·.1 == m) = false := by
    rw [Bool.eq_false_iff]
    intro hany
    simp only [List.any_eq_true] at hany
    obtain ⟨e, he, hm⟩ := hany
    have : e ∈ z.filter (·.1 == m) := List.mem_filter.mpr ⟨he, hm⟩
    have := List.length_pos_of_mem this
    omega
  simp only [zadd, hnone, Bool.false_eq_true, if_false, List.filter_append, List.length_append]
  simp [h]

theorem map_update_filter_other {α : Type} [BEq α] [LawfulBEq α] (z : List (α × Int)) (m m' : α) (s : Int) (hne : m' ≠ m) :
    ((z.map fun e => if e.1 == m then (m, s) else e).filter (·.1 == m')).length = (z.filter (·.1 == m')).length := by
  induction z with
  | nil => rfl
  | cons e rest ih =>
    simp only [List.map_cons, List.filter_cons]
    by_cases he : e.1 = m
    · have h1 : (e.1 == m') = false := by simpa [he] using Ne.symm hne
      have h2 : (m == m') = false := by simpa using Ne.symm hne
      have h3 : (e.1 == m) = true := by simpa using he
      simp only [h3, if_true, h2, h1, Bool.false_eq_true, if_false]
      exact ih
    · have hb : (e.1 == m) = false := by simpa using he
      simp only [hb, Bool.false_eq_true, if_false]
      split <;> simp [ih]

theorem zadd_filter_other {α : Type} [BEq α] [LawfulBEq α] (z : List (α × Int)) (m m' : α) (s : Int) (hne : m' ≠ m) :
    ((zadd z m s).filter (·.1 == m')).length = (z.filter (·.1 == m')).length := by
  simp only [zadd]
  split
  · exact map_update_filter_other z m m' s hne
  · have : (m == m') = false := by simpa using Ne.symm hne
    simp [List.filter_append, this]

theorem zrem_filter_self {α : Type} [BEq α] [LawfulBEq α] (z : List (α × Int)) (m : α) :
    ((zrem z m).filter (·.1 == m)).length = 0 := by
  simp [zrem, List.filter_filter]

theorem zrem_filter_other {α : Type} [BEq α] [LawfulBEq α] (z : List (α × Int)) (m m' : α) (hne : m' ≠ m) :
    ((zrem z m).filter (·.1 == m')).length = (z.filter (·.1 == m')).length := by
  simp only [zrem, List.filter_filter]
  congr 1
  apply List.filter_congr
  intro e _
  by_cases h : e.1 = m'
  · simp [h, hne]
  · simp [h]

theorem lremLast_go_count_self {α : Type} [BEq α] [LawfulBEq α] (l : List α) (v : α) :
    (lremLast.go v l).count v = l.count v - 1 := by
  induction l with
  | nil => rfl
  | cons x rest ih =>
    simp only [lremLast.go]
    by_cases hx : x = v
    · subst hx; simp
    · have hb : (x == v) = false := by simpa using hx
      simp only [hb, Bool.false_eq_true, if_false, List.count_cons, ih]
      simp

theorem lremLast_go_count_other {α : Type} [BEq α] [LawfulBEq α] (l : List α) (v w : α) (hne : w ≠ v) :
    (lremLast.go v l).count w = l.count w := by
  induction l with
  | nil => rfl
  | cons x rest ih =>
    simp only [lremLast.go]
    by_cases hx : x = v
    · subst hx
      have : (x == w) = false := by simpa using Ne.symm hne
      simp [List.count_cons, this]
    · have hb : (x == v) = false := by simpa using hx
      simp only [hb, Bool.false_eq_true, if_false, List.count_cons, ih]

theorem lremLast_count_self {α : Type} [BEq α] [LawfulBEq α] (l : List α) (v : α) :
    (lremLast l v).count v = l.count v - 1 := by
  simp [lremLast, lremLast_go_count_self]

theorem lremLast_count_other {α : Type} [BEq α] [LawfulBEq α] (l : List α) (v w : α) (hne : w ≠ v) :
    (lremLast l v).count w = l.count w := by
  simp [lremLast, lremLast_go_count_other _ _ _ hne]

end Repid.RedisProofs

namespace Repid.RedisProofs
open Repid Redis

/-! ### places by short name (`topic:id` — the message's identity under the "distinct ids" guard) -/

def sN (r : R) (sh : String) : Nat := (r.normal.filter (·.2 == sh)).length
def sD (r : R) (sh : String) : Nat := (r.delayed.filter (·.1.2 == sh)).length
def sX (r : R) (sh : String) : Nat := (r.dead.filter (·.2 == sh)).length
def sP (r : R) (sh : String) : Nat := (r.processing.filter (·.1 == sh)).length
def places (r : R) (sh : String) : Nat := sN r sh + sD r sh + sX r sh + sP r sh

theorem go_filter_true {α : Type} [BEq α] [LawfulBEq α] (f : α → Bool) (l : List α) (v : α) (hf : f v = true) (hm : v ∈ l) :
    ((lremLast.go v l).filter f).length + 1 = (l.filter f).length := by
  induction l with
  | nil => simp at hm
  | cons x rest ih =>
    simp only [lremLast.go]
    by_cases hx : x = v
    · subst hx; simp [hf]
    · have hb : (x == v) = false := by simpa using hx
      have hm' : v ∈ rest := by
        rcases List.mem_cons.mp hm with h | h
        · exact absurd h.symm hx
        · exact h
      simp only [hb, Bool.false_eq_true, if_false, List.filter_cons]
      split <;> simp [← ih hm'] <;> omega

theorem go_filter_false {α : Type} [BEq α] [LawfulBEq α] (f : α → Bool) (l : List α) (v : α) (hf : f v = false) :
    ((lremLast.go v l).filter f).length = (l.filter f).length := by
  induction l with
  | nil => rfl
  | cons x rest ih =>
    simp only [lremLast.go]
    by_cases hx : x = v
    · subst hx; simp [hf]
    · have hb : (x == v) = false := by simpa using hx
      simp only [hb, Bool.false_eq_true, if_false, List.filter_cons]
      split <;> simp [ih]

theorem lremLast_filter_true {α : Type} [BEq α] [LawfulBEq α] (f : α → Bool) (l : List α) (v : α) (hf : f v = true) (hm : v ∈ l) :
    ((lremLast l v).filter f).length + 1 = (l.filter f).length := by
  have := go_filter_true f l.reverse v hf (by simpa using hm)
  simp only [lremLast, List.filter_reverse, List.length_reverse] at this ⊢
  exact this

theorem lremLast_filter_false {α : Type} [BEq α] [LawfulBEq α] (f : α → Bool) (l : List α) (v : α) (hf : f v = false) :
    ((lremLast l v).filter f).length = (l.filter f).length := by
  have := go_filter_false f l.reverse v hf
  simp only [lremLast, List.filter_reverse, List.length_reverse] at this ⊢
  exact this

/-- ZADD on a zset keyed by (prio, short), counted by short name -/
theorem zaddK_absent (z : List ((Nat × String) × Int)) (k : Nat × String) (s : Int)
    (h : (z.filter (·.1.2 == k.2)).length = 0) : ((zadd z k s).filter (·.1.2 == k.2)).length = 1 := by
  have hnone : z.any (·.1 == k) = false := by
    rw [Bool.eq_false_iff]
    intro hany
    simp only [List.any_eq_true, beq_iff_eq] at hany
    obtain ⟨e, he, hm⟩ := hany
    have : e ∈ z.filter (·.1.2 == k.2) := List.mem_filter.mpr ⟨he, by simp [hm]⟩
    have := List.length_pos_of_mem this
    omega
  simp only [zadd, hnone, Bool.false_eq_true, if_false, List.filter_append, List.length_append]
  simp [h]

theorem mapK_update_other (z : List ((Nat × String) × Int)) (k : Nat × String) (s : Int) (sh : String) (hne : sh ≠ k.2) :
    ((z.map fun e => if e.1 == k then (k, s) else e).filter (·.1.2 == sh)).length = (z.filter (·.1.2 == sh)).length := by
  have hk : (k.2 == sh) = false := by simpa using Ne.symm hne
  induction z with
  | nil => rfl
  | cons e rest ih =>
    simp only [List.map_cons, List.filter_cons]
    by_cases he : e.1 = k
    · have h1 : (e.1.2 == sh) = false := by simpa [he] using Ne.symm hne
      have h3 : (e.1 == k) = true := by simpa using he
      simp only [h3, if_true, hk, h1, Bool.false_eq_true, if_false]
      exact ih
    · have hb : (e.1 == k) = false := by simpa using he
      simp only [hb, Bool.false_eq_true, if_false]
      split <;> simp only [List.length_cons, ih]

theorem zaddK_other (z : List ((Nat × String) × Int)) (k : Nat × String) (s : Int) (sh : String) (hne : sh ≠ k.2) :
    ((zadd z k s).filter (·.1.2 == sh)).length = (z.filter (·.1.2 == sh)).length := by
  simp only [zadd]
  have hk : (k.2 == sh) = false := by simpa using Ne.symm hne
  split
  · exact mapK_update_other z k s sh hne
  · simp [List.filter_append, hk]

theorem zremK_self (z : List ((Nat × String) × Int)) (k : Nat × String)
    (h : ∀ e ∈ z, e.1.2 = k.2 → e.1 = k) : ((zrem z k).filter (·.1.2 == k.2)).length = 0 := by
  simp only [zrem, List.filter_filter, List.length_eq_zero_iff, List.filter_eq_nil_iff]
  intro e he
  simp only [Bool.and_eq_true, beq_iff_eq, Bool.not_eq_true', beq_eq_false_iff_ne, not_and, Decidable.not_not]
  intro hs
  exact h e he hs

theorem zremK_other (z : List ((Nat × String) × Int)) (k : Nat × String) (sh : String) (hne : sh ≠ k.2) :
    ((zrem z k).filter (·.1.2 == sh)).length = (z.filter (·.1.2 == sh)).length := by
  simp only [zrem, List.filter_filter]
  congr 1
  apply List.filter_congr
  intro e _
  by_cases h : e.1.2 = sh
  · have : ¬ e.1 = k := fun hh => hne (by rw [← h, hh])
    simp [h, this]
  · simp [h]

theorem zaddP_absent (z : List (String × Int)) (m : String) (s : Int) (h : (z.filter (·.1 == m)).length = 0) :
    ((zadd z m s).filter (·.1 == m)).length = 1 := zadd_filter_absent z m s h

end Repid.RedisProofs
