"""C10 — messages_limit is an upper bound and a stop condition.

Tie: real Worker under virtual time: M ∈ 1..5, backlog M+1..M+20, actor durations {0, shorter than the
consumer's fetch, longer}, tasks_limit ∈ {1, 2, 1000}, 1–3 queues; the runner's counters after every
callback go through the Lean acceptor (`Runner.accept` with maxTasks = M); observed on the
implementation: number of executions started, return of run(), what is left in the queue (every
message either executed or present exactly once, waiting, with its retry counter untouched, nothing
left in-flight), and the testing plugin's run-on-enqueue mode."""
from __future__ import annotations

import implenv  # noqa: F401

import asyncio
import os

import vtime
import workrun
from common import NONE, A, Model, Result, Rng, sx
from workrun import S, WorkerRun

RULE = ("scenarios = M × backlog × duration class × tasks_limit × queues (+ consumer pause latency); a case = one worker "
        "run, distinct by (M, backlog−M class, duration class, tasks_limit, queues)")
ASSUMPTIONS = ["overshoot of messages_limit that the Lean runner model reproduces event-for-event is the recorded finding F4; "
               "any other overshoot, loss or stall is a violation"]
F4 = "F4-messages-limit-checked-only-on-completion"
F24 = "F24-redis-finish-leaves-fetch-in-flight"
F26 = "F26-rabbit-cancelled-handover-stays-unacked"


def make_scenario(rng: Rng) -> dict:
    M = rng.choice([1, 2, 3, 5])
    extra = rng.choice([1, 2, 5, 20])
    limit = rng.choice([1, 1, 2, 1000])
    nq = rng.choice([1, 1, 2, 3])
    actors = {f"act{i}": ("default" if i == 0 else f"q{i}") for i in range(nq)}
    dcls = rng.choice(["zero", "short", "long", "long", "xlong"])
    jobs = []
    # result stores that work, fail always, or fail now and then: an execution whose result could not be stored is an
    # execution all the same (the processing task ends with the store's exception)
    store_mode = rng.choice(["none", "none", "ok", "fail_all", "fail_some"])
    for i in range(M + extra):
        a = rng.randrange(nq)
        # ("xlong": still running well after the limit was reached — longer than the consumers' own 5 s finishing time)
        d = {"zero": 0, "short": 300, "long": rng.choice([200_000, 2 * S]), "xlong": rng.choice([200_000, 7 * S])}[dcls]
        jobs.append({"id": f"m{i}", "name": f"act{a}", "queue": actors[f"act{a}"], "retries": rng.choice([0, 2]), "timeout": 10 * S,
                     "plan": [{"k": "ret", "dur": d}], "store_result": store_mode != "none" and rng.random() < 0.7})
    return {"jobs": jobs, "actors": actors, "tasks_limit": limit, "M": M, "converter": "basic", "policy": {"kind": "const", "us": 0},
            "dcls": dcls, "consumer_latency_us": rng.choice([0, 0, 0, 5_000]), "horizon_s": 60.0 if dcls != "xlong" else 200.0,
            "store_mode": store_mode,
            "store_fail_all": store_mode == "fail_all",
            "store_fail_calls": [k for k in range(M + extra) if rng.random() < 0.5] if store_mode == "fail_some" else []}


async def scenario(sc: dict) -> WorkerRun:
    run = WorkerRun(sc)
    await run.enqueue_all()
    await run.run_worker(limit=sc["M"], tasks_limit=sc["tasks_limit"], horizon_s=sc["horizon_s"], signals=False)
    for _ in range(5):
        await asyncio.sleep(0)
    if sc.get("broker") == "rabbit":
        # on RabbitMQ the consumer's last rejects are given the time to happen (as in C03); the state is then read while the
        # worker's connection is still open
        await asyncio.sleep(0.3)
    run.final = {q: run.msg_params(q) for q in set(sc["actors"].values())}
    if sc.get("broker") == "rabbit":
        await run.broker.disconnect()
        for _ in range(6):
            await asyncio.sleep(0)
    return run


def check(run: WorkerRun, model: Model, res: Result, label: str) -> None:
    sc = run.sc
    M, L = sc["M"], sc["tasks_limit"]
    snaps = [[s[0], s[1], s[2], bool(s[3])] for _, s, _ in run.runner_snaps]
    ans = model.ask1(sx([A("runner.accept"), L, M, snaps]))
    res.extra["model_requests"] = res.extra.get("model_requests", 0) + 1
    started = [e["id"] for e in run.events if e["kind"] == "actor_start"]
    finished = [e["id"] for e in run.events if e["kind"] == "actor_end"]
    returned = any(e["kind"] == "run_return" for e in run.events)
    case = {"label": label, "M": M, "backlog": len(sc["jobs"]), "tasks_limit": L, "queues": len(sc["actors"]),
            "duration_class": sc["dcls"], "consumer_latency_us": sc["consumer_latency_us"], "result_store": sc.get("store_mode", "none"),
            "jobs": [{"id": j["id"], "name": j["name"], "dur": j["plan"][0]["dur"]} for j in sc["jobs"]]}
    res.dist[f"M{M}:L{L}:q{len(sc['actors'])}:{sc['dcls']}"] += 1
    res.dist["result-store:" + sc.get("store_mode", "none")] += 1
    res.dist["started-M=%d" % (len(started) - M)] += 1
    res.note((M, min(len(sc["jobs"]) - M, 6), sc["dcls"], L, len(sc["actors"]), sc["consumer_latency_us"], sc.get("store_mode", "none")),
             sample={k: v for k, v in case.items() if k != "jobs"} | {"started": len(started)} if len(res.samples) < 4 else None)
    accepted = ans == "ok"
    if not accepted:
        i = int(ans.strip("()").split()[1])
        res.bad("corr", "Runner.accept: runner counters after a callback not explained by the model's events",
                case=dict(case, unexplained_index=i), observed=snaps[max(0, i - 3): i + 1], expected="a model step")
    if len(started) > M:
        res.bad("impl", "more than messages_limit executions were started", case=case,
                observed={"started": len(started), "ids": started}, expected=f"<= {M}", finding=F4 if accepted else None)
    if not returned:
        res.bad("impl", "run() did not return although messages_limit executions had finished", case=case,
                observed={"finished": len(finished)}, expected="return")
    elif len(set(finished)) < min(M, len(sc["jobs"])):
        res.bad("impl", "run() returned before messages_limit executions had finished", case=case,
                observed={"finished": len(finished)}, expected=f">= {M}",
                finding=F4 if (accepted and sc["consumer_latency_us"]) else None)
    # what is left: every message executed (gone) or present exactly once, waiting, counter untouched
    n_f26 = 0
    for j in sc["jobs"]:
        here = run.final[j["queue"]].get(j["id"], [])
        was_started = j["id"] in started
        ok = (was_started and j["id"] in finished and not here) or \
             (not was_started and len(here) == 1 and here[0]["place"] == "simple" and here[0]["tried"] == 0)
        if not ok:
            delivered = any(e["kind"] == "deliver" and e["id"] == j["id"] for e in run.events)
            # Redis: taken by the consumer's background fetch loop, never handed to the runner, dropped by finish() (F24)
            # (F24's trigger: the consumer had been paused by the runner when it was finished — its fetch loop was merely
            # completing the fetch it had begun; a consumer still fetching during the shutdown is another matter)
            paused_at_finish = all(e.get("paused") is not False for e in run.events if e["kind"] == "consumer_finish")
            f24 = (sc.get("broker") == "redis" and not delivered and not was_started and len(here) == 1 and paused_at_finish
                   and here[0]["place"] == "processing" and here[0]["tried"] == 0)
            # RabbitMQ: taken out of the consumer's local queue by the consume() call that the stop cancelled before it could hand
            # the message over (at most one per consumer and run) — unacknowledged until the connection closes (F26)
            f26 = (sc.get("broker") == "rabbit" and not delivered and not was_started and len(here) == 1
                   and here[0]["place"] == "processing" and here[0]["tried"] == 0 and n_f26 < len(sc["actors"]))
            n_f26 += int(f26)
            res.bad("impl", "a message beyond messages_limit was lost, duplicated, left in-flight or counted as retried",
                    case=dict(case, message=j["id"]), observed={"started": was_started, "present": here},
                    expected="executed and gone, or waiting exactly once with already_tried = 0",
                    finding=F24 if f24 else (F26 if f26 else None))
            if not (f24 or f26):
                break


async def run_on_enqueue(backlog: int, dur: int, foreign: bool = False) -> dict:
    """testing plugin mode: Worker(messages_limit=1) runs inside enqueue()"""
    from repid import Connection, InMemoryMessageBroker, Job, Router, Worker
    from repid.testing.modifiers import RunWorkerOnEnqueueModifier
    broker = InMemoryMessageBroker()
    conn = Connection(broker)
    await broker.queue_declare("default")
    ran: list = []
    router = Router()

    async def act(x: int = 0) -> None:
        ran.append(x)
        if dur:
            await asyncio.sleep(dur / 1e6)
    from repid import BasicConverter
    router.actor(act, name="act", converter=BasicConverter)
    for i in range(backlog):
        await Job("act", args={"x": 100 + i}, _connection=conn).enqueue()
    RunWorkerOnEnqueueModifier(broker, lambda: Worker(routers=[router], messages_limit=1, handle_signals=[], _connection=conn))
    side_left = None
    if foreign:
        # a job for a declared queue that none of the routers serves: it just waits there, now and after later enqueues
        await broker.queue_declare("side")
        await asyncio.wait_for(Job("act", queue="side", args={"x": 500}, _connection=conn).enqueue(), timeout=30)
        await asyncio.wait_for(Job("other", queue="side", args={"x": 501}, _connection=conn).enqueue(), timeout=30)
    await asyncio.wait_for(Job("act", args={"x": 1}, _connection=conn).enqueue(), timeout=30)
    await asyncio.wait_for(Job("act", args={"x": 2}, _connection=conn).enqueue(), timeout=30)
    if foreign:
        q = broker.queues["side"]
        side_left = {"waiting": len(q.simple._queue), "processing": len(q.processing), "dead": len(q.dead)}
    return {"ran": ran, "backlog": backlog, "dur": dur, "side_left": side_left}


def run(ctx) -> Result:
    tier, seed = ctx["tier"], ctx["seed"]
    res = Result("C10")
    model = Model()
    deep = tier == "thorough" or ctx.get("search")
    # corpus first: witness of F4 (M=2, backlog 6, slow actors, tasks_limit 1000)
    w = {"jobs": [{"id": f"m{i}", "name": "act0", "queue": "default", "retries": 0, "timeout": 30 * S,
                   "plan": [{"k": "ret", "dur": 5 * S}], "store_result": False} for i in range(6)],
         "actors": {"act0": "default"}, "tasks_limit": 1000, "M": 2, "converter": "basic", "policy": {"kind": "const", "us": 0},
         "dcls": "long", "consumer_latency_us": 0, "horizon_s": 60.0}
    check(vtime.run(lambda loop: scenario(w), budget=80_000_000), model, res, "corpus/C10-F4")
    for i in range(200 if deep else 30):
        rng = Rng(seed, f"c10/{i}")
        sc = make_scenario(rng)
        r = vtime.run(lambda loop, s=sc: scenario(s), budget=80_000_000)
        check(r, model, res, f"run-{seed}-{i}")
    # the same on the Redis and RabbitMQ brokers (in-process fake servers; prefetching consumers)
    for kind in ("redis", "rabbit"):
        for i in range(24 if deep else (10 if kind == "redis" else 4)):
            rng = Rng(seed, f"c10/{kind}/{i}")
            sc = make_scenario(rng)
            sc["broker"], sc["consumer_latency_us"] = kind, 0
            r = vtime.run(lambda loop, s=sc: scenario(s), budget=300_000_000)
            check(r, model, res, f"run-{kind}-{seed}-{i}")
            res.dist[f"broker:{kind}"] += 1
    for backlog in (0, 1, 3):
        for dur in (0, 200_000):
            o = vtime.run(lambda loop, b=backlog, d=dur: run_on_enqueue(b, d), budget=20_000_000)
            res.dist["run-on-enqueue"] += 1
            res.note(("roe", backlog, dur))
            if backlog == 0 and o["ran"] != [1, 2]:
                res.bad("impl", "run-on-enqueue: enqueue() did not return after exactly that job was processed once",
                        case={"label": "run-on-enqueue", "backlog": backlog, "dur": dur}, observed=o["ran"], expected=[1, 2])
            if backlog > 0 and len(o["ran"]) != 2:
                res.bad("impl", "run-on-enqueue with a backlog: more than one job processed inside enqueue()",
                        case={"label": "run-on-enqueue", "backlog": backlog, "dur": dur}, observed=o["ran"],
                        expected="exactly one execution per enqueue (two enqueues)", finding=F4)
    for dur in (0, 200_000):
        o = vtime.run(lambda loop, d=dur: run_on_enqueue(0, d, foreign=True), budget=20_000_000)
        res.dist["run-on-enqueue:unserved-queue"] += 1
        res.note(("roe-foreign", dur))
        if o["ran"] != [1, 2] or o["side_left"] != {"waiting": 2, "processing": 0, "dead": 0}:
            res.bad("impl", "run-on-enqueue with jobs waiting in a declared queue that no router serves: an enqueue did not process "
                            "exactly its own job once, or the unserved messages did not stay in their queue untouched",
                    case={"label": "run-on-enqueue/unserved-queue", "dur": dur}, observed=o,
                    expected={"ran": [1, 2], "side_left": {"waiting": 2, "processing": 0, "dead": 0}})
    return res


def search(ctx) -> Result:
    return run(dict(ctx, tier="thorough"))
