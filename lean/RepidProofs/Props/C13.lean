/-
C13 — The stored result is the outcome of the latest execution.
Model: `Worker.process` (`stores` = result-bucket stores attempted, in order, each with the success
flag of the stored outcome) and `Worker.actorRun`.
-/
import RepidModel.Worker.Chain

namespace Repid.C13
open Repid Worker

/-- the bucket after a list of stores is the last one (each store overwrites under the same id) -/
def bucketAfter (stores : List Bool) : Option Bool := stores.getLast?

/-- non-eager executions with results enabled store exactly one bucket: the outcome of THAT
    execution (success iff the actor returned) -/
theorem execution_stores_own_outcome (p : Params) (now : Int) (cron : String → Int → Int) (pn : Int)
    (sf : Bool) (o : Outcome) (rp : ResultProps) (hr : p.result = some rp)
    (ho : ∀ pre a, o ≠ .eager pre a) :
    (process p now cron pn true sf o).stores = [decide (o = .ret)] := by
  cases o with
  | eager pre a => exact absurd rfl (ho pre a)
  | ret => simp [process, actorRun, hr]
  | raise => simp [process, actorRun, hr]
  | timeout => simp [process, actorRun, hr]
  | convFail => simp [process, actorRun, hr]
  | depFail => simp [process, actorRun, hr]

/-- `latest_wins`: over any chain of executions of one job (retries), the bucket holds the outcome
    of the LAST execution: whatever earlier attempts stored is overwritten. -/
theorem latest_wins (earlier : List (List Bool)) (last : List Bool) (x : Bool) (hl : last = [x]) :
    bucketAfter (earlier.flatten ++ last) = some x := by
  simp [bucketAfter, hl]

/-- `disabled_writes_nothing`: with results disabled nothing is ever written — for every outcome,
    eager or not (set_result / set_exception are refused without result parameters). -/
theorem disabled_writes_nothing (p : Params) (now : Int) (cron : String → Int → Int) (pn : Int)
    (hb sf : Bool) (o : Outcome) (hr : p.result = none) :
    (process p now cron pn hb sf o).stores = [] := by
  have key : ∀ pre (d d' : DepState), d.lazy = none → foldPre d false hb pre = .ok d' → d'.lazy = none := by
    intro pre
    induction pre with
    | nil => intro d d' hd h; simp [foldPre] at h; subst h; exact hd
    | cons x rest ih =>
      intro d d' hd h
      simp only [foldPre] at h
      cases hx : d.pre false hb x with
      | error e => simp [hx] at h
      | ok d1 =>
        simp only [hx] at h
        refine ih d1 d' ?_ h
        cases x with
        | addCallback i r => simp [DepState.pre] at hx; subst hx; exact hd
        | setResult => simp [DepState.pre] at hx
        | setException => simp [DepState.pre] at hx
  have nostore : ∀ (cbs : List Cb) (s : Bool), (∀ c ∈ cbs, ∀ b, c ≠ .store b) →
      (runCallbacks cbs s).1.filterMap (fun | .store s => some s | _ => none) = [] := by
    intro cbs s hc
    simp only [runCallbacks]
    apply List.filterMap_eq_nil_iff.mpr
    intro c hcm
    cases c with
    | user i r => rfl
    | store b => exact absurd rfl (hc _ hcm b)
  cases o with
  | ret => simp [process, actorRun, hr]
  | raise => simp [process, actorRun, hr]
  | timeout => simp [process, actorRun, hr]
  | convFail => simp [process, actorRun, hr]
  | depFail => simp [process, actorRun, hr]
  | eager pre a =>
    simp only [process, actorRun, hr, Option.isSome_none]
    split
    · simp
    · next d hf =>
      have hlz := key pre {} d rfl hf
      have hcb : ∀ c ∈ d.finalCallbacks, ∀ b, c ≠ .store b := by
        have hu : ∀ pre' (d0 d1 : DepState), (∀ c ∈ d0.callbacks, ∀ b, c ≠ Cb.store b) →
            foldPre d0 false hb pre' = .ok d1 → ∀ c ∈ d1.callbacks, ∀ b, c ≠ Cb.store b := by
          intro pre'
          induction pre' with
          | nil => intro d0 d1 h0 h; simp [foldPre] at h; subst h; exact h0
          | cons x rest ih =>
            intro d0 d1 h0 h
            simp only [foldPre] at h
            cases hx : d0.pre false hb x with
            | error e => simp [hx] at h
            | ok d2 =>
              simp only [hx] at h
              refine ih d2 d1 ?_ h
              cases x with
              | addCallback i r =>
                simp [DepState.pre] at hx; subst hx
                intro c hc b; simp at hc
                rcases hc with hc | hc
                · exact h0 c hc b
                · subst hc; simp
              | setResult => simp [DepState.pre] at hx
              | setException => simp [DepState.pre] at hx
        simp only [DepState.finalCallbacks, hlz]
        exact hu pre {} d (by simp) hf
      split
      · simp
      · next b h' hc =>
        have := nostore d.finalCallbacks sf hcb
        simp only [runCallbacks] at this
        simp [runCallbacks]
        exact List.filterMap_eq_nil_iff.mp this

/-- the outcome of `actor_run` does not depend on whether the result store works -/
theorem actorRun_store_indep (p : Params) (now : Int) (cron : String → Int → Int) (pn : Int)
    (hb : Bool) (o : Outcome) :
    actorRun p now cron pn hb true o = actorRun p now cron pn hb false o := by
  cases o <;> simp [actorRun, runCallbacks]

/-- `store_failure_harmless`: a failing result store never changes the message's disposition —
    for EVERY outcome (eager or not) the broker calls are the same whether the store works or
    raises. -/
theorem store_failure_harmless (p : Params) (now : Int) (cron : String → Int → Int) (pn : Int)
    (hb : Bool) (o : Outcome) :
    (process p now cron pn hb true o).calls = (process p now cron pn hb false o).calls := by
  simp only [process, actorRun_store_indep]
  by_cases h : (actorRun p now cron pn hb false o).reportingDone = true
  · simp [h]
  · simp only [h]
    cases p.result <;> simp

/-- regression statement for F8 (repaired): the eager path too keeps its single disposition -/
theorem eager_store_failure_fixed :
    let p : Params := { result := some { id := "r", ttl := none }, retries := { maxAmount := 2, alreadyTried := 0 } }
    (process p 0 (fun _ n => n) 5000000 true true (.eager [.setResult] .ack)).calls = [.ack] := by
  decide

/-- `eager_last_set`: after an eager response the bucket holds the result or exception set LAST. -/
theorem eager_last_set_examples :
    let p : Params := { result := some { id := "r", ttl := none } }
    (process p 0 (fun _ n => n) 0 true false (.eager [.setResult, .setException] .ack)).stores = [false] ∧
    (process p 0 (fun _ n => n) 0 true false (.eager [.setException, .addCallback 1 false, .setResult] .nack)).stores = [true] := by
  decide

theorem eager_last_set (hb : Bool) (pre : List Pre) (d d' : DepState) (x : Pre) (s : Bool)
    (hx : (x = .setResult ∧ s = true) ∨ (x = .setException ∧ s = false))
    (h : foldPre d true hb (pre ++ [x]) = .ok d') :
    ∃ i, d'.lazy = some (i, s) ∧ d'.resultSuccess = some s := by
  induction pre generalizing d with
  | nil =>
    simp only [List.nil_append, foldPre] at h
    rcases hx with ⟨rfl, rfl⟩ | ⟨rfl, rfl⟩ <;>
      (cases hb <;> simp [DepState.pre] at h; subst h; exact ⟨_, rfl, rfl⟩)
  | cons y rest ih =>
    simp only [List.cons_append, foldPre] at h
    cases hy : d.pre true hb y with
    | error e => simp [hy] at h
    | ok d1 => simp only [hy] at h; exact ih d1 h

/-- `successor_keeps_result_settings`: the parameters handed to `requeue` for a retry and for the next iteration of a
    recurring job carry the same result settings (id, ttl) as the message that just ran — every later execution stores
    under the same id, so "the latest execution overwrites" extends over retry and reschedule chains -/
theorem successor_keeps_result_settings (p : Params) (now : Int) (cron : String → Int → Int) (d : Int) :
    (p.prepareReschedule now cron).result = p.result ∧ (p.prepareRetry now d).result = p.result := by
  constructor <;> simp [Params.prepareReschedule, Params.prepareRetry]

end Repid.C13
