#!/usr/bin/env python3
"""Regenerate MANIFEST.json from the table below (keeps it schema-valid at all times)."""
import json
from pathlib import Path

VERIF = Path(__file__).resolve().parent.parent
PROOF_NOTE = ("Trusted: Lean 4.33 kernel; axioms propext/Classical.choice/Quot.sound only (audited each run); "
              "the hand-written model is tied to /repo by the correspondence check in this command "
              "(differential testing of model definitions vs real code under a virtual clock) — that tie is "
              "sampled, not proved; CPython/asyncio/json/datetime semantics; ")

# id -> (text, note-extra, technique, design_ref)
CHECKS = {
 "C01": ("Lean theorems over ALL finite histories of in-memory broker atoms (any interleaving, any cancellation point = atom prefix): per-id conservation (mem_count), exactly-one-place (mem_exactly_one_place / mem_onePlace), per-op clauses (ack_removes, nack_dead_letters, requeue_replaces, reject_origin_partial + refutation witnesses). "
         "The code-model is compared with the real InMemoryMessageBroker after every call of random well-behaved sessions, and every call kind is cancelled at every event-loop callback index; Lean predicates are evaluated on the implementation's snapshots.",
         "in-memory broker only so far (Redis/RabbitMQ parts: see DESIGN.md); queue_flush/delete excluded.",
         "Lean 4 proof (induction over atom histories) + differential correspondence + cancellation-point enumeration", "§5 C01"),
 "C19": ("Lean theorems (all retry numbers, all timestamps/periods, unbounded Int/Nat) about Sched.backoff/nextDefer/computeNext/overdue; "
         "the model functions are compared with the real retry policy, compute_next_execution_time, _prepare_* and the four is_overdue copies under a pinned clock, "
         "and the Lean predicates are evaluated on the implementation's values.",
         "cron branch is a model parameter (croniter absent).",
         "Lean 4 proof (omega/induction-free arithmetic) + differential correspondence", "§5 C19"),
}
PENDING_REASON = "check not built yet in this round (work in progress; see DESIGN.md §9 order of work)"
ALL = [f"C{i:02d}" for i in range(1, 21)]

def main():
    checks = []
    for pid in ALL:
        if pid not in CHECKS:
            continue
        text, note, tech, ref = CHECKS[pid]
        checks.append({
            "property_id": pid,
            "quick_cmd": f"./check {pid} --tier quick",
            "thorough_cmd": f"./check {pid} --tier thorough",
            "evidence_file": f"evidence/{pid}.json",
            "replay_cmd_template": f"./check {pid} --replay {{path}}",
            "engine": "lean-proof+correspondence",
            "level_claimed": {"category": "proof", "text": text, "design_ref": ref},
            "level_note": PROOF_NOTE + note,
            "technique": tech,
        })
    m = {
        "version": 1,
        "setup_cmd": "./setup.sh",
        "hooks": {
            "guard": "REPID_VERIF",
            "enable": "no source hooks: the harness patches clock / event loop / server clients from outside the repository",
            "baseline_off_cmd": "cd /repo && /venv/bin/python -m pytest -ra -q -p no:cacheprovider --timeout=900 --continue-on-collection-errors",
            "source_commits": [],
            "add_only": True,
        },
        "engines": [{
            "name": "lean-proof+correspondence",
            "path": "check",
            "serves_properties": [c["property_id"] for c in checks],
            "kind_free_text": "Lean 4 theorems about a hand-written executable model (lean/), tied to /repo on every run by a behavioural correspondence check (harness/) through a line protocol to the compiled model driver",
        }],
        "checks": checks,
        "not_applicable": [{"property_id": p, "reason": PENDING_REASON} for p in ALL if p not in CHECKS],
        "notes": "All checks: ./check <id> --tier quick|thorough. Exit 2 = machinery failure (never a VIOLATION).",
    }
    (VERIF / "MANIFEST.json").write_text(json.dumps(m, indent=1) + "\n")

if __name__ == "__main__":
    main()
