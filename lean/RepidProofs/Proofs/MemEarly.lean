/-
Helper lemmas for C05 (in-memory): the "already due" invariant and its preservation by every atom.
-/
import RepidModel.Broker.MemHistory

namespace Repid.Mem

/-- every waiting message — and every message held out of the *normal* category — that had a due
    time is past it at `now`; every entry of the delayed dict is filed under its due time -/
def EarlyInv (now : Int) (q : Q) : Prop :=
  (∀ m ∈ q.simple, ∀ d, m.due = some d → d < now) ∧
  (∀ h ∈ q.processing, h.frm = .normal → ∀ d, h.msg.due = some d → d < now) ∧
  (∀ e ∈ q.delayed, ∀ m ∈ e.2, m.due = some e.1)

theorem EarlyInv.mono {t t' : Int} {q : Q} (h : EarlyInv t q) (ht : t ≤ t') : EarlyInv t' q :=
  ⟨fun m hm d hd => by have := h.1 m hm d hd; omega,
   fun x hx hf d hd => by have := h.2.1 x hx hf d hd; omega, h.2.2⟩

/-- the clock value an atom reads, if any -/
def opNow : Op → Option Int
  | .put _ now => some now
  | .reput _ now => some now
  | .update now => some now
  | .poll _ _ now _ => some now
  | _ => none

/-- hypothesis of the partial theorem: messages are only ever *returned* (reject / consumer finish)
    out of a normal-category hold -/
def okReturn (q : Q) : Op → Prop
  | .reject i => ∀ h, findHeld q i = some h → h.frm = .normal
  | .finish _ _ => ∀ h ∈ q.processing, h.frm = .normal
  | _ => True

theorem dictAppend_due (d : List (Int × List Msg)) (t : Int) (m : Msg) (hm : m.due = some t)
    (hd : ∀ e ∈ d, ∀ x ∈ e.2, x.due = some e.1) :
    ∀ e ∈ dictAppend d t m, ∀ x ∈ e.2, x.due = some e.1 := by
  induction d with
  | nil => intro e he x hx; simp [dictAppend] at he; subst he; simp at hx; subst hx; exact hm
  | cons a rest ih =>
    obtain ⟨k, ms⟩ := a
    intro e he x hx
    unfold dictAppend at he
    split at he
    · next hk =>
      simp only [List.mem_cons] at he
      rcases he with he | he
      · subst he
        simp only [List.mem_append, List.mem_singleton] at hx
        rcases hx with hx | hx
        · exact hd (k, ms) (by simp) x hx
        · subst hx; simpa [hk] using hm
      · exact hd e (by simp [he]) x hx
    · simp only [List.mem_cons] at he
      rcases he with he | he
      · subst he; exact hd (k, ms) (by simp) x hx
      · exact ih (fun e he => hd e (by simp [he])) e he x hx

theorem popAt_sub (d : List (Int × List Msg)) (t : Int) :
    (∀ m, (popAt d t).1 = some m → ∃ e ∈ d, m ∈ e.2) ∧
    (∀ e ∈ (popAt d t).2, ∃ e' ∈ d, e.1 = e'.1 ∧ ∀ x ∈ e.2, x ∈ e'.2) := by
  induction d with
  | nil => simp [popAt]
  | cons a rest ih =>
    obtain ⟨k, ms⟩ := a
    unfold popAt
    split
    · match ms with
      | [] => exact ⟨by simp, fun e he => ⟨e, he, rfl, fun _ h => h⟩⟩
      | [m] =>
        refine ⟨fun m' h => ⟨(k, [m]), by simp, by simp at h; simp [h]⟩, fun e he => ?_⟩
        exact ⟨e, by simp at he ⊢; exact Or.inr he, rfl, fun _ h => h⟩
      | m :: m2 :: ms' =>
        refine ⟨fun m' h => ⟨(k, m :: m2 :: ms'), by simp, by simp at h; simp [h]⟩, fun e he => ?_⟩
        simp only [List.mem_cons] at he
        rcases he with he | he
        · subst he; exact ⟨(k, m :: m2 :: ms'), by simp, rfl, fun x hx => by simp at hx ⊢; exact Or.inr hx⟩
        · exact ⟨e, by simp [he], rfl, fun _ h => h⟩
    · refine ⟨fun m h => ?_, fun e he => ?_⟩
      · obtain ⟨e, he, hm⟩ := ih.1 m h
        exact ⟨e, by simp [he], hm⟩
      · simp only [List.mem_cons] at he
        rcases he with he | he
        · subst he; exact ⟨(k, ms), by simp, rfl, fun _ h => h⟩
        · obtain ⟨e', he', h1, h2⟩ := ih.2 e he
          exact ⟨e', by simp [he'], h1, h2⟩

theorem mem_dropHeld {q : Q} {i : String} {h : Held} (hh : h ∈ dropHeld q i) : h ∈ q.processing :=
  List.mem_of_mem_eraseP hh

theorem early_put (cron) (t now : Int) (q : Q) (m : Msg) (ht : t ≤ now) (h : EarlyInv t q) :
    EarlyInv now (put q m now cron) := by
  have h' := h.mono ht
  unfold put
  split
  · next d hd =>
    exact ⟨h'.1, h'.2.1, dictAppend_due q.delayed d _ rfl h'.2.2⟩
  · refine ⟨fun x hx d hd => ?_, h'.2.1, h'.2.2⟩
    simp only [List.mem_append, List.mem_singleton] at hx
    rcases hx with hx | hx
    · exact h'.1 x hx d hd
    · subst hx; simp at hd

/-- one poll: the invariant is kept, and a message returned out of the normal category is due -/
theorem early_poll (q : Q) (cat : Cat) (now : Int) (topics : List String) (h' : EarlyInv now q) :
    EarlyInv now (poll q cat now topics).2 ∧
    (∀ m, (poll q cat now topics).1 = some m → cat = .normal → ∀ d, m.due = some d → d < now) := by
  cases cat with
  | normal =>
    simp only [poll, pollNormal]
    cases hs : q.simple with
    | nil => exact ⟨by simpa [hs] using h', by simp⟩
    | cons x xs =>
      have hx : ∀ m ∈ xs, ∀ d, m.due = some d → d < now :=
        fun m hm => h'.1 m (by simp [hs, hm])
      have hhead : ∀ d, x.due = some d → d < now := h'.1 x (by simp [hs])
      by_cases h1 : x.params.isOverdue now = true
      · simp only [h1, if_true]; exact ⟨⟨hx, h'.2.1, h'.2.2⟩, by simp⟩
      · by_cases h2 : (!wants topics x) = true
        · simp only [h1, h2, if_true]
          refine ⟨⟨fun m hm => ?_, h'.2.1, h'.2.2⟩, by simp⟩
          simp at hm
          rcases hm with hm | hm
          · exact hx m hm
          · subst hm; exact hhead
        · simp only [h1, h2]
          refine ⟨⟨hx, h'.2.1, h'.2.2⟩, fun m hm _ => ?_⟩
          simp at hm; subst hm; exact hhead
  | delayed =>
    simp only [poll, pollDelayed]
    cases hk : minKey q.delayed with
    | none => exact ⟨h', by simp⟩
    | some tk =>
      have hsub := popAt_sub q.delayed tk
      have hdel : ∀ e ∈ (popAt q.delayed tk).2, ∀ m ∈ e.2, m.due = some e.1 := by
        intro e he m hm
        obtain ⟨e', he', h1, h2⟩ := hsub.2 e he
        rw [h1]; exact h'.2.2 e' he' m (h2 m hm)
      exact ⟨⟨h'.1, h'.2.1, hdel⟩, by simp⟩
  | dead =>
    simp only [poll, pollDead]
    cases hd : q.dead with
    | nil => exact ⟨h', by simp⟩
    | cons x xs => exact ⟨⟨h'.1, h'.2.1, h'.2.2⟩, by simp⟩

theorem early_pollTake (q : Q) (c : Nat) (cat : Cat) (now : Int) (topics : List String)
    (h' : EarlyInv now q) :
    EarlyInv now (pollTake q c cat now topics).2 ∧
    (∀ m, (pollTake q c cat now topics).1 = some m → cat = .normal → ∀ d, m.due = some d → d < now) := by
  have hp := early_poll q cat now topics h'
  unfold pollTake
  cases hr : poll q cat now topics with
  | mk r q' =>
    rw [hr] at hp
    cases r with
    | none => exact ⟨hp.1, by simp⟩
    | some m =>
      refine ⟨⟨hp.1.1, fun y hy hf => ?_, hp.1.2.2⟩, fun m' hm' hc => ?_⟩
      · simp only [List.mem_append, List.mem_singleton] at hy
        rcases hy with hy | hy
        · exact hp.1.2.1 y hy hf
        · subst hy; exact hp.2 m rfl hf
      · simp at hm'; subst hm'; exact hp.2 m rfl hc

theorem early_step (cron) (t : Int) (q : Q) (op : Op) (h : EarlyInv t q)
    (hclk : ∀ n, opNow op = some n → t ≤ n) (hret : okReturn q op) :
    EarlyInv ((opNow op).getD t) (step cron q op) := by
  cases op with
  | put m now => exact early_put cron t now q m (hclk now rfl) h
  | reput m now =>
    have := early_put cron t now q m (hclk now rfl) h
    exact ⟨this.1, this.2.1, this.2.2⟩
  | ack i =>
    simp only [step, ackA, opNow, Option.getD]; split
    · exact ⟨h.1, fun x hx => h.2.1 x (mem_dropHeld hx), h.2.2⟩
    · exact h
  | nack i =>
    simp only [step, nackA, opNow, Option.getD]; split
    · exact ⟨h.1, fun x hx => h.2.1 x (mem_dropHeld hx), h.2.2⟩
    · exact h
  | unhold i =>
    simp only [step, unholdA, opNow, Option.getD]; split
    · exact ⟨h.1, fun x hx => h.2.1 x (mem_dropHeld hx), h.2.2⟩
    · exact h
  | reject i =>
    simp only [step, rejectA, opNow, Option.getD]; split
    · next hh hf =>
      have hfrm := hret hh hf
      have hmem : hh ∈ q.processing := List.mem_of_find?_eq_some hf
      refine ⟨fun x hx d hd => ?_, fun x hx => h.2.1 x (mem_dropHeld hx), h.2.2⟩
      simp only [List.mem_append, List.mem_singleton] at hx
      rcases hx with hx | hx
      · exact h.1 x hx d hd
      · subst hx; exact h.2.1 hh hmem hfrm d hd
    · exact h
  | finish c perm =>
    simp only [step, opNow, Option.getD]; split
    · next hp =>
      have hperm := List.isPerm_iff.mp hp
      refine ⟨fun x hx d hd => ?_, by simp [finishA], h.2.2⟩
      simp only [finishA, List.mem_append, List.mem_map] at hx
      rcases hx with hx | ⟨hh, hhm, rfl⟩
      · exact h.1 x hx d hd
      · have : hh ∈ q.processing := hperm.mem_iff.mp hhm
        exact h.2.1 hh this (hret hh this) d hd
    · exact h
  | update now =>
    have ht := hclk now rfl
    have h' := h.mono ht
    simp only [step, updateDelayed, opNow, Option.getD]
    refine ⟨fun x hx d hd => ?_, h'.2.1, fun e he => h'.2.2 e (List.mem_filter.mp he).1⟩
    simp only [List.mem_append, delayedMsgs, List.mem_flatMap, List.mem_filter] at hx
    rcases hx with hx | ⟨e, ⟨he, hlt⟩, hxe⟩
    · exact h'.1 x hx d hd
    · have := h'.2.2 e he x hxe
      rw [this] at hd; injection hd with hd; subst hd; simpa using hlt
  | poll c cat now topics =>
    have ht := hclk now rfl
    simp only [opNow, Option.getD, step]
    exact (early_pollTake q c cat now topics (h.mono ht)).1

end Repid.Mem
