import RepidModel.Driver.State
import RepidModel.Worker.Chain
import RepidModel.Pred.Worker
import RepidModel.Worker.Runner

namespace Repid.Driver
open Repid Sexp Wire Worker

def apiOf : Sexp → Option Api
  | .atom "ack" => some .ack
  | .atom "nack" => some .nack
  | .atom "reject" => some .reject
  | .atom "reschedule" => some .reschedule
  | .list [.atom "retry", n] => do pure (.retry (← toOpt? toInt? n))
  | .list [.atom "forceRetry", n] => do pure (.forceRetry (← toOpt? toInt? n))
  | _ => none

def preOf : Sexp → Option Pre
  | .atom "setResult" => some .setResult
  | .atom "setException" => some .setException
  | .list [.atom "cb", i, r] => do pure (.addCallback (← toNat? i) (← toBool? r))
  | _ => none

def outcomeOf : Sexp → Option Outcome
  | .atom "ret" => some .ret
  | .atom "raise" => some .raise
  | .atom "timeout" => some .timeout
  | .atom "convFail" => some .convFail
  | .atom "depFail" => some .depFail
  | .list [.atom "eager", pre, a] => do pure (.eager (← mapM? preOf pre) (← apiOf a))
  | _ => none

def bcallTo : BCall → Sexp
  | .ack => .atom "ack"
  | .nack => .atom "nack"
  | .reject => .atom "reject"
  | .requeue p => .list [.atom "requeue", paramsTo p]

def cbTo : Cb → Sexp
  | .user i _ => .list [.atom "cb", ofNat i]
  | .store s => .list [.atom "store", ofBool s]

def refusalTo : Refusal → Sexp
  | .readOnly => .atom "readOnly"
  | .category => .atom "category"
  | .budget => .atom "budget"
  | .noResultParams => .atom "noResultParams"
  | .noResultBroker => .atom "noResultBroker"

def catOf' : Sexp → Option Mem.Cat
  | .atom "NORMAL" => some .normal
  | .atom "DELAYED" => some .delayed
  | .atom "DEAD" => some .dead
  | _ => none

def obsOf : Sexp → Option Pred.C04.Obs
  | .list [a, b, c, d] => do
    pure { tried := ← toInt? a, start := ← toInt? b, fin := ← toInt? c, failed := ← toBool? d }
  | _ => none

def worker : String → List Sexp → Option Sexp
  -- (proc.process <P> now policyNext hasBroker storeFails <outcome>)
  | "proc.process", [p, now, pn, hb, sf, o] => do
    let p ← paramsOf p; noCron p
    let t := process p (← toInt? now) cronStub (← toInt? pn) (← toBool? hb) (← toBool? sf) (← outcomeOf o)
    pure (.list [.atom "trace", ofList bcallTo t.calls, ofList ofBool t.stores, ofBool t.bodyRan,
                 ofList cbTo t.ran, ofBool t.raised])
  -- (proc.report <P> success now policyNext) / (proc.disposition …)
  | "proc.report", [p, s, now, pn] => do
    let p ← paramsOf p; noCron p
    pure (bcallTo (report p (← toBool? s) (← toInt? now) cronStub (← toInt? pn)))
  | "proc.disposition", [p, s, now, pn] => do
    let p ← paramsOf p; noCron p
    pure (bcallTo (disposition p (← toBool? s) (← toInt? now) cronStub (← toInt? pn)))
  -- (handle.calls category <P> now dflt (api…)) → per call: (ok <bcall>) | (err <refusal>)
  | "handle.calls", [cat, p, now, dflt, seq] => do
    let p ← paramsOf p; noCron p
    let h : Handle := { category := ← catOf' cat }
    let rs := h.calls p (← toInt? now) cronStub (← toInt? dflt) (← mapM? apiOf seq)
    pure (ofList (fun | .ok b => .list [.atom "ok", bcallTo b] | .error r => .list [.atom "err", refusalTo r]) rs)
  -- (c04.chainOk maxN recurring (pol1 pol2 …) ((tried start fin failed)…) final)
  | "c04.chainOk", [mx, rec, pol, xs, fin] => do
    let pol ← mapM? toInt? pol
    let xs ← mapM? obsOf xs
    let final ← match fin with
      | .atom "acked" => some Pred.C04.Final.acked
      | .atom "dead" => some .dead
      | .atom "rescheduled" => some .rescheduled
      | .atom "other" => some .other
      | _ => none
    let polf : Int → Int := fun k => (pol[(k - 1).toNat]?).getD 0
    pure (ofBool (Pred.C04.chainOk (← toInt? mx) (← toBool? rec) polf xs final))
  -- (c04.backoffOk (pol1 pol2 …) ((tried start fin failed)…)): counters grow by one, every retry waits for its back-off
  | "c04.backoffOk", [pol, xs] => do
    let pol ← mapM? toInt? pol
    let xs ← mapM? obsOf xs
    let polf : Int → Int := fun k => (pol[(k - 1).toNat]?).getD 0
    let k0 := match xs with | x :: _ => x.tried | [] => 0
    pure (ofBool (Pred.C04.countersOk k0 xs && Pred.C04.backoffOk polf xs))
  | "c06.successorOk", [now, per, ts0, du, p] => do
    let per ← toInt? per
    if per ≤ 0 then none
    pure (ofBool (Pred.C06.successorOk (← toInt? now) per (← toInt? ts0) (← toOpt? toInt? du) (← paramsOf p)))
  | "c06.spacingOk", [a, b, per] => do
    pure (ofBool (Pred.C06.spacingOk (← toInt? a) (← toInt? b) (← toInt? per)))
  -- (runner.accept limit maxTasks|none ((free tasks processed stop)…)) → ok | (unexplained i)
  | "runner.accept", [limit, mx, snaps] => do
    let snaps ← mapM? (fun x => match x with
      | .list [f, t, p, s] => do
        pure ({ free := ← toNat? f, tasks := ← toNat? t, processed := ← toNat? p, stop := ← toBool? s } : Runner.Snap)
      | _ => none) snaps
    match Runner.accept [Runner.init (← toNat? limit) (← toOpt? toNat? mx)] snaps 0 with
    | none => pure (.atom "ok")
    | some i => pure (.list [.atom "unexplained", ofNat i])
  -- (c16.orderOk (pre…) (ran…)) with ran = ((cb id) | (store flag))…
  | "c16.orderOk", [pre, ran] => do
    let ran ← mapM? (fun x => match x with
      | .list [.atom "cb", i] => (toNat? i).map fun n => Cb.user n false
      | .list [.atom "store", s] => (toBool? s).map Cb.store
      | _ => none) ran
    pure (ofBool (Pred.C16.orderOk (← mapM? preOf pre) ran))
  | _, _ => none

end Repid.Driver
