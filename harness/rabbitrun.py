"""Sessions on the real RabbitMessageBroker / _RabbitConsumer against the in-process fake AMQP server, compared after
every call with the Lean model `Rabbit.S` (driver commands `rabbit.*`), plus the RabbitMQ clauses of C01, C05, C12,
C14, C15 evaluated on what the implementation did.  Used by props/c01.py, c05.py, c12.py, c14.py, c15.py."""
import implenv  # noqa: F401

import asyncio
import os

import fake_amqp
import vtime
from common import NONE, A, Model, Result, Rng, parse_sx, pmap, sx
from memrun import S, mk_params, params_sx
from vtime import CLOCK, to_us

fake_amqp.install()

from repid import MessageCategory  # noqa: E402
from repid.connections.rabbitmq.consumer import _RabbitConsumer  # noqa: E402
from repid.connections.rabbitmq.message_broker import RabbitMessageBroker  # noqa: E402
from repid.connections.rabbitmq.utils import wait_until  # noqa: E402
from repid.data._key import RoutingKey  # noqa: E402

CATS = {"NORMAL": MessageCategory.NORMAL, "DELAYED": MessageCategory.DELAYED, "DEAD": MessageCategory.DEAD}
QN = {"rq": "NORMAL", "rq:delayed": "DELAYED", "rq:dead": "DEAD"}
QUEUE = "rq"
F2R = "F2r-rabbit-requeue-not-atomic"
F21 = "F21-rabbit-delayed-head-of-line"
F23 = "F23-rabbit-nack-outside-normal-category"
ASSUMPTIONS = ["RabbitMQ server = in-process fake implementing assumption set A (priority-ordered queues, requeue to the original "
               "position, dead-lettering, per-message TTL firing only at the queue head, exclusive deliveries)",
               "one consumer per queue and channel, unlimited prefetch, no topic filter in the modelled sessions"]


def amsg_sx(key, payload, params) -> list:
    return [A("A"), key.id_, key.topic, key.priority, payload, params_sx(params)]


class Session:
    def __init__(self, dsn: str) -> None:
        fake_amqp.reset_servers()
        self.dsn = dsn
        self.srv = fake_amqp.server_for(dsn)
        self.producer = RabbitMessageBroker(dsn)
        self.consumers: dict = {}          # cid -> (broker, consumer, cat)
        self.chan_to_c: dict = {}
        self.reqs, self.obs, self.ops = [sx([A("rabbit.reset")])], ["ok"], [{"op": "reset"}]
        self.msgs: dict = {}
        self.held: dict = {}
        self.acked: set = set()
        self.arrivals: list = []           # (id, cid, cat, at)
        self.deliveries: list = []
        self.published: list = []          # expiration property of every publish
        self.finished: set = set()         # consumers stopped with finish(): cancelled at the server, local queue given back

    async def open(self) -> None:
        await self.producer.connect()
        await self.producer.queue_declare(QUEUE)
        orig = self.srv.publish

        def spy(routing_key, body, properties):
            self.published.append((routing_key, properties.expiration))
            return orig(routing_key, body, properties)
        self.srv.publish = spy

    async def settle(self) -> None:
        for _ in range(60):
            await asyncio.sleep(0)

    def snapshot(self) -> list:
        def ids(q):
            return [m.properties.message_id for m in self.srv.queues[q].ready] if q in self.srv.queues else []
        un = sorted([[self.chan_to_c.get(cid, -1), A(QN[qn]), m.properties.message_id] for (cid, _t), (qn, m) in self.srv.unacked.items()],
                    key=lambda e: e[2])
        loc = [[c, [k.id_ for (k, _p, _pp) in cons.queue._queue]] for c, (_b, cons, _cat) in sorted(self.consumers.items())
               if c not in self.finished]
        return [A("S"), ids("rq"), ids("rq:delayed"), ids("rq:dead"), un, loc, sorted(m.properties.message_id for m in self.srv.dropped)]

    def payloads_of(self, mid: str) -> list:
        """(place, payload) of every copy of the message at the server"""
        import json as _json
        out = []
        for qn, q in self.srv.queues.items():
            for m in q.ready:
                if m.properties.message_id == mid:
                    out.append([QN.get(qn, qn), _json.loads(m.body)["payload"]])
        for (_cid, _t), (qn, m) in self.srv.unacked.items():
            if m.properties.message_id == mid:
                out.append(["held:" + QN.get(qn, qn), _json.loads(m.body)["payload"]])
        return out

    def rec(self, op: dict, reqs: list, obs) -> None:
        for r in reqs[:-1]:
            self.ops.append({"op": "(step)"})
            self.reqs.append(sx(r))
            self.obs.append(None)
        self.ops.append(op)
        self.reqs.append(sx(reqs[-1]))
        self.obs.append(sx(obs))

    async def consumer(self, c: int, cat: str) -> None:
        b = RabbitMessageBroker(self.dsn)
        await b.connect()
        cons = _RabbitConsumer(b, QUEUE, None, category=CATS[cat])
        orig = cons.on_new_message

        async def on_new_message(message, c=c, cat=cat):
            self.arrivals.append({"id": message.header.properties.message_id, "c": c, "cat": cat, "at": CLOCK.us,
                                  "seq": len(self.ops), "redelivered": bool(message.delivery.redelivered)})
            return await orig(message)
        on_new_message.__self__ = cons       # (`_Consumers.pop` reaches the consumer through the callback's `__self__`)
        cons.on_new_message = on_new_message
        await cons.start()
        self.consumers[c] = (b, cons, cat)
        self.chan_to_c[b._channel.id] = c
        await self.settle()
        self.rec({"op": "consumer", "c": c, "cat": cat, "now": CLOCK.us}, [[A("rabbit.consumer"), c, A(cat), []], [A("rabbit.settle"), CLOCK.us]], self.snapshot())

    async def enqueue(self, mid: str, topic: str, prio: int, payload: str, pd: dict) -> None:
        key = RoutingKey(id_=mid, topic=topic, queue=QUEUE, priority=prio)
        params = mk_params(pd)
        now = CLOCK.us
        due = wait_until(params)
        n0 = len(self.published)
        await self.producer.enqueue(key, payload, params)
        exp = self.published[n0][1]
        millis = None if due is None else (int(exp) if exp is not None else 0)
        await self.settle()
        self.msgs[mid] = {"key": key, "due": None if due is None else to_us(due), "params": params, "payload": payload, "enq_at": now}
        self.rec({"op": "enqueue", "id": mid, "prio": prio, "params": pd, "now": now, "millis": millis,
                  "due": None if due is None else to_us(due)},
                 [[A("rabbit.publish"), amsg_sx(key, payload, params), NONE if millis is None else millis, now],
                  [A("rabbit.settle"), CLOCK.us]], self.snapshot())

    async def consume(self, c: int) -> dict | None:
        b, cons, cat = self.consumers[c]
        got = None
        now0 = CLOCK.us
        if not cons.queue.empty():
            # (consume() dead-letters overdue prefetched messages and waits for the next one: bound the wait)
            try:
                got = await asyncio.wait_for(cons.consume(), 0.001)
            except asyncio.TimeoutError:
                got = None
            await self.settle()
        d = None
        if got is not None:
            key, payload, params = got
            d = {"id": key.id_, "c": c, "cat": cat, "at": CLOCK.us, "prio": key.priority, "overdue": bool(params.is_overdue),
                 "seq": len(self.ops)}
            self.deliveries.append(d)
            self.held[key.id_] = c
        snap = self.snapshot()
        self.ops.append({"op": "consume", "c": c, "got": d and d["id"], "now": now0})
        self.reqs.append(sx([A("rabbit.consume"), c, now0]))
        self.obs.append(None)
        self.ops.append({"op": "(step)"})
        self.reqs.append(sx([A("rabbit.settle"), CLOCK.us]))
        self.obs.append(sx(snap))
        self.consume_answers = getattr(self, "consume_answers", [])
        self.consume_answers.append((len(self.reqs) - 2, sx(NONE if got is None else amsg_sx(got[0], got[1], got[2]))))
        return d

    async def terminal(self, kind: str, mid: str, pd: dict | None = None, payload: str = "") -> None:
        c = self.held.pop(mid)
        b = self.consumers[c][0]
        key = self.msgs[mid]["key"]
        now = CLOCK.us
        if kind == "requeue":
            params = mk_params(pd)
            due = wait_until(params)
            n0 = len(self.published)
            await b.requeue(key, payload, params)
            exp = self.published[n0][1]
            millis = None if due is None else (int(exp) if exp is not None else 0)
            await self.settle()
            self.msgs[mid].update(due=None if due is None else to_us(due), params=params, payload=payload, enq_at=now)
            self.rec({"op": "requeue", "id": mid, "params": pd, "now": now, "millis": millis, "due": self.msgs[mid]["due"],
                      "new_payload": payload, "found_after": self.payloads_of(mid)},
                     [[A("rabbit.ack"), mid], [A("rabbit.publish"), amsg_sx(key, payload, params), NONE if millis is None else millis, now],
                      [A("rabbit.settle"), CLOCK.us]], self.snapshot())
            return
        await getattr(b, kind)(key)
        await self.settle()
        if kind == "ack":
            self.acked.add(mid)
        self.rec({"op": kind, "id": mid, "now": now}, [[A("rabbit." + kind), mid], [A("rabbit.settle"), CLOCK.us]], self.snapshot())

    async def finish(self, c: int) -> None:
        """`_RabbitConsumer.finish()`: cancel at the server, reject (requeue) everything still in the local queue.  What the
        consumer already handed over stays held under its channel and can still be settled through its broker."""
        _b, cons, _cat = self.consumers[c]
        now = CLOCK.us
        await cons.finish()
        await self.settle()
        self.finished.add(c)
        self.rec({"op": "finish", "c": c, "now": now}, [[A("rabbit.finish"), c, now], [A("rabbit.settle"), CLOCK.us]], self.snapshot())

    async def advance(self, us: int) -> None:
        await asyncio.sleep(us / 1e6)
        await self.settle()
        self.rec({"op": "advance", "us": us, "now": CLOCK.us}, [[A("rabbit.settle"), CLOCK.us]], self.snapshot())


def gen_pd(rng: Rng, now: int, profile: str) -> dict:
    pd: dict = {"ts": now - rng.choice([0, 0, 1, S, 3 * S])}
    if profile == "fifo":
        return pd
    r = rng.random()
    if r < 0.5:
        pass
    elif r < 0.85:
        pd["next"] = now + rng.choice([-3600 * S, -1, 0, 1, 400, 999, 1000, 1001, 1900, 400_000, S, S + 900_000, 2 * S + 500_000, 5 * S, 3600 * S,
                                        86400 * S - 5, 86400 * S + 700_000, 3 * 86400 * S + 2 * S])
    else:
        pd["delay_until"] = now + rng.choice([-S, 0, 1500, 500_000, 2 * S + 250_000, 600 * S, 2 * 86400 * S + 1500])
    if rng.random() < (0.5 if profile == "ttl" else 0.15):
        pd["ttl"] = rng.choice([S, 2 * S, 5 * S, 3600 * S, 0, 1])
    return pd


async def random_session(rng: Rng, n_ops: int, profile: str, box: list) -> Session:
    s = Session(f"amqp://s{rng.random()}")
    box.append(s)
    await s.open()
    await asyncio.sleep(rng.choice([0, 0.0004, 0.25, 0.9995]))
    cats = ["NORMAL"] + (["DEAD"] if profile in ("ttl", "mixed") and rng.random() < 0.6 else []) + \
           (["DELAYED"] if profile == "mixed" and rng.random() < 0.3 else [])
    late = rng.random() < 0.3
    stop_at = rng.randrange(n_ops // 3, n_ops) if rng.random() < 0.35 else None
    if not late:
        for c, cat in enumerate(cats):
            await s.consumer(c, cat)
    nid = 0
    for step in range(n_ops):
        if late and step == n_ops // 3:
            for c, cat in enumerate(cats):
                await s.consumer(c, cat)
        r = rng.random()
        if r < 0.4 or not s.msgs:
            nid += 1
            await s.enqueue(f"a{nid}", "ta", 5 if profile == "fifo" else rng.choice([9, 5, 5, 0]), rng.choice(["", "{}"]),
                            gen_pd(rng, CLOCK.us, profile))
        elif r < 0.65 and s.consumers:
            c = rng.choice(sorted(s.consumers))
            if c in s.finished:
                continue
            if stop_at is not None and step >= stop_at and c not in s.finished and rng.random() < 0.5:
                await s.finish(c)        # the consumer stops in the middle of the history (prefetched messages go back)
                continue
            await s.consume(c)
        elif r < 0.85 and s.held:
            mid = rng.choice(sorted(s.held))
            kind = rng.choice(["ack", "nack", "reject", "requeue"])
            if kind == "nack" and s.consumers[s.held[mid]][2] != "NORMAL":
                kind = "reject"
            if kind == "requeue":
                await s.terminal("requeue", mid, gen_pd(rng, CLOCK.us, profile), rng.choice(["", '{"y": 2}']))
            else:
                await s.terminal(kind, mid)
        else:
            await s.advance(rng.choice([1, 500, 1000, 100_000, 400_000, S, S + 300_000, 3 * S, 10 * S, 700 * S, 3600 * S, 86400 * S]))
    if not s.consumers:
        for c, cat in enumerate(cats):
            await s.consumer(c, cat)
    return s


async def prefetch_ttl(kind: str) -> dict:
    """C12: a message is prefetched by the consumer while still alive, its TTL runs out while it waits in the consumer's
    local queue, and only then the worker asks for it"""
    if kind == "rabbit":
        s = Session("amqp://prefetch")
        await s.open()
        await s.consumer(0, "NORMAL")
        await s.enqueue("p1", "ta", 5, "{}", {"ts": CLOCK.us, "ttl": 2 * S})
        await asyncio.sleep(5)
        b, cons, _ = s.consumers[0]
        got = None
        if not cons.queue.empty():
            try:
                got = await asyncio.wait_for(cons.consume(), 1)
            except asyncio.TimeoutError:
                got = None
        await s.settle()
        dead = [m.properties.message_id for m in s.srv.queues["rq:dead"].ready]
    else:
        import redisrun
        rs = redisrun.Session("redis://prefetch")
        redisrun._RedisConsumer.POLLING_WAIT = 0.1
        cons = redisrun._RedisConsumer(rs.broker, redisrun.QUEUE, None, category=CATS["NORMAL"])
        await cons.start()
        await rs.enqueue("p1", "ta", 5, "{}", {"ts": CLOCK.us, "ttl": 2 * S})
        await asyncio.sleep(5)
        got = None
        try:
            got = await asyncio.wait_for(cons.consume(), 1)
        except asyncio.TimeoutError:
            got = None
        dead = [m for m in rs.msgs if any(p.endswith(":dead") for p in rs.places(m))]
        if cons.consume_task is not None:
            cons.consume_task.cancel()
        redisrun._RedisConsumer.POLLING_WAIT = 0
    return {"broker": kind, "delivered": None if got is None else got[0].id_, "overdue_at_delivery": None if got is None else bool(got[2].is_overdue),
            "dead": dead}


async def requeue_window(rng: Rng) -> dict:
    """C01: requeue interrupted between its two round trips"""
    s = Session("amqp://window")
    await s.open()
    await s.consumer(0, "NORMAL")
    await s.enqueue("w1", "ta", 5, "{}", {"ts": CLOCK.us})
    d = await s.consume(0)
    b = s.consumers[0][0]
    key = s.msgs["w1"]["key"]
    out = []
    for k in range(1, 8):
        pass
    # cancel after exactly k event-loop steps, for every k until the call completes
    results = []
    for k in range(1, 12):
        s2 = Session(f"amqp://window{k}")
        await s2.open()
        await s2.consumer(0, "NORMAL")
        await s2.enqueue("w1", "ta", 5, "{}", {"ts": CLOCK.us})
        await s2.consume(0)
        b2 = s2.consumers[0][0]
        t = asyncio.ensure_future(b2.requeue(s2.msgs["w1"]["key"], '{"new": 1}', mk_params({"ts": CLOCK.us})))
        for _ in range(k):
            await asyncio.sleep(0)
        done = t.done()
        t.cancel()
        await asyncio.gather(t, return_exceptions=True)
        await s2.settle()
        snap = s2.snapshot()
        n_places = sum(1 for q in snap[1:4] for i in q if i == "w1") + sum(1 for e in snap[4] if e[2] == "w1")
        results.append({"cancel_after_steps": k, "completed": done, "places": n_places})
        if done:
            break
    return {"results": results}


async def nack_nonnormal() -> dict:
    """C01 / C05: nack of a message that is held from the DELAYED or the DEAD category"""
    s = Session("amqp://nackcat")
    await s.open()
    await s.consumer(0, "NORMAL")
    await s.consumer(1, "DELAYED")
    await s.consumer(2, "DEAD")
    await s.enqueue("later", "ta", 5, "{}", {"ts": CLOCK.us, "next": CLOCK.us + 3600 * S})
    d = await s.consume(1)                       # the DELAYED-category consumer holds it
    await s.terminal("nack", "later")
    early = [a for a in s.arrivals if a["id"] == "later" and a["cat"] == "NORMAL"]
    await s.enqueue("dl", "ta", 5, "{}", {"ts": CLOCK.us})
    for _ in range(3):
        d = await s.consume(0)
        if d is not None and d["id"] == "dl":
            break
    dropped = False
    if "dl" in s.held:
        await s.terminal("nack", "dl")           # dead-lettered
        for _ in range(3):
            d = await s.consume(2)               # the DEAD-category consumer holds it
            if d is not None and d["id"] == "dl":
                break
        if "dl" in s.held:
            await s.terminal("nack", "dl")
    snap = s.snapshot()
    return {"delayed_nack_arrived_at_normal": early[0]["at"] if early else None, "due": s.msgs["later"]["due"],
            "dead_nack_dropped": "dl" in snap[6], "snapshot": sx(snap)}


async def head_of_line() -> dict:
    """C05: a message with a short delay behind one with a long delay in the delayed queue"""
    s = Session("amqp://hol")
    await s.open()
    await s.consumer(0, "NORMAL")
    await s.enqueue("long", "ta", 5, "{}", {"ts": CLOCK.us, "next": CLOCK.us + 3600 * S})
    await s.enqueue("short", "ta", 5, "{}", {"ts": CLOCK.us, "next": CLOCK.us + 2 * S})
    t0 = CLOCK.us
    await s.advance(10 * S)
    arrived = [a for a in s.arrivals if a["id"] == "short"]
    return {"due": t0 + 2 * S, "arrived": arrived[0]["at"] if arrived else None, "waited_until": CLOCK.us, "session": s}


# ------------------------------------------------------------------------------ judging
def compare(s: Session, model: Model, res: Result, label: str) -> None:
    ans = model.ask(s.reqs)
    res.extra["model_requests"] = res.extra.get("model_requests", 0) + len(ans)
    for idx, exp_msg in getattr(s, "consume_answers", []):
        got = parse_sx(ans[idx])
        if sx(got[1]) != exp_msg:
            res.bad("corr", "Rabbit.consume (which message is handed over) vs _RabbitConsumer.consume", case={"label": label,
                    "ops": [x for x in s.ops[: idx + 1] if x["op"] != "(step)"]}, observed=exp_msg[:400], expected=sx(got[1])[:400])
            return
    for i, (a, o) in enumerate(zip(ans, s.obs)):
        if o is not None and a != o:
            res.bad("corr", "Rabbit.S model vs RabbitMessageBroker/_RabbitConsumer on the fake server (state after the call)",
                    case={"label": label, "ops": [x for x in s.ops[: i + 1] if x["op"] != "(step)"]}, observed=o[:1200], expected=a[:1200])
            return
    # the expiration the code computed is the due time in whole milliseconds (one less at most when the float product falls short)
    for op in s.ops:
        if op.get("op") in ("enqueue", "requeue") and op.get("due") is not None:
            delta = op["due"] - op["now"]
            ms = op["millis"]
            ok = (ms == 0 and delta < 1000) or (ms > 0 and ms * 1000 <= delta and delta - 1000 <= ms * 1000)
            if not ok:
                res.bad("corr", "Rabbit.millisOk vs the expiration computed by enqueue", case={"label": label, "op": op},
                        observed=ms, expected=f"floor({delta}/1000) (or one less)")


def predicates(s: Session, res: Result, label: str, only: str | None) -> None:
    ops = [x for x in s.ops if x["op"] != "(step)"]

    def bad(prop, what, **kw):
        if only is None or only == prop:
            res.bad("impl", what, case=dict(label=label, ops=ops, **kw.pop("case", {})), **kw)
    sched = {}
    for i, op in enumerate(s.ops):
        if op.get("op") in ("enqueue", "requeue"):
            sched.setdefault(op["id"], []).append((i, op))
    for a in s.arrivals:
        if a["cat"] != "NORMAL" or a["redelivered"]:
            continue
        # the scheduling this arrival belongs to: the latest (re)enqueue that had started when it arrived
        hist = [o for i, o in sched.get(a["id"], []) if i <= a["seq"] + 2]
        hist = [o for o in hist if o["now"] <= a["at"]]
        if not hist or hist[-1]["due"] is None:
            continue
        due = hist[-1]["due"]
        if a["at"] < due - 1000:
            bad("C05", "a message reached a normal consumer before its next execution time (millisecond resolution)",
                case={"arrival": a, "due": due}, observed=a["at"], expected=f">= {due - 1000}")
        started = [o["now"] for o in ops if o.get("op") == "consumer" and o.get("cat") == "NORMAL"]
        held_by_inspector = any(b["id"] == a["id"] and b["cat"] == "DELAYED" and hist[-1]["now"] <= b["at"] <= a["at"] for b in s.arrivals)
        if started and min(started) <= due and a["at"] > max(due, hist[-1]["now"]) + S and not held_by_inspector:
            # late although a consumer was listening: was another delayed message with a later execution time in the delayed queue
            # (the per-message TTL fires only at the head of the queue)?
            blocked = any(o2["due"] is not None and o2["due"] > due and o2["now"] <= a["at"] and o2["id"] != a["id"]
                          for o2s in sched.values() for _i, o2 in o2s)
            bad("C05", "a due message was not delivered to a listening consumer within a second of its execution time",
                case={"arrival": a, "due": due}, observed=a["at"], expected=f"<= {due + S}", finding=F21 if blocked else None)
    for d in s.deliveries:
        if d["cat"] == "NORMAL" and d["overdue"]:
            bad("C12", "a message whose time-to-live had run out was handed over by consume()", case={"delivery": d}, observed=d)
    # FIFO: arrivals of immediately deliverable messages of equal priority, in enqueue order
    seq = {}
    for i, op in enumerate(ops):
        if op.get("op") == "enqueue" and op["due"] is None:
            seq[op["id"]] = (op["prio"], i)
    returned = {o["id"] for o in ops if o.get("op") in ("reject", "requeue")}
    arr = [a for a in s.arrivals if a["cat"] == "NORMAL" and a["id"] in seq and a["id"] not in returned]
    seen = {}
    for a in arr:
        pr, i = seq[a["id"]]
        if a["id"] in seen:
            continue
        seen[a["id"]] = True
        earlier = [x for x, (p2, j) in seq.items() if p2 == pr and j < i and x not in seen and x not in returned
                   and not any(o.get("id") == x and o.get("op") in ("(none)",) for o in ops)]
        # an earlier message of the same priority that never arrived at all must be dead-lettered (overdue) — else overtaken
        for x in earlier:
            if any(aa["id"] == x for aa in s.arrivals):
                bad("C15", "a waiting message was overtaken by one enqueued after it (same priority)", case={"delivered": a["id"], "overtaken": x},
                    observed=[aa["id"] for aa in arr])
                break
    # a returned message is handed over again no later than messages enqueued after its return (same priority, one consumer)
    for i, op in enumerate(s.ops):
        if op.get("op") != "reject" or op["id"] not in seq:
            continue
        x = op["id"]
        px = seq[x][0]
        # what happened to x after this reject: its next hand-over, or another terminal event / the end of its consumer
        dx = next((d["seq"] for d in s.deliveries if d["id"] == x and d["seq"] > i and d["cat"] == "NORMAL"), None)
        for j in range(i + 1, len(s.ops)):
            o2 = s.ops[j]
            if o2.get("op") == "finish":
                break
            if o2.get("op") == "enqueue" and o2["due"] is None and o2["prio"] == px and "ttl" not in o2["params"]:
                dy = next((d["seq"] for d in s.deliveries if d["id"] == o2["id"] and d["cat"] == "NORMAL"), None)
                if dy is not None and (dx is None or dx > dy):
                    x_ttl = s.msgs[x]["params"].ttl is not None
                    if not x_ttl:
                        bad("C15", "a returned (rejected) message was handed over again later than a message enqueued after its return "
                                   "(same priority)", case={"returned": x, "rejected_at_op": i, "later_message": o2["id"]},
                            observed={"returned_handed_over_at": dx, "later_handed_over_at": dy})
                        break
    # requeue replaces the held message by its new payload: once it has returned, what the server has under that id is the new one
    for op in ops:
        if op.get("op") == "requeue":
            stale = [f for f in op["found_after"] if f[1] != op["new_payload"]]
            if stale or len(op["found_after"]) != 1:
                bad("C01", "after requeue returned, the message at the server is not (only) the new payload: the held one was not "
                           "replaced", case={"id": op["id"]}, observed=op["found_after"], expected=[["<one place>", op["new_payload"]]])
                break
    # exactly one place
    snap = s.snapshot()
    for mid in s.msgs:
        n = sum(1 for q in snap[1:4] for i in q if i == mid) + sum(1 for e in snap[4] if e[2] == mid) + (1 if mid in s.acked else 0)
        if n != 1:
            bad("C01", "a message is not in exactly one place (waiting, delayed, held, dead-lettered or acknowledged)", case={"id": mid},
                observed={"snapshot": sx(snap)[:600], "acked": mid in s.acked})
    if snap[6]:
        bad("C01", "a message was discarded by the server (dead-lettered without a target)", observed=snap[6])


def one_session(arg) -> Result:
    seed, i, profile, only, n_ops = arg
    # sessions alternate between processes in UTC, five hours west and five and a half hours east of it
    vtime.set_tz(["UTC", "XXX+5", "XXX-5:30"][i % 3] if not os.environ.get("VERIF_TZ") else os.environ["VERIF_TZ"])
    res = Result(only or "rabbit")
    model = Model()
    rng = Rng(seed, f"rabbit/{profile}/{i}")
    label = f"rabbit-{profile}-{seed}-{i}"
    box: list = []
    try:
        s = vtime.run(lambda loop: random_session(rng, n_ops, profile, box), budget=3_000_000)
    except vtime.BudgetExhausted:
        res.bad("impl", "a broker / consumer call did not return: the real code loops for ever on this history",
                case={"label": label, "ops": box[0].ops if box else []})
        return res
    res.note(("rabbit", profile, seed, i), sample={"label": label, "ops": s.ops[:5]} if i == 0 else None)
    for op in s.ops:
        if op["op"] != "(step)":
            res.dist["rabbit-op:" + op["op"]] += 1
    res.dist["rabbit-arrivals"] += len(s.arrivals)
    compare(s, model, res, label)
    predicates(s, res, label, only)
    return res


def one_special(arg) -> Result:
    kind, seed, only = arg
    res = Result(only or "rabbit")
    res.note(("rabbit-special", kind))
    res.dist["rabbit-special:" + kind] += 1
    if kind.startswith("prefetch"):
        broker = kind.split("-")[1]
        o = vtime.run(lambda loop: prefetch_ttl(broker), budget=2_000_000)
        if (only in (None, "C12")) and o["delivered"] is not None and o["overdue_at_delivery"]:
            res.bad("impl", "a message whose time-to-live ran out while it waited in the consumer's local (prefetch) queue was handed over by "
                            "consume()", case={"label": kind, "scenario": "enqueue ttl=2s; consumer prefetches it; 5 s later the worker asks for it"},
                    observed=o)
    elif kind == "window":
        o = vtime.run(lambda loop: requeue_window(Rng(seed, "w")), budget=2_000_000)
        lost = [r for r in o["results"] if r["places"] == 0]
        if lost and only in (None, "C01", "C03"):
            res.bad("impl", "requeue interrupted between its acknowledgement and its publish leaves the message in no place",
                    case={"label": "rabbit-requeue-window", "results": o["results"]}, observed=lost, finding=F2R)
    elif kind == "nackcat":
        o = vtime.run(lambda loop: nack_nonnormal(), budget=2_000_000)
        if only in (None, "C05") and o["delayed_nack_arrived_at_normal"] is not None and o["delayed_nack_arrived_at_normal"] < o["due"] - 1000:
            res.bad("impl", "nack of a not-yet-due message held from the DELAYED category hands it to the normal consumer before its execution time",
                    case={"label": "rabbit-nack-delayed"}, observed=o, finding=F23)
        if only in (None, "C01") and o["dead_nack_dropped"]:
            res.bad("impl", "nack of a message held from the DEAD category discards it (the dead-letter queue has no dead-letter target)",
                    case={"label": "rabbit-nack-dead"}, observed=o, finding=F23)
    elif kind == "hol":
        o = vtime.run(lambda loop: head_of_line(), budget=2_000_000)
        if only in (None, "C05") and (o["arrived"] is None or o["arrived"] > o["due"] + S):
            res.bad("impl", "a due message was not delivered to a listening consumer within a second of its execution time "
                            "(it waits behind a message with a later execution time in the delayed queue)",
                    case={"label": "rabbit-head-of-line", "scenario": "enqueue long(+1h), short(+2s); listen 10 s"},
                    observed={"arrived": o["arrived"], "due": o["due"], "waited_until": o["waited_until"]}, finding=F21)
    return res


def _dispatch(item) -> Result:
    vtime.set_tz(os.environ.get("VERIF_TZ", "UTC"))       # (pool workers are reused: every item starts from the run's zone)
    return one_session(item[1:]) if item[0] == "s" else one_special(item[1:])


def part(ctx, prop: str, profiles: list, n_quick: int = 10, n_deep: int = 50, n_ops: int = 40, specials: list | None = None) -> Result:
    deep = ctx["tier"] == "thorough" or ctx.get("search")
    items = [("s", ctx["seed"], i, profiles[i % len(profiles)], prop, n_ops) for i in range(n_deep if deep else n_quick)]
    items += [("x", k, ctx["seed"], prop) for k in (specials or [])]
    res = Result(prop)
    for r in pmap(_dispatch, items):
        res.merge(r)
    return res
