"""Lean stage of a check: regenerate Generated/Config.lean from the live code, rebuild, audit."""
from __future__ import annotations

import fcntl
import os
import re
import subprocess
import sys
from pathlib import Path

VERIF = Path(__file__).resolve().parent.parent
LEAN = VERIF / "lean"
ALLOWED_AXIOMS = {"propext", "Classical.choice", "Quot.sound"}
FORBIDDEN = re.compile(
    r"\b(sorry|admit|native_decide|bv_decide|implemented_by|unsafe)\b|^\s*axiom\s|maxHeartbeats\s+0",
    re.M,
)


class InfraError(Exception):
    pass


def _sh(cmd: list[str], timeout: int = 1800) -> tuple[int, str]:
    env = dict(os.environ)
    p = subprocess.run(cmd, cwd=LEAN, capture_output=True, text=True, timeout=timeout, env=env, check=False)
    return p.returncode, p.stdout + p.stderr


def strip_comments(src: str) -> str:
    out = []
    i, n, depth = 0, len(src), 0
    while i < n:
        if src.startswith("/-", i):
            depth += 1
            i += 2
        elif depth and src.startswith("-/", i):
            depth -= 1
            i += 2
        elif depth:
            if src[i] == "\n":
                out.append("\n")
            i += 1
        elif src.startswith("--", i):
            while i < n and src[i] != "\n":
                i += 1
        elif src[i] == '"':
            j = i + 1
            while j < n and src[j] != '"':
                j += 2 if src[j] == "\\" else 1
            out.append('""')
            i = j + 1
        else:
            out.append(src[i])
            i += 1
    return "".join(out)


# Redis-broker clauses of the broker properties live in one file (Props/Redis.lean), listed here per property
REDIS_MODULE = "RepidProofs.Props.RedisConservation"   # imports Props/Redis.lean
REDIS_THEOREMS = {
    "C01": ["redis_conservation", "step_places", "inv_step", "inv_empty", "redis_ack_removes", "redis_nack_dead_letters",
            "redis_reject_origin", "redis_requeue_atomic", "take_marks_processing", "unmark_lists"],
    "C03": ["maintenance_single", "maintenance_not_before", "redis_cancelled_fetch_witness"],
    "C05": ["ceilSecs_le_secs", "fetchDelayed_due", "redis_never_early", "redis_due_is_fetched", "enqueue_score", "delayed_only_visible_in_delayed",
            "truncated_score_early_witness"],
    "C12": ["redis_no_expired_delivery", "nack_dead_letters_own_priority", "dead_letters_retrievable"],
    "C14": ["redis_take_race_witness", "redis_take_removes_partial", "take_marks_processing"],
    "C15": ["prefetch_pos", "fetchList_oldest", "redis_fifo", "enqueue_does_not_overtake", "returned_is_next"],
}


RABBIT_MODULE = "RepidProofs.Props.RabbitConservation"   # imports Props/Rabbit.lean
RABBIT_THEOREMS = {
    "C01": ["settle_conserves", "pump_conserves", "expireHeads_conserves", "publish_places", "reject_conserves", "ack_places",
            "places_deadLetter", "rabbit_ack_removes", "rabbit_nack_dead_letters", "rabbit_reject_origin",
            "rabbit_requeue_window_witness", "rabbit_nack_nonnormal_witness",
            "nack_spec", "consume_total", "finish_conserves", "rabbit_ledger", "rabbit_ledger_from_empty", "rabbit_no_discard",
            "rabbit_exactly_one_place"],
    "C03": ["rabbit_requeue_window_witness", "finish_conserves", "finish_clears", "rabbit_stop_conserves", "rabbit_stop_clears",
            "rabbit_cancelled_handover_witness"],
    "C10": ["finish_conserves", "finish_clears", "rabbit_stop_conserves", "rabbit_stop_clears", "rabbit_cancelled_handover_witness"],
    "C05": ["expiry_not_early", "expiry_not_late", "head_blocks", "expire_step_due", "rabbit_head_of_line_witness"],
    "C12": ["onMessage_spec", "rabbit_no_expired_handover", "rabbit_dead_letters_retrievable"],
    "C15": ["insert_after_equal_or_higher", "fifo_two"],
}


STOP_MODULE = "RepidProofs.Props.StopRedis"
STOP_THEOREMS = {
    "C03": ["rejectAll_places", "stop_conserves", "reject_clears_in_flight", "stop_leaves_fetching_in_flight_witness"],
    "C10": ["stop_conserves", "reject_clears_in_flight", "stop_leaves_fetching_in_flight_witness"],
}


def theorem_names(pid: str) -> list[str]:
    f = LEAN / "RepidProofs" / "Props" / f"{pid}.lean"
    if not f.exists():
        return []
    src = strip_comments(f.read_text())
    ns = []
    names = []
    for line in src.split("\n"):
        m = re.match(r"\s*namespace\s+(\S+)", line)
        if m:
            ns.append(m.group(1))
            continue
        m = re.match(r"\s*end\s+(\S+)", line)
        if m and ns and ns[-1].split(".")[-1] == m.group(1).split(".")[-1]:
            ns.pop()
            continue
        m = re.match(r"\s*(?:@\[[^\]]*\]\s*)?(?:private\s+|protected\s+)?theorem\s+([^\s:({\[]+)", line)
        if m:
            names.append(".".join(ns + [m.group(1)]))
    return names


def forbidden_hits() -> list[str]:
    hits = []
    for f in list((LEAN / "RepidModel").rglob("*.lean")) + list((LEAN / "RepidProofs").rglob("*.lean")) + [LEAN / "Main.lean"]:
        src = strip_comments(f.read_text())
        for m in FORBIDDEN.finditer(src):
            line = src.count("\n", 0, m.start()) + 1
            hits.append(f"{f.relative_to(LEAN)}:{line}: {m.group(0).strip()}")
    return hits


def parse_axioms(out: str) -> dict[str, list[str]]:
    res: dict[str, list[str]] = {}
    # "'X' depends on axioms: [a, b]"  (may wrap over lines)  |  "'X' does not depend on any axioms"
    for m in re.finditer(r"'([^']+)' depends on axioms: \[([^\]]*)\]", out, re.S):
        res[m.group(1)] = [a.strip() for a in m.group(2).replace("\n", " ").split(",") if a.strip()]
    for m in re.finditer(r"'([^']+)' does not depend on any axioms", out):
        res[m.group(1)] = []
    return res


def extract_config() -> None:
    """Regenerate Generated/Config.lean from the live objects in /repo (subprocess: it imports repid
    with the real clock, which must not leak into the check process)."""
    p = subprocess.run(
        ["/venv/bin/python", str(VERIF / "harness" / "extract.py")],
        capture_output=True, text=True, timeout=600, check=False,
        env=dict(os.environ, PYTHONPATH=str(os.environ.get("REPID_REPO", "/repo"))),
    )
    if p.returncode != 0:
        raise InfraError("extract.py failed: " + (p.stdout + p.stderr)[-2000:])


def run(pid: str, thorough: bool = False) -> dict:
    lock = open(LEAN / ".build.lock", "w")
    fcntl.flock(lock, fcntl.LOCK_EX)
    try:
        return _run(pid, thorough)
    finally:
        fcntl.flock(lock, fcntl.LOCK_UN)
        lock.close()


def _run(pid: str, thorough: bool) -> dict:
    extract_config()
    log = ""
    rc, out = _sh(["lake", "build", "repid_model"])
    log += out
    driver_ok = rc == 0
    names = theorem_names(pid)
    if not names:
        raise InfraError(f"no theorems found for {pid}")
    module = f"RepidProofs.Props.{pid}"
    rc, out = _sh(["lake", "build", module])
    log += out
    redis_names = [f"Repid.RedisProofs.{n}" for n in REDIS_THEOREMS.get(pid, [])]
    redis_ok = True
    if redis_names:
        rcr, outr = _sh(["lake", "build", REDIS_MODULE])
        log += outr
        redis_ok = rcr == 0
    stop_names = [f"Repid.StopRedisProofs.{n}" for n in STOP_THEOREMS.get(pid, [])]
    stop_ok = True
    if stop_names:
        rcs, outs = _sh(["lake", "build", STOP_MODULE])
        log += outs
        stop_ok = rcs == 0
    rabbit_names = [f"Repid.RabbitProofs.{n}" for n in RABBIT_THEOREMS.get(pid, [])]
    rabbit_ok = True
    if rabbit_names:
        rcb, outb = _sh(["lake", "build", RABBIT_MODULE])
        log += outb
        rabbit_ok = rcb == 0
    undischarged: dict[str, str] = {}
    axioms: dict[str, list[str]] = {}
    audit_dir = LEAN / ".lake" / "audit"
    audit_dir.mkdir(parents=True, exist_ok=True)
    audit = audit_dir / f"Audit_{pid}.lean"
    if rc == 0:
        audit.write_text(f"import {module}\n" + (f"import {REDIS_MODULE}\n" if redis_names and redis_ok else "") +
                         (f"import {RABBIT_MODULE}\n" if rabbit_names and rabbit_ok else "") +
                         (f"import {STOP_MODULE}\n" if stop_names and stop_ok else "") +
                         "".join(f"#print axioms {n}\n" for n in names + (redis_names if redis_ok else []) +
                                 (rabbit_names if rabbit_ok else []) + (stop_names if stop_ok else [])))
        rc2, out2 = _sh(["lake", "env", "lean", str(audit)])
        log += out2
        axioms = parse_axioms(out2)
        checker = f"cd lean && lake build repid_model {module} && lake env lean .lake/audit/Audit_{pid}.lean"
    else:
        # Module does not build: elaborate a copy so that each theorem is judged on its own.
        src = (LEAN / "RepidProofs" / "Props" / f"{pid}.lean").read_text()
        audit.write_text(src + "\n" + "".join(f"#print axioms {n}\n" for n in names))
        rc2, out2 = _sh(["lake", "env", "lean", str(audit)])
        log += out2
        axioms = parse_axioms(out2)
        checker = f"cd lean && lake build repid_model {module}  # FAILED; per-theorem audit on a copy"
        if not axioms:
            for n in names:
                undischarged[n] = "module does not build: " + out[-800:]
    if redis_names:
        names = names + redis_names
        if not redis_ok:
            for n in redis_names:
                undischarged[n] = "Props/Redis.lean does not build: " + outr[-600:]
    if stop_names:
        names = names + stop_names
        if not stop_ok:
            for n in stop_names:
                undischarged[n] = "Props/StopRedis.lean does not build: " + outs[-600:]
    if rabbit_names:
        names = names + rabbit_names
        if not rabbit_ok:
            for n in rabbit_names:
                undischarged[n] = "Props/Rabbit.lean does not build: " + outb[-600:]
    for n in names:
        if n in undischarged:
            continue
        if n not in axioms:
            undischarged[n] = "theorem missing from audit output"
        else:
            bad = [a for a in axioms[n] if a not in ALLOWED_AXIOMS]
            if bad:
                undischarged[n] = "inadmissible axioms: " + ", ".join(bad)
    hits = forbidden_hits()
    if hits:
        for n in names:
            undischarged.setdefault(n, "forbidden construct in sources: " + "; ".join(hits[:5]))
    res = {
        "theorems": {n: axioms.get(n, ["<unchecked>"]) for n in names},
        "undischarged": undischarged,
        "driver_ok": driver_ok,
        "checker_cmd": checker,
        "log": log,
    }
    if thorough and not undischarged:
        rc3, out3 = _sh(["lake", "env", "leanchecker", module], timeout=3600)
        res["leanchecker"] = {"rc": rc3, "tail": out3[-300:]}
        if rc3 != 0:
            for n in names:
                undischarged[n] = "leanchecker rejected the module: " + out3[-400:]
    return res


if __name__ == "__main__":
    import json
    r = run(sys.argv[1], thorough="--thorough" in sys.argv)
    r.pop("log")
    print(json.dumps(r, indent=1))
