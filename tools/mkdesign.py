#!/usr/bin/env python3
"""Regenerate the generated sections of DESIGN.md (§5 per-property status, §8 seeded changes)."""
import importlib.util
import json
import re
from pathlib import Path

VERIF = Path(__file__).resolve().parent.parent


def load_checks():
    spec = importlib.util.spec_from_file_location("mkmanifest", VERIF / "tools" / "mkmanifest.py")
    m = importlib.util.module_from_spec(spec)
    spec.loader.exec_module(m)
    return m.CHECKS


def splice(text: str, name: str, body: str) -> str:
    a, b = f"<!-- BEGIN GENERATED {name} -->", f"<!-- END GENERATED {name} -->"
    i, j = text.index(a) + len(a), text.index(b)
    return text[:i] + "\n" + body.rstrip() + "\n" + text[j:]


def load_leanstage():
    import sys
    sys.path.insert(0, str(VERIF / "harness"))
    spec = importlib.util.spec_from_file_location("leanstage_tables", VERIF / "harness" / "leanstage.py")
    m = importlib.util.module_from_spec(spec)
    spec.loader.exec_module(m)
    return m


LS = None


def properties_section() -> str:
    global LS
    LS = load_leanstage()
    checks = load_checks()
    titles = {}
    for line in (VERIF / "properties.jsonl").read_text().splitlines():
        d = json.loads(line)
        titles[d["id"]] = d["title"]
    findings = json.loads((VERIF / "known_findings.json").read_text())
    by_prop = {}
    for f in findings["findings"]:
        props = f["property"] if isinstance(f["property"], list) else [f["property"]]
        for p in props:
            by_prop.setdefault(p, []).append(f["id"].split("-")[0])
    out = []
    for pid in sorted(checks):
        text, note, tech, _ = checks[pid]
        src = (VERIF / "lean" / "RepidProofs" / "Props" / f"{pid}.lean").read_text()
        thms = re.findall(r"^theorem ([A-Za-z0-9_']+)", src, flags=re.M)
        partial = [t for t in thms if t.endswith("_partial")]
        witness = [t for t in thms if "witness" in t]
        proved, _, tie = text.partition("Tie:")
        status = "partial (" + ", ".join(partial) + ")" if partial else "full"
        out.append(f"### {pid} — {titles[pid]}\n")
        out.append(f"*Status:* {status}" + (f"; known findings: {', '.join(sorted(set(by_prop.get(pid, []))))}" if by_prop.get(pid) else "") + ".  ")
        out.append(f"*Technique:* {tech}.\n")
        out.append(f"**Proved.** {proved.strip()}\n")
        if tie.strip():
            out.append(f"**Tie.** {tie.strip()}\n")
        out.append(f"**Assumptions / limits.** {note.strip()}\n")
        if witness:
            out.append(f"**Refutation witnesses proved in Lean and replayed on the implementation:** {', '.join(witness)}.\n")
        out.append(f"**Theorems in `Props/{pid}.lean` ({len(thms)}):** {', '.join(thms)}.\n")
        extra = []
        for label, table in (("Props/Redis.lean + Props/RedisConservation.lean", LS.REDIS_THEOREMS), ("Props/Rabbit.lean + Props/RabbitConservation.lean", LS.RABBIT_THEOREMS),
                             ("Props/StopRedis.lean", LS.STOP_THEOREMS)):
            if table.get(pid):
                extra.append(f"`{label}`: {', '.join(table[pid])}")
        if extra:
            out.append("**Broker-specific theorems audited with this property:** " + "; ".join(extra) + ".\n")
    return "\n".join(out)


def seeded_section() -> str:
    rows = []
    missed = []
    for d in sorted((VERIF / "seeded").glob("*/meta.json")):
        m = json.loads(d.read_text())
        caught = m.get("caught_by") or []
        first = ""
        chk = (m.get("confirmed", {}).get("checks") or {})
        for p in caught:
            fp = chk.get(p, {}).get("first_problem") or {}
            first = (fp.get("kind") or "") + (": " + fp["what"][:110] if fp.get("what") else "")
            if chk.get(p, {}).get("no_failing_input_found"):
                first += " (no-failing-input-found)"
            break
        summ = (m.get("summary") or "").replace("|", "/").replace("\n", " ")
        if len(summ) > 230:
            summ = summ[:227] + "…"
        rows.append(f"| {m['id']} | {summ} | {', '.join(caught) if caught else '**not caught**'} | {first.replace('|', '/')} |")
        if not caught:
            missed.append(m["id"])
    head = ("| change | what it does | caught by | first problem reported |\n|---|---|---|---|\n")
    tail = ""
    if missed:
        tail = "\n\nNot caught: " + ", ".join(missed) + " (see §9)."
    return head + "\n".join(rows) + tail


def main():
    p = VERIF / "DESIGN.md"
    t = p.read_text()
    t = splice(t, "PROPERTIES", properties_section())
    t = splice(t, "SEEDED", seeded_section())
    p.write_text(t)


if __name__ == "__main__":
    main()
