/-
Property predicates for C05 / C12 / C14 / C15 (broker level) — evaluated by the driver on
observations of the implementation and proved of the model in RepidProofs/Props/.
-/
import RepidModel.Broker.MemHistory

namespace Repid.Pred
open Repid Mem

namespace C05
/-- a message due at `T` handed to a normal consumer at `at`: not before `T` at millisecond
    resolution (times in µs). -/
def notEarlyMs (due : Option Int) (at_ : Int) : Bool :=
  match due with
  | none => true
  | some t => decide (t / 1000 ≤ at_ / 1000)

/-- delivered within `bound` µs after the later of its due time and the moment a free consumer
    started listening -/
def latencyOk (due listenFrom at_ bound : Int) : Bool := decide (at_ ≤ max due listenFrom + bound)
end C05

namespace C12
/-- a message delivered to an actor at `at` must not have been expired at that moment -/
def notExpiredAt (at_ ts : Int) (ttl : Option Int) : Bool := !Sched.overdue at_ ts ttl
end C12

namespace C14
/-- at most one consumer believes it holds each id -/
def singleHolder (believes : List (Nat × String)) : Bool :=
  believes.all fun b => (believes.filter (·.2 == b.2)).length ≤ 1
end C14

namespace C15
/-- `delivered` (ids in delivery order) respects `enqueued` (ids in enqueue order): the delivered
    ids, restricted to those in `enqueued`, appear in the same relative order -/
def inOrder (enqueued delivered : List String) : Bool :=
  let d := delivered.filter (enqueued.contains ·)
  let e := enqueued.filter (d.contains ·)
  d == e
end C15

end Repid.Pred
