"""C07 — what the producer enqueued is what the consumer receives.

Tie:
 (1) Parameters / buckets: generated values (every subset of optional settings, durations at and around
     powers of two and ten up to 100 years, ±1 µs neighbourhoods, random) — the implementation's
     encoding parsed with json.loads and typed field by field is compared with the Lean tree
     (`Codec.encParams`); `decode(encode(x)) == x` on the implementation; malformed inputs (missing /
     mistyped fields) into `decode` on both sides.
 (2) the float assumption of `TdFloat.roundtrip`: for every duration tried, the double returned by
     `total_seconds()` is within relative error 2⁻⁵³ of the exact rational and
     `timedelta(seconds=td.total_seconds()) == td`.
 (3) Redis names and the bucket marker: valid names from the extracted character classes and arbitrary
     strings: qnc / mnc / parse_* / startswith-filter / validators vs `Codec.Names`.
 (4) end to end on every broker (in-memory, fake Redis, fake RabbitMQ): `Job.enqueue()` then
     `consume()`: id, topic, queue, priority, payload, parameters; inline and through the argument
     bucket (in-memory and fake-Redis bucket brokers); all priorities; generated argument values
     (nested JSON, dataclasses, pydantic models, dates, durations)."""
from __future__ import annotations

import implenv  # noqa: F401

import asyncio
import dataclasses
import json
from datetime import date, timedelta
from fractions import Fraction

import fake_amqp
import fake_redis
import vtime
from common import NONE, A, Model, Result, Rng, parse_sx, sx
from memrun import S, mk_params, params_sx
from vtime import CLOCK, from_us, td_us, to_us, us_td

fake_redis.install()
fake_amqp.install()

import pydantic  # noqa: E402
from repid import (Connection, InMemoryBucketBroker, InMemoryMessageBroker, Job, PrioritiesT, RabbitMessageBroker,  # noqa: E402
                   RedisBucketBroker, RedisMessageBroker)
from repid._processor import _Processor  # noqa: E402
from repid._utils import VALID_ID, VALID_NAME, _ArgsBucketInMessageId  # noqa: E402
from repid.connections.redis import utils as rutils  # noqa: E402
from repid.data._buckets import ArgsBucket, ResultBucket  # noqa: E402
from repid.data._key import RoutingKey  # noqa: E402
from repid.data._parameters import Parameters  # noqa: E402

RULE = ("(1) random Parameters/ArgsBucket/ResultBucket over all optional-field subsets; (2) durations: powers of 2 and 10 "
        "(µs) up to 100 y, their ±1 µs neighbours, PRNG-drawn; (3) names: boundary characters of the extracted classes, "
        "random valid, random arbitrary unicode; (4) broker × transport × priority × job settings × argument value; a case "
        "is distinct by its input tuple")
ASSUMPTIONS = ["json, datetime.isoformat/fromisoformat and float repr round-trip are library behaviour (trusted, sampled)",
               "Redis/RabbitMQ servers are the in-process fakes (assumption sets R and A of DESIGN §3.6)"]

HUNDRED_Y = 3_155_760_000_000_000
DUR_KEYS = {"execution_timeout", "ttl", "defer_by"}
TIME_KEYS = {"delay_until", "next_execution_time", "timestamp"}


def tag(j, key=None):
    """implementation JSON (parsed) -> the model's tagged tree, typing fields by their key"""
    if j is None:
        return A("null")
    if key in DUR_KEYS:
        us = round(Fraction(j) * 10**6)
        return [A("dur"), int(us)]
    if key in TIME_KEYS:
        from datetime import datetime
        return [A("time"), to_us(datetime.fromisoformat(j))]
    if isinstance(j, bool):
        return [A("bool"), j]
    if isinstance(j, int):
        return [A("int"), j]
    if isinstance(j, str):
        return [A("str"), j]
    if isinstance(j, dict):
        return [A("obj")] + [[k, tag(v, k)] for k, v in j.items()]
    raise ValueError(f"unexpected JSON value {j!r} under {key}")


def durations(rng: Rng, n: int) -> list[int]:
    out = {0, 1, 999_999, S, S + 1, HUNDRED_Y, HUNDRED_Y - 1}
    k = 1
    while k <= HUNDRED_Y:
        out.update({k, k - 1, k + 1})
        k *= 2
    k = 1
    while k <= HUNDRED_Y:
        out.update({k, k - 1, k + 1, 3 * k, 7 * k + 1})
        k *= 10
    for _ in range(n):
        out.add(rng.randrange(0, rng.choice([10**3, 10**7, 10**10, 10**13, HUNDRED_Y])))
    return sorted(x for x in out if 0 <= x <= HUNDRED_Y)


def gen_params(rng: Rng, durs: list[int]) -> dict:
    def od(p=0.5, lo=S):
        return rng.choice([d for d in durs[:400] if d >= lo] or [S]) if rng.random() < p else None
    def ot(p=0.5):
        return rng.randrange(-10**13, 10**13) if rng.random() < p else None
    return {"timeout": od(1.0, 1) or S, "result": None if rng.random() < 0.5 else (rng.choice(["r1", "a-b_9", "Z"]), od()),
            "max": rng.randrange(0, 5), "tried": rng.randrange(0, 5), "delay_until": ot(), "defer_by": od(),
            "next": ot(), "ts": rng.randrange(-10**13, 10**13), "ttl": od()}


def part_params(rng: Rng, model: Model, res: Result, n: int, durs: list[int]) -> None:
    reqs, meta = [], []
    for i in range(n):
        pd = gen_params(rng, durs if i % 3 else rng.sample(durs, min(len(durs), 50)))
        p = mk_params(pd)
        enc = p.encode()
        case = {"what": "Parameters", "params": pd, "encoded": enc}
        try:
            tree = tag(json.loads(enc))
        except Exception as e:  # noqa: BLE001
            res.bad("impl", "Parameters.encode() is not the expected JSON shape", case=case, observed=repr(e))
            continue
        reqs.append(sx([A("codec.encParams"), params_sx(p)]))
        meta.append(("enc", case, sx(tree)))
        try:
            back = Parameters.decode(enc)
            ok = back == p
        except Exception as e:  # noqa: BLE001
            back, ok = repr(e), False
        if not ok:
            res.bad("impl", "Parameters.decode(encode(p)) != p", case=case, observed=str(back), expected=str(p))
        # decode on the model side of the implementation's tree must give the same parameters
        reqs.append(sx([A("codec.decParams"), tree]))
        meta.append(("dec", case, sx(params_sx(p))))
        res.dist["params"] += 1
        res.note(("params", json.dumps(pd, sort_keys=True)), sample=case if len(res.samples) < 2 else None)
        # malformed: drop one field / mistype one
        if i % 4 == 0:
            d = json.loads(enc)
            k = rng.choice(list(d))
            how = rng.choice(["drop", "str"])
            if how == "drop":
                d.pop(k)
            else:
                d[k] = "not-a-" + k
            try:
                Parameters.decode(json.dumps(d))
                impl_ok = True
            except Exception:  # noqa: BLE001
                impl_ok = False
            res.dist["params-malformed:" + ("accepted" if impl_ok else "rejected")] += 1
            if how == "drop" and impl_ok and k not in ("result", "ttl", "retries", "delay", "execution_timeout", "timestamp"):
                res.bad("impl", "decode accepted a document with a missing required field", case=dict(case, dropped=k))
    # buckets
    for i in range(n // 3):
        ts, ttl = rng.randrange(-10**13, 10**13), rng.choice([None] + durs[:50])
        ab = ArgsBucket(data=rng.choice(["", "{}", '{"a":1}', "x" * 50]), timestamp=from_us(ts), ttl=us_td(ttl))
        rb = ResultBucket(data=rng.choice(["", "1", '"v"']), started_when=rng.randrange(0, 10**18), finished_when=rng.randrange(0, 10**18),
                          success=rng.random() < 0.5, exception=rng.choice([None, "ValueError"]), timestamp=from_us(ts), ttl=us_td(ttl))
        for b, cls, cmd in ((ab, ArgsBucket, "codec.decArgsBucket"), (rb, ResultBucket, "codec.decResultBucket")):
            enc = b.encode()
            case = {"what": cls.__name__, "encoded": enc}
            if cls.decode(enc) != b:
                res.bad("impl", f"{cls.__name__}.decode(encode(b)) != b", case=case, observed=str(cls.decode(enc)), expected=str(b))
            tree = tag(json.loads(enc))
            if cls is ArgsBucket:
                exp = [A("AB"), b.data, ts, NONE if ttl is None else ttl]
            else:
                exp = [A("RB"), b.data, b.started_when, b.finished_when, b.success, NONE if b.exception is None else b.exception,
                       ts, NONE if ttl is None else ttl]
            reqs.append(sx([A(cmd), tree]))
            meta.append(("dec", case, sx(exp)))
            res.dist["bucket"] += 1
        # an args bucket decoded from a result bucket's encoding drops the result keys
        a2 = ArgsBucket.decode(rb.encode())
        if (a2.data, a2.timestamp, a2.ttl) != (rb.data, rb.timestamp, rb.ttl):
            res.bad("impl", "ArgsBucket.decode of a ResultBucket encoding lost data/timestamp/ttl", case={"encoded": rb.encode()})
    answers = model.ask(reqs)
    res.extra["model_requests"] = res.extra.get("model_requests", 0) + len(answers)
    for (kind, case, exp), ans in zip(meta, answers):
        if " ".join(ans.split()) != " ".join(exp.split()):
            res.bad("corr", f"Codec model vs implementation ({'encode tree' if kind == 'enc' else 'decode'})", case=case,
                    observed=exp, expected=ans)


def part_floats(res: Result, durs: list[int]) -> None:
    for n in durs:
        td = us_td(n)
        f = td.total_seconds()
        exact = Fraction(n, 10**6)
        err = abs(Fraction(f) - exact)
        res.dist["float"] += 1
        res.note(("dur", n))
        if err * 2**53 > exact:
            res.bad("corr", "float assumption of TdFloat.roundtrip: total_seconds() is not within 2^-53 relative error",
                    case={"us": n}, observed=repr(f), expected=str(exact))
        back = timedelta(seconds=float(f))
        if td_us(back) != n:
            res.bad("impl", "timedelta(seconds=td.total_seconds()) != td (duration ≤ 100 years)", case={"us": n},
                    observed=td_us(back), expected=n)


def rand_from(rng: Rng, ranges: list, first_ranges: list, maxlen: int = 12) -> str:
    def pick(rs):
        a, b = rng.choice(rs)
        return chr(rng.choice([a, b, rng.randrange(a, b + 1)]))
    return pick(first_ranges) + "".join(pick(ranges) for _ in range(rng.randrange(0, maxlen)))


def part_names(rng: Rng, model: Model, res: Result, n: int) -> None:
    name_first = [(65, 90), (95, 95), (97, 122)]
    name_rest = [(45, 45), (48, 57), (65, 90), (95, 95), (97, 122)]
    reqs, meta = [], []

    def ask(cmd, args, impl, case):
        reqs.append(sx([A(cmd)] + args))
        meta.append((case, sx(impl)))
    for i in range(n):
        topic, queue = rand_from(rng, name_rest, name_first), rand_from(rng, name_rest, name_first)
        id_ = rand_from(rng, name_rest, name_rest)
        prio = rng.choice([0, 5, 9])
        key = RoutingKey(topic=topic, queue=queue, priority=prio, id_=id_)
        case = {"topic": topic, "queue": queue, "id": id_, "priority": prio}
        for short in (False, True):
            ask("names.mnc", [id_, topic, queue, str(prio), short], rutils.mnc(key, short=short), case)
        for delayed, dead in ((False, False), (True, False), (False, True), (True, True)):
            fq = rutils.qnc(queue, prio, delayed=delayed, dead=dead)
            ask("names.qnc", [queue, str(prio), delayed, dead], fq, case)
            ask("names.queueMarker", [fq], rutils.get_queue_marker(fq), case)
            ask("names.fullFromShort", [rutils.mnc(key, short=True), fq], rutils.full_message_name_from_short(rutils.mnc(key, short=True), fq), case)
        full = rutils.mnc(key)
        i2, t2, q2, p2 = rutils.parse_message_name(full)
        ask("names.parseFull", [full], [i2, t2, q2, str(p2)], case)
        ask("names.parseShort", [rutils.mnc(key, short=True)], list(rutils.parse_short_message_name(rutils.mnc(key, short=True))), case)
        if (i2, t2, q2, p2) != (id_, topic, queue, prio):
            res.bad("impl", "parse_message_name(mnc(key)) != key", case=case, observed=[i2, t2, q2, p2])
        other = rng.choice([topic, topic[:-1] or "x", topic + "x", rand_from(rng, name_rest, name_first)])
        ask("names.topicMatches", [other, rutils.mnc(key, short=True)], rutils.mnc(key, short=True).startswith(other + ":"), case)
        if rutils.mnc(key, short=True).startswith(other + ":") != (other == topic):
            res.bad("impl", "Redis topic prefix filter is ambiguous", case=dict(case, filter_topic=other))
        res.dist["names"] += 1
        res.note(("name", topic, queue, id_, prio), sample=case if len(res.samples) < 4 else None)
    # validators on arbitrary strings
    pool = "abzAZ09_-:/. \t\néİ \U0001F600{}\"\\"
    for i in range(n):
        s = "".join(rng.choice(pool) for _ in range(rng.randrange(0, 6)))
        ask("names.nameOk", [s], VALID_NAME.fullmatch(s) is not None, {"string": s})
        ask("names.idOk", [s], VALID_ID.fullmatch(s) is not None, {"string": s})
        res.dist["validators"] += 1
    # marker
    for i in range(n // 2):
        id_ = rand_from(rng, name_rest, name_rest, 20)
        m = _ArgsBucketInMessageId.construct(id_)
        ask("marker.construct", [id_], m, {"id": id_})
        ask("marker.deconstruct", [m], _ArgsBucketInMessageId.deconstruct(m), {"id": id_})
        s = rng.choice([m, "", "{}", '{"a":1}', '  {"__repid_payload_id":"x"}', '{"x":"__repid_payload_id"}', "[1]", m[1:], "x" + m, "xx" + m, "xxx" + m])
        ask("marker.check", [s], _ArgsBucketInMessageId.check(s), {"string": s})
        if not _ArgsBucketInMessageId.check(m) or _ArgsBucketInMessageId.deconstruct(m) != id_:
            res.bad("impl", "bucket marker does not round-trip", case={"id": id_})
        res.dist["marker"] += 1
    answers = model.ask(reqs)
    res.extra["model_requests"] = res.extra.get("model_requests", 0) + len(answers)
    for (case, impl), ans in zip(meta, answers):
        if ans != impl:
            res.bad("corr", "Codec.Names model vs implementation", case=case, observed=impl, expected=ans)


@dataclasses.dataclass
class DC:
    a: int
    b: str
    when: date


class PM(pydantic.BaseModel):
    x: int
    y: list[str]
    d: timedelta


class PMD(pydantic.BaseModel):
    """a model most of whose fields are left at their defaults by the caller"""
    x: int
    cur: str = "EUR"
    n: int = 3
    tags: list[str] = pydantic.Field(default_factory=lambda: ["new"])


def arg_values(rng: Rng) -> list:
    """(value, independently written JSON document the consumer must receive — None = no payload)"""
    r = rng.random()
    plain = [0, False, "", [], {}, 1, "text", [1, [2, {"k": None}]], {"a": {"b": [1.5, True]}}, {"__repid_payload": 1}, r,
             # the reserved marker anywhere but at the start of the payload is ordinary data
             {"x": "__repid_payload_id"}, {"ref": "abc", "__repid_payload_id": "id-3_x"}, ["x", "__repid_payload_id"],
             # (the bare string "__repid_payload_id" serialises to a payload that starts with the marker: excluded by the statement)
             {"a": {"__repid_payload_id": "id-5_x"}},
             # text beyond ASCII, and a string with an unpaired surrogate (JSON-serialisable; not encodable as UTF-8 when left raw)
             {"t": "h\u00e9llo \u2713 \U0001F600"}, {"t": "cut \ud83d"}, "\udfff"]
    out = [(None, None)] + [(v, json.loads(json.dumps(v))) for v in plain]
    out.append((DC(1, "z", date(2024, 2, 29)), {"a": 1, "b": "z", "when": "2024-02-29"}))
    out.append((PM(x=3, y=["q"], d=timedelta(seconds=1.5)), {"x": 3, "y": ["q"], "d": "PT1.5S"}))
    out.append(({"when": date(2020, 1, 1), "d": timedelta(minutes=5)}, {"when": "2020-01-01", "d": 300.0}))
    out.append((PMD(x=1), {"x": 1, "cur": "EUR", "n": 3, "tags": ["new"]}))
    out.append((PMD(x=2, n=3), {"x": 2, "cur": "EUR", "n": 3, "tags": ["new"]}))
    return out


async def end_to_end(kind: str, rng: Rng, n: int) -> list[dict]:
    fake_redis.reset_servers()
    fake_amqp.reset_servers()
    out = []
    if kind == "mem":
        broker, ab = InMemoryMessageBroker(), InMemoryBucketBroker()
    elif kind == "redis":
        broker, ab = RedisMessageBroker("redis://c07"), RedisBucketBroker("redis://c07-buckets")
    else:
        broker, ab = RabbitMessageBroker("amqp://c07"), InMemoryBucketBroker()
    conn = Connection(broker, ab)
    await conn.connect()
    proc = _Processor(conn)
    queues = ["default", "q-2"]
    for q in queues:
        await broker.queue_declare(q)
    consumers = {}
    for q in queues:
        consumers[q] = broker.get_consumer(q, None)
        await consumers[q].start()
    vals = arg_values(rng)
    for i in range(n):
        q = rng.choice(queues)
        prio = rng.choice(list(PrioritiesT))
        val, doc = vals[i % len(vals)] if i < 2 * len(vals) else rng.choice(vals)
        bucket = rng.random() < 0.4
        kw = dict(queue=q, priority=prio, id_=rng.choice([None, f"id-{i}_x"]), retries=rng.choice([0, 3]),
                  timeout=us_td(rng.choice([S, 600 * S, 12_345_678])), ttl=us_td(rng.choice([None, S, 3600 * S + 1, 1 * S])),
                  args=val, use_args_bucketer=bucket, args_ttl=us_td(rng.choice([None, 60 * S, 1 * S])),
                  store_result=rng.random() < 0.5, result_ttl=us_td(rng.choice([None, S, 86400 * S])),
                  deferred_by=us_td(rng.choice([None, None, S])), _connection=conn)
        if kw["deferred_by"] is not None and kw["ttl"] is not None:
            kw["ttl"] = us_td(3600 * S + 1)        # must outlive the wait for the first run
        if kw["args_ttl"] is not None and (kw["deferred_by"] is not None or kind == "redis"):
            # (so must the argument bucket; on Redis a key with EXAT lives until the START of the second timestamp + ttl falls
            # in — a one-second bucket may be gone 50 ms after it was stored; DESIGN §9)
            kw["args_ttl"] = us_td(60 * S)
        CLOCK.advance(rng.choice([0, 1, 250_000]))
        job = Job("some_job" if i % 2 else "Other-job_2", **kw)
        try:
            sent = await job.enqueue()
        except Exception as e:  # noqa: BLE001
            out.append({"i": i, "error": f"enqueue raised {type(e).__name__}: {e}", "value": repr(val), "broker": kind})
            continue
        if kw["deferred_by"] is not None:
            CLOCK.advance(2 * S)
        try:
            got = await asyncio.wait_for(consumers[q].consume(), timeout=5)
        except asyncio.TimeoutError:
            out.append({"i": i, "error": "not delivered", "value": repr(val), "broker": kind, "queue": q, "priority": int(prio)})
            continue
        try:
            payload = await proc.get_payload(got[1])
        except Exception as e:  # noqa: BLE001
            out.append({"i": i, "error": f"the worker could not resolve the payload: {type(e).__name__}: {e}", "value": repr(val),
                        "broker": kind, "bucket": bucket, "got_payload": got[1]})
            await broker.ack(got[0])
            continue
        try:
            doc_ok = (payload == "") if doc is None else (json.loads(payload) == doc)
        except Exception:  # noqa: BLE001
            doc_ok = False
        out.append({"i": i, "broker": kind, "bucket": bucket, "priority": int(prio), "queue": q, "value": repr(val),
                    "doc_equal": doc_ok, "sent_doc": json.dumps(doc), "got_doc": payload,
                    "key_equal": got[0] == sent[0], "sent_key": str(sent[0]), "got_key": str(got[0]),
                    "payload_equal": payload == sent[1], "sent_payload": sent[1], "got_payload": payload,
                    "params_equal": got[2] == sent[2], "sent_params": str(sent[2]), "got_params": str(got[2])})
        await broker.ack(got[0])
    for c in consumers.values():
        await c.finish()
    await conn.disconnect()
    return out


async def redis_topic_filter(pairs: list) -> list[dict]:
    """the Redis consumer's own topic filter (not a re-implementation): a consumer subscribed to `flt` on a queue that holds one
    message of topic `topic` takes it iff the two names are the same — names that are prefixes of one another included"""
    from repid.connections.redis.consumer import _RedisConsumer
    from repid import MessageCategory
    out = []
    for n, (flt, topic, id_) in enumerate(pairs):
        fake_redis.reset_servers()
        broker = RedisMessageBroker(f"redis://c07-filter-{n}")
        key = RoutingKey(topic=topic, queue="fq", priority=5, id_=id_)
        await broker.enqueue(key, "{}", Parameters())
        cons = _RedisConsumer(broker, "fq", [flt], category=MessageCategory.NORMAL)
        got = await cons.consume_or_none()
        out.append({"filter": flt, "topic": topic, "id": id_, "taken": None if got is None else [got[0].topic, got[0].id_]})
    return out


def part_topic_filter(rng: Rng, model: Model, res: Result, n: int) -> None:
    name_first = [(65, 90), (95, 95), (97, 122)]
    name_rest = [(45, 45), (48, 57), (65, 90), (95, 95), (97, 122)]
    pairs = []
    for _ in range(n):
        topic = rand_from(rng, name_rest, name_first)
        flt = rng.choice([topic, topic, topic[:-1] or "x", topic + "x", topic + "_2", topic[: max(1, len(topic) // 2)],
                          rand_from(rng, name_rest, name_first)])
        if VALID_NAME.fullmatch(flt) is None:
            flt = topic
        pairs.append((flt, topic, rand_from(rng, name_rest, name_rest)))
    rows = vtime.run(lambda loop: redis_topic_filter(pairs), budget=20_000_000)
    answers = model.ask([sx([A("names.topicMatches"), r["filter"], r["topic"] + ":" + r["id"]]) for r in rows])
    res.extra["model_requests"] = res.extra.get("model_requests", 0) + len(answers)
    for r, a in zip(rows, answers):
        rel = "same" if r["filter"] == r["topic"] else ("prefix" if r["topic"].startswith(r["filter"]) else
                                                        ("extension" if r["filter"].startswith(r["topic"]) else "unrelated"))
        res.dist["redis-topic-filter:" + rel] += 1
        res.note(("filter", r["filter"], r["topic"]))
        taken = r["taken"] is not None
        if taken != (a == "true"):
            res.bad("corr", "Names.topicMatches vs the Redis consumer's topic filter (consume_or_none on the fake server)", case=r,
                    observed=taken, expected=a)
        if taken != (r["filter"] == r["topic"]):
            res.bad("impl", "a Redis consumer subscribed to one topic took (or did not take) a message of another: valid names do not "
                            "survive the broker's key encoding unambiguously", case=r, observed=r["taken"],
                    expected=[r["topic"], r["id"]] if r["filter"] == r["topic"] else None)


def check_e2e(rows: list[dict], res: Result) -> None:
    for r in rows:
        res.dist[f"e2e:{r['broker']}"] += 1
        res.note(("e2e", r["broker"], r.get("bucket"), r.get("priority"), r["value"][:40], r["i"]),
                 sample={k: r[k] for k in ("broker", "bucket", "priority", "value", "got_key")} if "got_key" in r and len(res.samples) < 6 else None)
        if "error" in r:
            res.bad("impl", "job could not be enqueued / was not delivered", case=r, observed=r["error"])
        elif not (r["key_equal"] and r["payload_equal"] and r["params_equal"] and r["doc_equal"]):
            what = [k for k in ("key", "payload", "params", "doc") if not r[k + "_equal"]]
            res.bad("impl", "consumer received a different " + "/".join(what) + " than was enqueued", case=r,
                    observed={k: r["got_" + k] for k in what}, expected={k: r["sent_" + k] for k in what})


def run(ctx) -> Result:
    tier, seed = ctx["tier"], ctx["seed"]
    res = Result("C07")
    model = Model()
    deep = tier == "thorough" or ctx.get("search")
    rng = Rng(seed, "c07")
    durs = durations(rng, 100_000 if deep else 3_000)
    part_params(rng, model, res, 1500 if deep else 250, durs)
    part_floats(res, durs)
    part_names(rng, model, res, 1500 if deep else 250)
    part_topic_filter(rng, model, res, 400 if deep else 80)
    for kind in ("mem", "redis", "rabbit"):
        rows = vtime.run(lambda loop, k=kind: end_to_end(k, Rng(seed, "c07/" + k), 400 if deep else 70), budget=50_000_000)
        check_e2e(rows, res)
    return res


def search(ctx) -> Result:
    return run(dict(ctx, tier="thorough"))
