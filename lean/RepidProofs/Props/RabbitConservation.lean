/-
C01 on the RabbitMQ broker — conservation: the server's own activity (expiring delays, pushing deliveries, the consumer's
decisions on arrival) and the terminal calls move a message between places; nothing but an acknowledgement removes it —
with the two recorded exceptions (F2r: the window inside `requeue`; F23: nack of a message held from the DEAD category).
Model: RepidModel/Broker/Rabbit.lean.
-/
import RepidModel.Broker.Rabbit
import RepidProofs.Props.Rabbit

namespace Repid.RabbitProofs
open Repid Rabbit

def cnt (l : List Msg) (id : String) : Nat := (l.filter (·.id == id)).length
def one (m : Msg) (id : String) : Nat := if m.id = id then 1 else 0

theorem places_eq (s : S) (id : String) :
    places s id = cnt s.main id + cnt s.delayed id + cnt s.dead id + (s.unacked.filter (·.2.2.id == id)).length := rfl

theorem cnt_cons (m : Msg) (l : List Msg) (id : String) : cnt (m :: l) id = one m id + cnt l id := by
  simp only [cnt, one, List.filter_cons, beq_iff_eq]
  split <;> simp <;> omega

theorem cnt_insert (m : Msg) (l : List Msg) (id : String) : cnt (Rabbit.insert m l) id = one m id + cnt l id := by
  induction l with
  | nil => simp only [Rabbit.insert, cnt_cons]
  | cons x rest ih =>
    simp only [Rabbit.insert]
    split
    · simp only [cnt_cons]
    · simp only [cnt_cons, ih]; omega

theorem cnt_drop_head (m : Msg) (rest : List Msg) (id : String) : cnt ((m :: rest).drop 1) id + one m id = cnt (m :: rest) id := by
  simp only [List.drop_succ_cons, List.drop_zero, cnt_cons]; omega

/-- replacing one queue: the other places are untouched -/
theorem places_set (s : S) (q : Qn) (l : List Msg) (id : String) :
    places (s.set q l) id + cnt (s.get q) id = places s id + cnt l id := by
  cases q <;> simp only [places_eq, S.set, S.get] <;> omega

theorem places_setCons (s : S) (cid : Nat) (c : Cons) (id : String) : places (setCons s cid c) id = places s id := rfl

theorem get_seq (s : S) (n : Nat) (q : Qn) : ({ s with seq := n } : S).get q = s.get q := by cases q <;> rfl

/-- dead-lettering from a queue that has a dead-letter target adds the message (under its id) to that target -/
theorem places_deadLetter (s : S) (q : Qn) (m : Msg) (id : String) (hq : q ≠ .dead) :
    places (deadLetter s q m) id = places s id + one m id := by
  cases q with
  | dead => exact absurd rfl hq
  | main =>
    have h := places_set ({ s with seq := s.seq + 1 } : S) .dead
      (Rabbit.insert { m with expiresAt := none, seq := s.seq + 1 } (({ s with seq := s.seq + 1 } : S).get .dead)) id
    rw [cnt_insert] at h
    have h0 : places ({ s with seq := s.seq + 1 } : S) id = places s id := rfl
    have h1 : one ({ m with expiresAt := none, seq := s.seq + 1 } : Msg) id = one m id := rfl
    show places (({ s with seq := s.seq + 1 } : S).set .dead
      (Rabbit.insert { m with expiresAt := none, seq := s.seq + 1 } (({ s with seq := s.seq + 1 } : S).get .dead))) id = _
    omega
  | delayed =>
    have h := places_set ({ s with seq := s.seq + 1 } : S) .main
      (Rabbit.insert { m with expiresAt := none, seq := s.seq + 1 } (({ s with seq := s.seq + 1 } : S).get .main)) id
    rw [cnt_insert] at h
    have h0 : places ({ s with seq := s.seq + 1 } : S) id = places s id := rfl
    have h1 : one ({ m with expiresAt := none, seq := s.seq + 1 } : Msg) id = one m id := rfl
    show places (({ s with seq := s.seq + 1 } : S).set .main
      (Rabbit.insert { m with expiresAt := none, seq := s.seq + 1 } (({ s with seq := s.seq + 1 } : S).get .main))) id = _
    omega

theorem places_hold (s : S) (cid : Nat) (q : Qn) (m : Msg) (id : String) :
    places ({ s with unacked := s.unacked ++ [(cid, q, m)] } : S) id = places s id + one m id := by
  simp only [places_eq, List.filter_append, List.length_append, one, List.filter_cons, List.filter_nil, beq_iff_eq]
  split <;> simp <;> omega

/-- `pump_conserves`: pushing deliveries to the consumers and their decisions on arrival (hold, dead-letter an expired
    message, give a foreign one back) never change the number of places of any message — for every fuel and state -/
theorem pump_conserves (now : Int) : ∀ (fuel : Nat) (s : S) (id : String), places (pump now fuel s) id = places s id := by
  intro fuel
  induction fuel with
  | zero => intro s id; rfl
  | succ f ih =>
    intro s id
    simp only [pump]
    split
    · rfl
    · rename_i cid c m hfind
      -- the chosen message is the head of the queue its consumer reads
      obtain ⟨e, _, he⟩ := List.exists_of_findSome?_eq_some hfind
      have hhead : ∃ rest, s.get c.cat = m :: rest := by
        cases hq : s.get e.2.cat with
        | nil => simp [hq] at he
        | cons x rest =>
          simp only [hq, Option.some.injEq, Prod.mk.injEq] at he
          obtain ⟨he1, he2⟩ := he
          subst he2
          rw [he1] at hq
          exact ⟨rest, hq⟩
      obtain ⟨rest, hget⟩ := hhead
      have hdrop := places_set s c.cat ((s.get c.cat).drop 1) id
      have hd2 := cnt_drop_head m rest id
      rw [hget] at hdrop ⊢
      split
      · -- hold
        rw [ih, places_setCons, places_hold]; omega
      · -- dead-letter (only a consumer of the main queue does that)
        rename_i hdec
        have hmain : c.cat = .main := by
          simp only [onMessage] at hdec
          split at hdec
          · cases hdec
          · split at hdec
            · rename_i h2; simp only [Bool.and_eq_true, beq_iff_eq] at h2; exact h2.2
            · cases hdec
        rw [ih, places_deadLetter _ _ _ _ (by rw [hmain]; decide)]; omega
      · -- foreign topic: back to its position
        have hb := places_set (s.set c.cat ((m :: rest).drop 1)) c.cat
          (Rabbit.insert m ((s.set c.cat ((m :: rest).drop 1)).get c.cat)) id
        have hgs : (s.set c.cat ((m :: rest).drop 1)).get c.cat = (m :: rest).drop 1 := by cases c.cat <;> rfl
        rw [hgs, cnt_insert] at hb
        rw [hgs]
        omega

/-- expiring delays (each followed by serving the consumers) conserves every message -/
theorem expireHeads_conserves (now : Int) : ∀ (fuel : Nat) (s : S) (id : String), places (expireHeads now fuel s) id = places s id := by
  intro fuel
  induction fuel with
  | zero => intro s id; rfl
  | succ f ih =>
    intro s id
    simp only [expireHeads]
    split
    · rename_i m rest hd
      split
      · split
        · rw [ih, pump_conserves]
          have h0 : ∀ (x : S) (t : Int), places ({ x with clock := t } : S) id = places x id := fun _ _ => rfl
          rw [h0, places_deadLetter _ _ _ _ (by decide)]
          simp only [places_eq, hd, cnt_cons]; omega
        · rfl
      · rfl
    · rfl

/-- `settle_conserves`: whatever time passes and whatever the server does on its own, every message stays in exactly
    as many places as before -/
theorem settle_conserves (s : S) (now : Int) (id : String) : places (settle s now) id = places s id := by
  simp only [settle]
  rw [pump_conserves]
  have h0 : ∀ (x : S) (t : Int), places ({ x with clock := t } : S) id = places x id := fun _ _ => rfl
  rw [h0, expireHeads_conserves]

/-- publishing adds exactly the published message -/
theorem publish_places (s : S) (m : Msg) (millis : Option Int) (now : Int) (id : String) :
    places (publish s m millis now) id = places s id + one m id := by
  simp only [publish]
  split
  · split
    · simp only [places_eq, cnt_insert, one]; omega
    · simp only [places_eq, cnt_insert, one]; omega
  · simp only [places_eq, cnt_insert, one]; omega

def una (s : S) (id : String) : Nat := (s.unacked.filter (·.2.2.id == id)).length

/-- removing the unacknowledged entries of one id -/
theorem places_unacked_filter (s : S) (idm id : String) :
    (id = idm → places ({ s with unacked := s.unacked.filter fun x => !(x.2.2.id == idm) } : S) id + una s id = places s id) ∧
    (id ≠ idm → places ({ s with unacked := s.unacked.filter fun x => !(x.2.2.id == idm) } : S) id = places s id) := by
  constructor
  · intro h; subst h
    have h1 : ((s.unacked.filter fun x => !(x.2.2.id == id)).filter (·.2.2.id == id)).length = 0 := by
      simp [List.filter_filter]
    simp only [places_eq, una, h1]; omega
  · intro hi
    have h1 : ((s.unacked.filter fun x => !(x.2.2.id == idm)).filter (·.2.2.id == id)).length
        = (s.unacked.filter (·.2.2.id == id)).length := by
      simp only [List.filter_filter]
      congr 1
      apply List.filter_congr
      intro x _
      by_cases hx : x.2.2.id = id
      · have : ¬ x.2.2.id = idm := fun h => hi (hx ▸ h)
        simp [hx, hi]
      · simp [hx]
    simp only [places_eq, h1]

/-- reject conserves: the held message goes back to the queue it was delivered from -/
theorem reject_conserves (s : S) (idm id : String) (hinv : una s idm ≤ 1) :
    places (reject s idm) id = places s id := by
  cases hf : s.unacked.find? (·.2.2.id == idm) with
  | none => simp [reject, takeUnacked, hf]
  | some e =>
    obtain ⟨c, q, m⟩ := e
    simp only [reject, takeUnacked_found s idm _ hf]
    have hmem := List.mem_of_find?_eq_some hf
    have hid : m.id = idm := by simpa using List.find?_some hf
    have hset := places_set ({ s with unacked := s.unacked.filter fun x => !(x.2.2.id == idm) } : S) q
      (Rabbit.insert m (({ s with unacked := s.unacked.filter fun x => !(x.2.2.id == idm) } : S).get q)) id
    rw [cnt_insert] at hset
    have hf2 := places_unacked_filter s idm id
    by_cases hi : id = idm
    · subst hi
      have hpos : 0 < una s id := List.length_pos_of_mem (List.mem_filter.mpr ⟨hmem, by simp [hid]⟩)
      have hone : one m id = 1 := by simp [one, hid]
      have := hf2.1 rfl
      omega
    · have hone : one m id = 0 := by simp [one, hid, Ne.symm hi]
      have := hf2.2 hi
      omega

/-- ack removes the held message (and only it) -/
theorem ack_places (s : S) (idm id : String) (hid : id ≠ idm) : places (ack s idm) id = places s id := by
  cases hf : s.unacked.find? (·.2.2.id == idm) with
  | none => simp [ack, takeUnacked, hf]
  | some e =>
    simp only [ack, takeUnacked_found s idm _ hf, places_eq]
    congr 1
    simp only [List.filter_filter]
    congr 1
    apply List.filter_congr
    intro x _
    by_cases hx : x.2.2.id = id
    · simp [hx, hid]
    · simp [hx]

end Repid.RabbitProofs
