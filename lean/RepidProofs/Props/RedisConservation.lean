/-
C01 on the Redis broker — conservation over EVERY history of well-behaved clients.
Model: RepidModel/Broker/Redis.lean; counting lemmas: Proofs/RedisCount.lean.
-/
import RepidProofs.Props.Redis
import RepidProofs.Proofs.RedisCount

namespace Repid.RedisProofs
open Repid Redis

inductive Op where
  | enqueue (k : Key) (payload : String) (p : Params) (now : Int)
  | take (cat : Marker) (k : Key) (nowSec : Int)
  | ack (k : Key)
  | nack (k : Key)
  | reject (k : Key) (now : Int)
  | requeue (k : Key) (payload : String) (p : Params) (now : Int)

def Op.short : Op → String
  | .enqueue k .. => k.short | .take _ k _ => k.short | .ack k => k.short | .nack k => k.short
  | .reject k _ => k.short | .requeue k .. => k.short

/-- number of places of the message after the operation -/
def Op.after : Op → Nat
  | .ack _ => 0
  | _ => 1

def step (cron : String → Int → Int) (r : R) : Op → R
  | .enqueue k pl p now => enqueueTx r k pl p now cron
  | .take cat k ns => takeTx r cat k.prio k.short ns
  | .ack k => ackTx r k
  | .nack k => nackTx r k
  | .reject k now => reject r k now cron
  | .requeue k pl p now => requeueTx r k pl p now cron

/-- a well-behaved client: distinct ids (an id is enqueued only while it is in no place); a consumer takes what waits
    in the category it reads and nobody holds; terminal calls only on a message that is held -/
def StepOk (r : R) : Op → Prop
  | .enqueue k .. => places r k.short = 0
  | .take cat k _ => sP r k.short = 0 ∧
      (match cat with
       | .n => (k.prio, k.short) ∈ r.normal
       | .d => (k.prio, k.short) ∈ r.delayed.map (·.1)
       | .dead => (k.prio, k.short) ∈ r.dead)
  | .ack k => sP r k.short = 1
  | .nack k => sP r k.short = 1
  | .reject k _ => sP r k.short = 1
  | .requeue k .. => sP r k.short = 1

instance (r : R) (op : Op) : Decidable (StepOk r op) := by
  cases op with
  | take cat k ns => cases cat <;> (simp only [StepOk]; infer_instance)
  | enqueue k pl p now => simp only [StepOk]; infer_instance
  | ack k => simp only [StepOk]; infer_instance
  | nack k => simp only [StepOk]; infer_instance
  | reject k now => simp only [StepOk]; infer_instance
  | requeue k pl p now => simp only [StepOk]; infer_instance

def Inv (r : R) : Prop := ∀ sh, places r sh ≤ 1

@[simp] theorem sN_setHash (r : R) (kk : Nat × String) (h : Hash) (sh : String) : sN (setHash r kk h) sh = sN r sh := by simp [sN]
@[simp] theorem sD_setHash (r : R) (kk : Nat × String) (h : Hash) (sh : String) : sD (setHash r kk h) sh = sD r sh := by simp [sD]
@[simp] theorem sX_setHash (r : R) (kk : Nat × String) (h : Hash) (sh : String) : sX (setHash r kk h) sh = sX r sh := by simp [sX]
@[simp] theorem sP_setHash (r : R) (kk : Nat × String) (h : Hash) (sh : String) : sP (setHash r kk h) sh = sP r sh := by simp [sP]

theorem put_places (r : R) (k : Key) (score : Option Int) (inFront : Bool) (sh : String)
    (h0 : sh = k.short → sD r sh = 0) :
    sN (put r k score inFront) sh + sD (put r k score inFront) sh =
      sN r sh + sD r sh + (if sh = k.short then 1 else 0) ∧
    sX (put r k score inFront) sh = sX r sh ∧ sP (put r k score inFront) sh = sP r sh := by
  cases score with
  | none =>
    by_cases hs : sh = k.short
    · subst hs
      cases inFront <;> simp [put, sN, sD, sX, sP, List.filter_cons, List.filter_append] <;> omega
    · have hb : (k.short == sh) = false := by simpa using Ne.symm hs
      cases inFront <;> simp [put, sN, sD, sX, sP, List.filter_cons, List.filter_append, hs, hb]
  | some s =>
    by_cases hs : sh = k.short
    · subst hs
      have hD0 : sD r k.short = 0 := h0 rfl
      have hD : sD (put r k (some s) inFront) k.short = 1 :=
        zaddK_absent r.delayed (k.prio, k.short) s hD0
      have hN : sN (put r k (some s) inFront) k.short = sN r k.short := rfl
      refine ⟨?_, rfl, rfl⟩
      rw [hD, hN, hD0]; simp
    · have hD : sD (put r k (some s) inFront) sh = sD r sh := zaddK_other r.delayed (k.prio, k.short) s sh hs
      have hN : sN (put r k (some s) inFront) sh = sN r sh := rfl
      refine ⟨?_, rfl, rfl⟩
      rw [hD, hN]; simp [hs]

theorem unmark_places (r : R) (k : Key) (sh : String) :
    sN (unmark r k) sh = sN r sh ∧ sD (unmark r k) sh = sD r sh ∧ sX (unmark r k) sh = sX r sh ∧
    sP (unmark r k) sh = if sh = k.short then 0 else sP r sh := by
  have h := unmark_lists r k
  refine ⟨by simp [sN, h.1], by simp [sD, h.2.1], by simp [sX, h.2.2.1], ?_⟩
  simp only [sP, unmark, normHash_processing, setHash_processing]
  by_cases hs : sh = k.short
  · simp only [hs, if_true]; exact zrem_filter_self _ _
  · simp only [hs, if_false]; exact zrem_filter_other _ _ _ hs

theorem markDead_places (r : R) (k : Key) (sh : String) :
    sN (markDead r k) sh = sN r sh ∧ sD (markDead r k) sh = sD r sh ∧ sP (markDead r k) sh = sP r sh ∧
    sX (markDead r k) sh = sX r sh + (if sh = k.short then 1 else 0) := by
  refine ⟨rfl, rfl, rfl, ?_⟩
  by_cases hs : sh = k.short
  · subst hs; simp [sX, markDead, List.filter_cons]
  · have hb : (k.short == sh) = false := by simpa using Ne.symm hs
    simp [sX, markDead, List.filter_cons, hs, hb]

theorem held_elsewhere_zero (r : R) (sh : String) (h : places r sh ≤ 1) (hp : sP r sh = 1) :
    sN r sh = 0 ∧ sD r sh = 0 ∧ sX r sh = 0 := by
  simp only [places] at h; omega

/-- two different members of a list that satisfy `f` make the filter at least two long -/
theorem two_in_filter {α : Type} (f : α → Bool) (l : List α) (a b : α) (ha : a ∈ l) (hb : b ∈ l) (hne : a ≠ b)
    (fa : f a = true) (fb : f b = true) : 2 ≤ (l.filter f).length := by
  induction l with
  | nil => simp at ha
  | cons x rest ih =>
    simp only [List.mem_cons] at ha hb
    simp only [List.filter_cons]
    rcases ha with ha | ha <;> rcases hb with hb | hb
    · exact absurd (ha.trans hb.symm) hne
    · subst ha
      have : 0 < (rest.filter f).length := List.length_pos_of_mem (List.mem_filter.mpr ⟨hb, fb⟩)
      simp only [fa, if_true, List.length_cons]; omega
    · subst hb
      have : 0 < (rest.filter f).length := List.length_pos_of_mem (List.mem_filter.mpr ⟨ha, fa⟩)
      simp only [fb, if_true, List.length_cons]; omega
    · have := ih ha hb
      split
      · simp only [List.length_cons]; omega
      · exact this

/-- `step_places`: one operation of a well-behaved client changes the number of places of its own message to
    `after` (0 for ack, 1 otherwise) and of no other message -/
theorem step_places (cron : String → Int → Int) (r : R) (op : Op) (hinv : Inv r) (hok : StepOk r op) (sh : String) :
    places (step cron r op) sh = if sh = op.short then op.after else places r sh := by
  cases op with
  | enqueue k pl p now =>
    simp only [StepOk] at hok
    simp only [step, enqueueTx, Op.short, Op.after, places]
    generalize hH : setHash r (k.prio, k.short) _ = rH
    have hN : sN rH sh = sN r sh := by rw [← hH]; simp
    have hD : sD rH sh = sD r sh := by rw [← hH]; simp
    have hX : sX rH sh = sX r sh := by rw [← hH]; simp
    have hP : sP rH sh = sP r sh := by rw [← hH]; simp
    have h0 : sh = k.short → sD rH sh = 0 := by
      intro hs; rw [hD]; subst hs
      simp only [places] at hok; omega
    have hp := put_places rH k (waitScore p now cron) false sh h0
    rw [hN, hD] at hp
    rw [hp.2.1, hp.2.2, hX, hP]
    by_cases hs : sh = k.short
    · subst hs
      simp only [places] at hok
      simp only [if_true] at hp ⊢
      omega
    · simp only [hs, if_false] at hp ⊢
      omega
  | ack k =>
    simp only [StepOk] at hok
    have hz := held_elsewhere_zero r k.short (hinv _) hok
    simp only [step, Op.short, Op.after, places]
    have hl : sN (ackTx r k) sh = sN r sh ∧ sD (ackTx r k) sh = sD r sh ∧ sX (ackTx r k) sh = sX r sh := ⟨rfl, rfl, rfl⟩
    rw [hl.1, hl.2.1, hl.2.2]
    by_cases hs : sh = k.short
    · subst hs
      have : sP (ackTx r k) k.short = 0 := by simp only [sP, ackTx]; exact zrem_filter_self _ _
      simp only [if_true, this]
      omega
    · have : sP (ackTx r k) sh = sP r sh := by simp only [sP, ackTx]; exact zrem_filter_other _ _ _ hs
      simp only [hs, if_false, this]
  | nack k =>
    simp only [StepOk] at hok
    have hz := held_elsewhere_zero r k.short (hinv _) hok
    have hu := unmark_places (markDead r k) k sh
    have hm := markDead_places r k sh
    simp only [step, nackTx, Op.short, Op.after, places, hu.1, hu.2.1, hu.2.2.1, hu.2.2.2, hm.1, hm.2.1, hm.2.2.2]
    by_cases hs : sh = k.short
    · subst hs
      simp only [if_true]
      omega
    · simp only [hs, if_false]
      omega
  | reject k now =>
    simp only [StepOk] at hok
    have hz := held_elsewhere_zero r k.short (hinv _) hok
    simp only [step, reject, Op.short, Op.after]
    split
    case h_2 =>
      -- no data or no take marker: nothing changes, the message stays where it is (held)
      by_cases hs : sh = k.short
      · subst hs; simp only [if_true, places]; omega
      · simp only [hs, if_false]
    rename_i p0 m0 hp0 hm0
    simp only [rejectTx]
    split
    · have hu := unmark_places (markDead r k) k sh
      have hm := markDead_places r k sh
      simp only [places, hu.1, hu.2.1, hu.2.2.1, hu.2.2.2, hm.1, hm.2.1, hm.2.2.2]
      by_cases hs : sh = k.short
      · subst hs
        simp only [if_true]
        omega
      · simp only [hs, if_false]
        omega
    · have hp := put_places r k (waitScore p0 now cron) true sh
        (fun hs => by subst hs; exact hz.2.1)
      have hu := unmark_places (put r k (waitScore p0 now cron) true) k sh
      simp only [places, hu.1, hu.2.1, hu.2.2.1, hu.2.2.2]
      rw [hp.2.1]
      by_cases hs : sh = k.short
      · subst hs
        simp only [if_true] at hp ⊢
        omega
      · simp only [hs, if_false] at hp ⊢
        rw [hp.2.2]
        omega
  | requeue k pl p now =>
    simp only [StepOk] at hok
    have hz := held_elsewhere_zero r k.short (hinv _) hok
    simp only [step, requeueTx, Op.short, Op.after]
    generalize hH : setHash r (k.prio, k.short) _ = rH
    have hN : sN rH sh = sN r sh := by rw [← hH]; simp
    have hD : sD rH sh = sD r sh := by rw [← hH]; simp
    have hX : sX rH sh = sX r sh := by rw [← hH]; simp
    have hP : sP rH sh = sP r sh := by rw [← hH]; simp
    have h0 : sh = k.short → sD rH sh = 0 := by
      intro hs; rw [hD]; subst hs; exact hz.2.1
    have hp := put_places rH k (waitScore p now cron) true sh h0
    have hu := unmark_places (put rH k (waitScore p now cron) true) k sh
    simp only [places, hu.1, hu.2.1, hu.2.2.1, hu.2.2.2]
    rw [hN, hD] at hp
    rw [hp.2.1, hX]
    by_cases hs : sh = k.short
    · subst hs
      simp only [if_true] at hp ⊢
      omega
    · simp only [hs, if_false] at hp ⊢
      rw [hp.2.2, hP]
      omega
  | take cat k ns =>
    simp only [StepOk] at hok
    obtain ⟨hp0, hsrc⟩ := hok
    have hinvk := hinv k.short
    simp only [step, takeTx, Op.short, Op.after, places]
    by_cases hs : sh = k.short
    · subst hs
      simp only [if_true]
      have hP : ((zadd r.processing k.short ns).filter (·.1 == k.short)).length = 1 :=
        zaddP_absent _ _ _ (by simpa [sP] using hp0)
      cases cat with
      | n =>
        simp only at hsrc
        have h1 := lremLast_filter_true (fun e : Nat × String => e.2 == k.short) r.normal (k.prio, k.short) (by simp) hsrc
        simp only [sN, sD, sX, sP, setHash_normal, setHash_delayed, setHash_dead, setHash_processing, places] at h1 hinvk hp0 hP ⊢
        omega
      | dead =>
        simp only at hsrc
        have h1 := lremLast_filter_true (fun e : Nat × String => e.2 == k.short) r.dead (k.prio, k.short) (by simp) hsrc
        simp only [sN, sD, sX, sP, setHash_normal, setHash_delayed, setHash_dead, setHash_processing, places] at h1 hinvk hp0 hP ⊢
        omega
      | d =>
        simp only [List.mem_map] at hsrc
        obtain ⟨⟨kk0, s0⟩, hmem0, hk0⟩ := hsrc
        simp only at hk0
        subst hk0
        have hpos : 0 < (r.delayed.filter (·.1.2 == k.short)).length :=
          List.length_pos_of_mem (List.mem_filter.mpr ⟨hmem0, by simp⟩)
        have huniq : ∀ e ∈ r.delayed, e.1.2 = k.short → e.1 = (k.prio, k.short) := by
          intro e he hes
          by_cases heq : e = ((k.prio, k.short), s0)
          · simp [heq]
          · exfalso
            have h2 := two_in_filter (fun x : (Nat × String) × Int => x.1.2 == k.short) r.delayed e ((k.prio, k.short), s0)
              he hmem0 heq (by simp [hes]) (by simp)
            simp only [places, sD] at hinvk
            omega
        have h1 := zremK_self r.delayed (k.prio, k.short) huniq
        simp only [sN, sD, sX, sP, setHash_normal, setHash_delayed, setHash_dead, setHash_processing, places] at h1 hinvk hp0 hP hpos ⊢
        omega
    · simp only [hs, if_false]
      have hP : ((zadd r.processing k.short ns).filter (·.1 == sh)).length = (r.processing.filter (·.1 == sh)).length :=
        zadd_filter_other _ _ _ _ hs
      have hf : ((fun e : Nat × String => e.2 == sh) (k.prio, k.short)) = false := by simpa using Ne.symm hs
      cases cat with
      | n =>
        have h1 := lremLast_filter_false (fun e : Nat × String => e.2 == sh) r.normal (k.prio, k.short) hf
        simp only [sN, sD, sX, sP, setHash_normal, setHash_delayed, setHash_dead, setHash_processing] at h1 hP ⊢
        omega
      | dead =>
        have h1 := lremLast_filter_false (fun e : Nat × String => e.2 == sh) r.dead (k.prio, k.short) hf
        simp only [sN, sD, sX, sP, setHash_normal, setHash_delayed, setHash_dead, setHash_processing] at h1 hP ⊢
        omega
      | d =>
        have h1 := zremK_other r.delayed (k.prio, k.short) sh hs
        simp only [sN, sD, sX, sP, setHash_normal, setHash_delayed, setHash_dead, setHash_processing] at h1 hP ⊢
        omega

/-- the invariant "every message is in at most one place" is preserved by every well-behaved operation -/
theorem inv_step (cron : String → Int → Int) (r : R) (op : Op) (hinv : Inv r) (hok : StepOk r op) : Inv (step cron r op) := by
  intro sh
  rw [step_places cron r op hinv hok sh]
  split
  · cases op <;> simp [Op.after]
  · exact hinv sh

def runOps (cron : String → Int → Int) (r : R) : List Op → R
  | [] => r
  | op :: rest => runOps cron (step cron r op) rest

def StepsOk (cron : String → Int → Int) (r : R) : List Op → Prop
  | [] => True
  | op :: rest => StepOk r op ∧ StepsOk cron (step cron r op) rest

/-- `redis_conservation`: after ANY finite history of enqueue / take (any category) / ack / nack / reject / requeue by
    well-behaved clients, every message is in at most one place — waiting, delayed, held or dead-lettered — and (by
    `step_places`) a message's number of places changes only by its own operations: to 0 by ack, to 1 by every other -/
theorem redis_conservation (cron : String → Int → Int) : ∀ (ops : List Op) (r : R), Inv r → StepsOk cron r ops →
    Inv (runOps cron r ops) := by
  intro ops
  induction ops with
  | nil => intro r h _; exact h
  | cons op rest ih =>
    intro r hinv hok
    exact ih _ (inv_step cron r op hinv hok.1) hok.2

theorem inv_empty : Inv {} := by intro sh; simp [places, sN, sD, sX, sP]

-- non-vacuity: a history that satisfies the guard at every step
example : StepOk {} (.enqueue ⟨5, "t", "a"⟩ "" {} 0) ∧
    StepOk (step (fun _ t => t) {} (.enqueue ⟨5, "t", "a"⟩ "" {} 0)) (.take .n ⟨5, "t", "a"⟩ 0) ∧
    StepOk (step (fun _ t => t) (step (fun _ t => t) {} (.enqueue ⟨5, "t", "a"⟩ "" {} 0)) (.take .n ⟨5, "t", "a"⟩ 0))
      (.reject ⟨5, "t", "a"⟩ 0) := by decide

end Repid.RedisProofs
