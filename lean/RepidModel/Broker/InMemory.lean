/-
In-memory broker (code-model).  Anchors:
  repid/connections/in_memory/utils.py            DummyQueue {simple, delayed, dead, processing}
  repid/connections/in_memory/message_broker.py   enqueue / ack / nack / reject / requeue
  repid/connections/in_memory/consumer.py         consume / finish / __update_delayed / __consume_*

One `Q` is one `DummyQueue`.  An *atom* is a maximal block of code between two awaits; every broker
call is a short list of atoms (`requeue = ackA ; put`, `consume = [updateDelayed ; poll] ; poll*`).
Ghost state (not present in the code, erased before comparing with the implementation):
  * `acked`   — messages removed by ack (so that "finally acknowledged" is a place);
  * `believes` — which consumer currently believes it holds which id (C14);
  * `limbo`   — messages removed by the `ack` half of a `requeue` whose `enqueue` half has not run
                 yet (they are in NO place of the statement; non-empty only inside a requeue call);
  * `Held.who`, `Held.frm` — which consumer took a message and from which category.
-/
import RepidModel.Sched

namespace Repid.Mem

inductive Cat where
  | normal | delayed | dead
  deriving Repr, DecidableEq, Inhabited

structure Msg where
  id : String
  topic : String
  payload : String := ""
  params : Params := {}
  /-- due time computed by `wait_until(params)` at the moment of the enqueue (ghost copy of the
      `delayed` dict key; `none` = immediate). -/
  due : Option Int := none
  deriving Repr, DecidableEq, Inhabited

structure Held where
  msg : Msg
  who : Nat         -- ghost: consumer id
  frm : Cat         -- ghost: category it was taken from
  deriving Repr, DecidableEq, Inhabited

structure Q where
  simple : List Msg := []                    -- asyncio.Queue, head is next out
  delayed : List (Int × List Msg) := []      -- dict[datetime, list[Message]] in insertion order
  dead : List Msg := []
  processing : List Held := []               -- set[Message] (+ ghosts)
  acked : List Msg := []                     -- ghost
  limbo : List Msg := []                     -- ghost
  /-- ghost: (consumer, id) pairs — the consumer was handed the id by `consume()` and has not since
      disposed of it itself (ack/nack/reject/requeue by the holder, or the consumer's own finish). -/
  believes : List (Nat × String) := []
  deriving Repr, DecidableEq, Inhabited

/-! ### dict helpers (insertion-ordered) -/

/-- `d.setdefault(t, []).append(m)` -/
def dictAppend (d : List (Int × List Msg)) (t : Int) (m : Msg) : List (Int × List Msg) :=
  match d with
  | [] => [(t, [m])]
  | (k, ms) :: rest => if k = t then (k, ms ++ [m]) :: rest else (k, ms) :: dictAppend rest t m

def delayedMsgs (d : List (Int × List Msg)) : List Msg := d.flatMap (·.2)

/-! ### atoms of `InMemoryMessageBroker` -/

/-- enqueue body: `delay = wait_until(params)`; delayed.setdefault(delay, []).append(msg) or
    simple.put_nowait(msg). -/
def put (q : Q) (m : Msg) (now : Int) (cron : String → Int → Int) : Q :=
  match m.params.waitUntil now cron with
  | some t => { q with delayed := dictAppend q.delayed t { m with due := some t } }
  | none => { q with simple := q.simple ++ [{ m with due := none }] }

/-- first processing entry with that id (`for msg in q.processing: if msg.key.id_ == key.id_`). -/
def findHeld (q : Q) (id : String) : Option Held := q.processing.find? (·.msg.id == id)

def dropHeld (q : Q) (id : String) : List Held := q.processing.eraseP (·.msg.id == id)

def ackA (q : Q) (id : String) : Q :=
  match findHeld q id with
  | some h => { q with processing := dropHeld q id, acked := q.acked ++ [h.msg],
                       believes := q.believes.filter (·.2 != id) }
  | none => q

/-- first half of `requeue` (`await self.ack(key)`): same code as `ackA`; the ghost records that the
    message is *between* the two halves of a requeue rather than finally acknowledged. -/
def unholdA (q : Q) (id : String) : Q :=
  match findHeld q id with
  | some h => { q with processing := dropHeld q id, limbo := q.limbo ++ [h.msg],
                       believes := q.believes.filter (·.2 != id) }
  | none => q

/-- second half of `requeue` (`await self.enqueue(key, payload, params)`): same code as `put`. -/
def reputA (q : Q) (m : Msg) (now : Int) (cron : String → Int → Int) : Q :=
  let q1 := put q m now cron
  { q1 with limbo := q1.limbo.eraseP (·.id == m.id) }

def nackA (q : Q) (id : String) : Q :=
  match findHeld q id with
  | some h => { q with processing := dropHeld q id, dead := q.dead ++ [h.msg],
                       believes := q.believes.filter (·.2 != id) }
  | none => q

/-- reject body: the message goes to `simple` whatever category it was taken from. -/
def rejectA (q : Q) (id : String) : Q :=
  match findHeld q id with
  | some h => { q with processing := dropHeld q id, simple := q.simple ++ [h.msg],
                       believes := q.believes.filter (·.2 != id) }
  | none => q

/-! ### atoms of `_InMemoryConsumer` -/

/-- `__update_delayed`: every dict entry with `time_ < now` is appended to `simple` (in dict order)
    and removed. -/
def updateDelayed (q : Q) (now : Int) : Q :=
  { q with
    simple := q.simple ++ delayedMsgs (q.delayed.filter (fun e => decide (e.1 < now)))
    delayed := q.delayed.filter (fun e => !decide (e.1 < now)) }

/-- `topics and msg.key.topic not in topics` is the *mismatch* test. -/
def wants (topics : List String) (m : Msg) : Bool := topics.isEmpty || topics.contains m.topic

/-- `__consume_normal` (one poll). -/
def pollNormal (q : Q) (now : Int) (topics : List String) : Option Msg × Q :=
  match q.simple with
  | [] => (none, q)
  | m :: rest =>
    if m.params.isOverdue now then (none, { q with simple := rest, dead := q.dead ++ [m] })
    else if !wants topics m then (none, { q with simple := rest ++ [m] })
    else (some m, { q with simple := rest })

/-- smallest key of the dict (`min(self._queue.delayed)`). -/
def minKey : List (Int × List Msg) → Option Int
  | [] => none
  | (k, _) :: rest =>
    match minKey rest with
    | none => some k
    | some k' => some (if k ≤ k' then k else k')

/-- pop the first message stored under key `t`; drop the key when its list had length one. -/
def popAt (d : List (Int × List Msg)) (t : Int) : Option Msg × List (Int × List Msg) :=
  match d with
  | [] => (none, [])
  | (k, ms) :: rest =>
    if k = t then
      match ms with
      | [] => (none, (k, ms) :: rest)          -- unreachable in the code (lists are never empty)
      | [m] => (some m, rest)
      | m :: ms' => (some m, (k, ms') :: rest)
    else
      let r := popAt rest t
      (r.1, (k, ms) :: r.2)

/-- `__consume_delayed` (one poll). -/
def pollDelayed (q : Q) : Option Msg × Q :=
  match minKey q.delayed with
  | none => (none, q)
  | some t => let r := popAt q.delayed t; (r.1, { q with delayed := r.2 })

/-- `__consume_dead` (one poll). -/
def pollDead (q : Q) : Option Msg × Q :=
  match q.dead with
  | [] => (none, q)
  | m :: rest => (some m, { q with dead := rest })

def poll (q : Q) (cat : Cat) (now : Int) (topics : List String) : Option Msg × Q :=
  match cat with
  | .normal => pollNormal q now topics
  | .delayed => pollDelayed q
  | .dead => pollDead q

/-- a successful poll and `processing.add(msg)` happen in the same atom. -/
def pollTake (q : Q) (c : Nat) (cat : Cat) (now : Int) (topics : List String) : Option Msg × Q :=
  match poll q cat now topics with
  | (some m, q') => (some m, { q' with processing := q'.processing ++ [{ msg := m, who := c, frm := cat }],
                                       believes := q'.believes ++ [(c, m.id)] })
  | (none, q') => (none, q')

/-- `finish()`: `while processing: simple.put_nowait(processing.pop())` — `set.pop()` order is
    arbitrary; `perm` is the order in which the entries came out (resolved from the observation). -/
def finishA (q : Q) (c : Nat) (perm : List Held) : Q :=
  { q with simple := q.simple ++ perm.map (·.msg), processing := [],
           believes := q.believes.filter (·.1 != c) }   -- only the finishing consumer lets go

/-- `consume()` at call level for a single running task: first atom `update_delayed; poll`, then one
    poll per millisecond of virtual time.  The periodic `__update_delayed` (every
    `UPDATE_DELAYED_EVERY` seconds of accumulated sleep) is applied when `periodic k` is true before
    poll `k`.  Returns the delivered message (if any within `polls` polls), the state, and the
    number of failed polls (each costs 1 ms). -/
def consumeLoop (c : Nat) (cat : Cat) (topics : List String) (periodic : Nat → Bool) :
    (polls : Nat) → (k : Nat) → Q → (now : Int) → Option Msg × Q × Nat
  | 0, k, q, _ => (none, q, k)
  | n + 1, k, q, now =>
    let q1 := if k == 0 || periodic k then updateDelayed q now else q
    match pollTake q1 c cat now topics with
    | (some m, q2) => (some m, q2, k)
    | (none, q2) => consumeLoop c cat topics periodic n (k + 1) q2 (now + 1000)

/-! ### places and counting -/

def heldMsgs (q : Q) : List Msg := q.processing.map (·.msg)

/-- every message the queue knows about, place by place. -/
def allMsgs (q : Q) : List Msg :=
  q.simple ++ delayedMsgs q.delayed ++ q.dead ++ heldMsgs q ++ q.acked ++ q.limbo

def ids (q : Q) : List String := (allMsgs q).map (·.id)

/-- live places only (the ghost `acked` list left out): what the implementation snapshot shows. -/
def liveIds (q : Q) : List String :=
  (q.simple ++ delayedMsgs q.delayed ++ q.dead ++ heldMsgs q).map (·.id)

end Repid.Mem
