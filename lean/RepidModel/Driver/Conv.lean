import RepidModel.Driver.State
import RepidModel.Conv.Bind

namespace Repid.Driver
open Repid Sexp Conv

def pOf : Sexp → Option P
  | .list [.atom "p", n, d, dep] => do pure { name := ← toStr? n, hasDefault := ← toBool? d, isDep := ← toBool? dep }
  | _ => none

def sigOf : Sexp → Option Sig
  | .list [.atom "sig", po, pk, vp, ko, vk] => do
    pure { posOnly := ← mapM? pOf po, posOrKw := ← mapM? pOf pk, varPos := ← toBool? vp,
           kwOnly := ← mapM? pOf ko, varKw := ← toBool? vk }
  | _ => none

def vOf : Sexp → Option V
  | .list [.atom "json", .str s] => some (.json s)
  | .list [.atom "dflt", .str s] => some (.dflt s)
  | .list [.atom "dep", .str s] => some (.dep s)
  | _ => none

def vTo : V → Sexp
  | .json s => .list [.atom "json", .str s]
  | .dflt s => .list [.atom "dflt", .str s]
  | .dep s => .list [.atom "dep", .str s]

def kvOf : Sexp → Option (String × V)
  | .list [.str k, v] => (vOf v).map fun x => (k, x)
  | _ => none

def kvTo (e : String × V) : Sexp := .list [.str e.1, vTo e.2]

def payloadOf : Sexp → Option (Option (List (String × V)))
  | .atom "none" => some none
  | x => (mapM? kvOf x).map some

def errTo : Err → Sexp
  | .missing p => .list [.atom "err", .atom "missing", .str p]
  | .multiple p => .list [.atom "err", .atom "multiple", .str p]
  | .unexpectedPositional => .list [.atom "err", .atom "unexpectedPositional"]
  | .unexpectedKeyword n => .list [.atom "err", .atom "unexpectedKeyword", .str n]
  | .unsupported => .list [.atom "err", .atom "unsupported"]
  | .invalidPayload => .list [.atom "err", .atom "invalidPayload"]

def boundTo : Except Err Bound → Sexp
  | .error e => errTo e
  | .ok b => .list [.atom "bound", ofList kvTo b.named, ofList vTo b.star, ofList kvTo b.dstar]

def conv : String → List Sexp → Option Sexp
  | "conv.basic", [s, p] => do pure (boundTo (basicCallChecked (← sigOf s) (← payloadOf p)))
  | "conv.pydantic", [s, p] => do pure (boundTo (pydanticCall (← sigOf s) (← payloadOf p)))
  | "conv.spec", [s, p] => do pure (boundTo (spec (← sigOf s) (← payloadOf p)))
  | "conv.call", [s, a, k] => do pure (boundTo (call (← sigOf s) (← mapM? vOf a) (← mapM? kvOf k)))
  | _, _ => none

end Repid.Driver
