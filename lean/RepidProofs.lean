-- Root of the proof library: property theorems (Props/) and helper lemmas (Proofs/).
import RepidProofs.Props.C19
import RepidProofs.Props.C01
