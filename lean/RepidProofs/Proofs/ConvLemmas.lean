/-
Helper lemmas about `mapE`, `mapIdxM`, `lookup` for the argument-binding model (C08).
-/
import RepidModel.Conv.Bind

namespace Repid.Conv

instance exceptDecEq {ε α : Type} [DecidableEq ε] [DecidableEq α] : DecidableEq (Except ε α)
  | .ok a, .ok b => if h : a = b then isTrue (h ▸ rfl) else isFalse (fun h' => by cases h'; exact h rfl)
  | .error a, .error b => if h : a = b then isTrue (h ▸ rfl) else isFalse (fun h' => by cases h'; exact h rfl)
  | .ok _, .error _ => isFalse (fun h => by cases h)
  | .error _, .ok _ => isFalse (fun h => by cases h)

theorem mapE_append {α β : Type} (f : α → Except Err β) (a b : List α) :
    mapE f (a ++ b) =
      match mapE f a with
      | .error e => .error e
      | .ok xs => match mapE f b with
        | .error e => .error e
        | .ok ys => .ok (xs ++ ys) := by
  induction a with
  | nil => simp [mapE]; cases mapE f b <;> rfl
  | cons x rest ih =>
    simp only [List.cons_append, mapE]
    cases hx : f x with
    | error e => rfl
    | ok y =>
      simp only [ih]
      cases mapE f rest with
      | error e => rfl
      | ok xs => cases mapE f b <;> rfl

theorem mapE_congr {α β : Type} (f g : α → Except Err β) (l : List α) (h : ∀ a ∈ l, f a = g a) :
    mapE f l = mapE g l := by
  induction l with
  | nil => rfl
  | cons x rest ih =>
    simp only [mapE, h x (by simp), ih (fun a ha => h a (by simp [ha]))]

theorem mapE_length {α β : Type} (f : α → Except Err β) (l : List α) (r : List β) (h : mapE f l = .ok r) :
    r.length = l.length := by
  induction l generalizing r with
  | nil => simp [mapE] at h; subst h; rfl
  | cons x rest ih =>
    simp only [mapE] at h
    cases hx : f x with
    | error e => simp [hx] at h
    | ok y =>
      simp only [hx] at h
      cases hr : mapE f rest with
      | error e => simp [hr] at h
      | ok ys => simp [hr] at h; subst h; simp [ih ys hr]

theorem mapNamed_append (g : P → Except Err V) (a b : List P) :
    mapNamed g (a ++ b) =
      match mapNamed g a with
      | .error e => .error e
      | .ok xs => match mapNamed g b with
        | .error e => .error e
        | .ok ys => .ok (xs ++ ys) := by
  induction a with
  | nil => simp [mapNamed]; cases mapNamed g b <;> rfl
  | cons x rest ih =>
    simp only [List.cons_append, mapNamed]
    cases hx : g x with
    | error e => rfl
    | ok y =>
      simp only [ih]
      cases mapNamed g rest with
      | error e => rfl
      | ok xs => cases mapNamed g b <;> rfl

theorem mapNamed_congr (f g : P → Except Err V) (l : List P) (h : ∀ a ∈ l, f a = g a) :
    mapNamed f l = mapNamed g l := by
  induction l with
  | nil => rfl
  | cons x rest ih =>
    simp only [mapNamed, h x (by simp), ih (fun a ha => h a (by simp [ha]))]

/-- `mapIdxNamed f k l` computes the same as `mapNamed g l` when `f` at every position agrees with `g` -/
theorem mapIdxNamed_eq (f : Nat → P → Except Err V) (g : P → Except Err V) (l : List P) (k : Nat)
    (h : ∀ i a, l[i]? = some a → f (k + i) a = g a) : mapIdxNamed f k l = mapNamed g l := by
  induction l generalizing k with
  | nil => rfl
  | cons x rest ih =>
    have h0 := h 0 x (by simp)
    simp only [Nat.add_zero] at h0
    have hr := ih (k + 1) (fun i a hi => by
      have := h (i + 1) a (by simpa using hi)
      simpa [Nat.add_assoc, Nat.add_comm 1 i] using this)
    simp only [mapIdxNamed, mapNamed, h0, hr]

theorem lookup_append (k : String) (a b : List (String × V)) :
    lookup k (a ++ b) = match lookup k a with | some v => some v | none => lookup k b := by
  induction a with
  | nil => rfl
  | cons x rest ih =>
    obtain ⟨n, v⟩ := x
    simp only [List.cons_append, lookup]
    split
    · rfl
    · exact ih

theorem lookup_none (k : String) (l : List (String × V)) (h : k ∉ l.map (·.1)) : lookup k l = none := by
  induction l with
  | nil => rfl
  | cons x rest ih =>
    obtain ⟨n, v⟩ := x
    simp only [List.map_cons, List.mem_cons, not_or] at h
    simp only [lookup]
    rw [if_neg (fun hh => h.1 hh.symm)]
    exact ih h.2

theorem hasKey_iff (k : String) (l : List (String × V)) : hasKey k l = true ↔ k ∈ l.map (·.1) := by
  simp [hasKey, List.any_eq_true]

/-- names of the result of `mapNamed` are the parameter names -/
theorem mapNamed_names (g : P → Except Err V) (l : List P) (r : List (String × V))
    (h : mapNamed g l = .ok r) : r.map (·.1) = l.map (·.name) := by
  induction l generalizing r with
  | nil => simp [mapNamed] at h; subst h; rfl
  | cons x rest ih =>
    simp only [mapNamed] at h
    cases hx : g x with
    | error e => simp [hx] at h
    | ok y =>
      simp only [hx] at h
      cases hr : mapNamed g rest with
      | error e => simp [hr] at h
      | ok ys =>
        simp [hr] at h; subst h
        simp [ih ys hr]

/-- in the result of `mapNamed` the value of a parameter is found under its (unique) name -/
theorem mapNamed_lookup (g : P → Except Err V) (l : List P) (r : List (String × V))
    (h : mapNamed g l = .ok r) (hnd : (l.map (·.name)).Nodup) (p : P) (hp : p ∈ l) :
    ∃ v, g p = .ok v ∧ lookup p.name r = some v := by
  induction l generalizing r with
  | nil => simp at hp
  | cons x rest ih =>
    simp only [mapNamed] at h
    cases hx : g x with
    | error e => simp [hx] at h
    | ok y =>
      simp only [hx] at h
      cases hr : mapNamed g rest with
      | error e => simp [hr] at h
      | ok ys =>
        simp [hr] at h; subst h
        simp only [List.map_cons, List.nodup_cons] at hnd
        simp only [List.mem_cons] at hp
        rcases hp with rfl | hp
        · exact ⟨y, hx, by simp [lookup]⟩
        · obtain ⟨v, hv, hl⟩ := ih ys hr hnd.2 hp
          refine ⟨v, hv, ?_⟩
          have hne : ¬ x.name = p.name := fun he => hnd.1 (he ▸ List.mem_map_of_mem hp)
          simp [lookup, hne, hl]

/-- the values of `mapE g l` at each position -/
theorem mapE_getElem (g : P → Except Err V) (l : List P) (vs : List V) (h : mapE g l = .ok vs)
    (i : Nat) (p : P) (hp : l[i]? = some p) : ∃ v, g p = .ok v ∧ vs[i]? = some v := by
  induction l generalizing vs i with
  | nil => simp at hp
  | cons x rest ih =>
    simp only [mapE] at h
    cases hx : g x with
    | error e => simp [hx] at h
    | ok y =>
      simp only [hx] at h
      cases hr : mapE g rest with
      | error e => simp [hr] at h
      | ok ys =>
        simp [hr] at h; subst h
        cases i with
        | zero => simp at hp; subst hp; exact ⟨y, hx, by simp⟩
        | succ j =>
          obtain ⟨v, hv, hl⟩ := ih ys hr j (by simpa using hp)
          exact ⟨v, hv, by simpa using hl⟩

/-- `mapE g` and `mapNamed g` fail or succeed together, with the same values -/
theorem mapNamed_of_mapE (g : P → Except Err V) (l : List P) :
    mapNamed g l = match mapE g l with
      | .error e => .error e
      | .ok vs => .ok ((l.map (·.name)).zip vs) := by
  induction l with
  | nil => rfl
  | cons x rest ih =>
    simp only [mapNamed, mapE]
    cases hx : g x with
    | error e => rfl
    | ok y =>
      simp only [ih]
      cases mapE g rest <;> simp

end Repid.Conv
