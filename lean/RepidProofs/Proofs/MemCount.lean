/-
Helper lemmas: per-id occurrence counting for the in-memory broker atoms.
-/
import RepidModel.Broker.InMemory

namespace Repid.Mem
open List

/-- occurrences of id `i` in a message list -/
def cnt (i : String) (l : List Msg) : Nat := (l.map (·.id)).count i

@[simp] theorem cnt_nil (i : String) : cnt i [] = 0 := rfl
@[simp] theorem cnt_append (i : String) (a b : List Msg) : cnt i (a ++ b) = cnt i a + cnt i b := by
  simp [cnt, List.count_append]
theorem cnt_cons (i : String) (m : Msg) (l : List Msg) :
    cnt i (m :: l) = cnt i l + (if m.id = i then 1 else 0) := by
  simp [cnt, List.count_cons]
@[simp] theorem cnt_singleton (i : String) (m : Msg) : cnt i [m] = (if m.id = i then 1 else 0) := by
  simp [cnt, List.count_cons]

/-- total count over all places (ghost `acked` included) -/
def total (i : String) (q : Q) : Nat :=
  cnt i q.simple + cnt i (delayedMsgs q.delayed) + cnt i q.dead + cnt i (heldMsgs q) + cnt i q.acked
    + cnt i q.limbo

theorem total_eq_count_ids (i : String) (q : Q) : total i q = (ids q).count i := by
  simp [total, ids, allMsgs, cnt, List.count_append, Nat.add_assoc]

@[simp] theorem delayedMsgs_nil : delayedMsgs [] = [] := rfl
@[simp] theorem delayedMsgs_cons (e : Int × List Msg) (d : List (Int × List Msg)) :
    delayedMsgs (e :: d) = e.2 ++ delayedMsgs d := by simp [delayedMsgs]

theorem cnt_dictAppend (i : String) (d : List (Int × List Msg)) (t : Int) (m : Msg) :
    cnt i (delayedMsgs (dictAppend d t m)) = cnt i (delayedMsgs d) + (if m.id = i then 1 else 0) := by
  induction d with
  | nil => simp [dictAppend]
  | cons e rest ih =>
    obtain ⟨k, ms⟩ := e
    unfold dictAppend
    split
    · simp [cnt_cons]; omega
    · simp [ih]; omega

theorem cnt_filter_split (i : String) (d : List (Int × List Msg)) (p : Int × List Msg → Bool) :
    cnt i (delayedMsgs (d.filter p)) + cnt i (delayedMsgs (d.filter (fun e => !p e)))
      = cnt i (delayedMsgs d) := by
  induction d with
  | nil => simp
  | cons e rest ih =>
    by_cases h : p e <;> simp [h] <;> omega

theorem cnt_held_find (i : String) (l : List Held) (id : String) (h : Held)
    (hf : l.find? (·.msg.id == id) = some h) :
    cnt i (l.map (·.msg)) = cnt i ((l.eraseP (·.msg.id == id)).map (·.msg)) + (if h.msg.id = i then 1 else 0) := by
  induction l with
  | nil => simp at hf
  | cons a rest ih =>
    by_cases hp : (a.msg.id == id) = true
    · simp [List.find?_cons, hp] at hf
      subst hf
      simp [List.eraseP_cons, hp, cnt_cons]
    · simp [List.find?_cons, hp] at hf
      simp [List.eraseP_cons, hp, cnt_cons, ih hf]; omega

theorem cnt_popAt (i : String) (d : List (Int × List Msg)) (t : Int) :
    cnt i (delayedMsgs d) = cnt i (delayedMsgs (popAt d t).2)
      + (match (popAt d t).1 with | some m => (if m.id = i then 1 else 0) | none => 0) := by
  induction d with
  | nil => simp [popAt]
  | cons e rest ih =>
    obtain ⟨k, ms⟩ := e
    unfold popAt
    split
    · match ms with
      | [] => simp
      | [m] => simp [cnt_cons]
      | m :: m' :: ms' => simp [cnt_cons]
    · simp; rw [ih]; omega

theorem cnt_eraseP_id (i : String) (l : List Msg) (id : String) :
    cnt i (l.eraseP (·.id == id)) + (if l.any (·.id == id) ∧ id = i then 1 else 0) = cnt i l := by
  induction l with
  | nil => simp
  | cons a rest ih =>
    by_cases hp : (a.id == id) = true
    · have : a.id = id := by simpa using hp
      simp [List.eraseP_cons, hp, cnt_cons, this]
    · have hne : ¬ a.id = id := by simpa using hp
      simp [List.eraseP_cons, hp, cnt_cons, hne] at *
      omega

theorem cnt_perm (i : String) {a b : List Msg} (h : a.Perm b) : cnt i a = cnt i b := by
  unfold cnt; exact (h.map _).count_eq i

end Repid.Mem
