/-
What each broker puts on the wire for one message and how its consumer rebuilds the tuple
(code-model, codec level).  Anchors:
  redis/message_broker.py:66-87 (hash `m:<queue>:<prio>:<topic>:<id>` with fields payload/parameters;
  the queue list holds the short name `<topic>:<id>`), redis/consumer.py:300-332 (details from the short
  name, the consumer's queue and the priority it is scanning);
  rabbitmq/message_broker.py:77-102 (body {payload, parameters}, properties message_id / priority /
  headers{queue, topic}), rabbitmq/consumer.py:145-218 (on_new_message).
-/
import RepidModel.Codec.Json
import RepidModel.Codec.Names

namespace Repid.Codec
open Names

structure Message where
  key : Key
  payload : String
  params : Params
  deriving Repr, DecidableEq, Inhabited

/-! ### Redis -/

structure RedisWire where
  hashName : Str                 -- full message name
  queueName : Str                -- list / zset the short name is put in
  shortName : Str
  payload : String
  params : J
  deriving Repr, Inhabited

def redisEnqueue (m : Message) (delayed : Bool) : RedisWire :=
  { hashName := mnc m.key false, queueName := qnc m.key.queue m.key.priority delayed false,
    shortName := mnc m.key true, payload := m.payload, params := encParams m.params }

/-- consumer side: it scans the queue `qnc(queue, priority)`, parses the short name, rebuilds the key
    with ITS queue name and the priority it is scanning, reads the hash of that key -/
def redisConsume (w : RedisWire) (consumerQueue scanPriority : Str) (delayed : Bool) : Option Message := do
  if w.queueName ≠ qnc consumerQueue scanPriority delayed false then none
  let (topic, id) ← parseShort w.shortName
  let key : Key := { id, topic, queue := consumerQueue, priority := scanPriority }
  if mnc key false ≠ w.hashName then none        -- hget on the rebuilt name must hit the hash
  let p ← decParams w.params
  pure { key, payload := w.payload, params := p }

/-! ### RabbitMQ -/

structure RabbitWire where
  routingKey : Str
  messageId : Str
  priority : Option Nat
  headerQueue : Str
  headerTopic : Str
  payload : String
  params : J
  deriving Repr, Inhabited

def rabbitEnqueue (m : Message) (prio : Nat) (delayed : Bool) : RabbitWire :=
  { routingKey := if delayed then m.key.queue ++ ":delayed".toList else m.key.queue,
    messageId := m.key.id, priority := some prio, headerQueue := m.key.queue, headerTopic := m.key.topic,
    payload := m.payload, params := encParams m.params }

/-- `on_new_message`: key from message_id / headers / priority (`MEDIUM` only when the property is absent) -/
def rabbitConsume (w : RabbitWire) (digits : Nat → Str) : Option Message := do
  let p ← decParams w.params
  let prio := match w.priority with | some x => x | none => Config.priorityMedium
  pure { key := { id := w.messageId, topic := w.headerTopic, queue := w.headerQueue, priority := digits prio },
         payload := w.payload, params := p }

end Repid.Codec
