import RepidModel.Driver.State
import RepidModel.Codec.Wire

namespace Repid.Driver
open Repid Sexp Wire Codec Codec.Names

partial def jTo : J → Sexp
  | .null => .atom "null"
  | .bool b => .list [.atom "bool", ofBool b]
  | .int i => .list [.atom "int", ofInt i]
  | .dur n => .list [.atom "dur", ofInt n]
  | .time t => .list [.atom "time", ofInt t]
  | .str s => .list [.atom "str", .str s]
  | .obj fs => .list (.atom "obj" :: fs.map fun f => .list [.str f.1, jTo f.2])

partial def jOf : Sexp → Option J
  | .atom "null" => some .null
  | .list [.atom "bool", b] => (toBool? b).map .bool
  | .list [.atom "int", i] => (toInt? i).map .int
  | .list [.atom "dur", i] => (toInt? i).map .dur
  | .list [.atom "time", i] => (toInt? i).map .time
  | .list [.atom "str", .str s] => some (.str s)
  | .list (.atom "obj" :: fs) => do
    let fs ← fs.mapM fun f => match f with
      | .list [.str k, v] => (jOf v).map fun j => (k, j)
      | _ => none
    pure (.obj fs)
  | _ => none

def strOf (x : Sexp) : Option Str := (toStr? x).map String.toList
def strTo (s : Str) : Sexp := .str (String.ofList s)

def argsBucketTo (b : ArgsBucket) : Sexp := .list [.atom "AB", .str b.data, ofInt b.timestamp, ofOpt ofInt b.ttl]
def resultBucketTo (b : ResultBucket) : Sexp :=
  .list [.atom "RB", .str b.data, ofInt b.startedWhen, ofInt b.finishedWhen, ofBool b.success,
         ofOpt .str b.exception, ofInt b.timestamp, ofOpt ofInt b.ttl]

def codec : String → List Sexp → Option Sexp
  | "codec.encParams", [p] => do pure (jTo (encParams (← paramsOf p)))
  | "codec.decParams", [j] => do pure (ofOpt paramsTo (decParams (← jOf j)))
  | "codec.decArgsBucket", [j] => do pure (ofOpt argsBucketTo (decArgsBucket (← jOf j)))
  | "codec.decResultBucket", [j] => do pure (ofOpt resultBucketTo (decResultBucket (← jOf j)))
  | "names.qnc", [q, p, d, dd] => do pure (strTo (qnc (← strOf q) (← strOf p) (← toBool? d) (← toBool? dd)))
  | "names.mnc", [i, t, q, p, s] => do
    pure (strTo (mnc { id := ← strOf i, topic := ← strOf t, queue := ← strOf q, priority := ← strOf p } (← toBool? s)))
  | "names.parseFull", [s] => do
    pure (ofOpt (fun r : Str × Str × Str × Str => .list [strTo r.1, strTo r.2.1, strTo r.2.2.1, strTo r.2.2.2]) (parseFull (← strOf s)))
  | "names.parseShort", [s] => do
    pure (ofOpt (fun r : Str × Str => .list [strTo r.1, strTo r.2]) (parseShort (← strOf s)))
  | "names.fullFromShort", [s, fq] => do pure (ofOpt strTo (fullFromShort (← strOf s) (← strOf fq)))
  | "names.queueMarker", [fq] => do pure (ofOpt strTo (queueMarker (← strOf fq)))
  | "names.topicMatches", [t, s] => do pure (ofBool (topicMatches (← strOf t) (← strOf s)))
  | "names.nameOk", [s] => do pure (ofBool (nameOk (← strOf s)))
  | "names.idOk", [s] => do pure (ofBool (idOk (← strOf s)))
  | "marker.construct", [i] => do pure (strTo (markerConstruct (← strOf i)))
  | "marker.check", [s] => do pure (ofBool (markerCheck (← strOf s)))
  | "marker.deconstruct", [s] => do pure (ofOpt strTo (markerDeconstruct (← strOf s)))
  | _, _ => none

end Repid.Driver
