/-
C04 — Retries are bounded, counted and backed off as configured.
-/
import RepidModel.Worker.Chain

namespace Repid.C04
open Repid Worker

/-- the retry branch of the ladder is taken exactly when the execution failed and retries remain -/
theorem retry_iff (p : Params) (success : Bool) (now : Int) (cron : String → Int → Int) (pn : Int) :
    (report p success now cron pn = .requeue (p.prepareRetry now pn) ∧ success = false ∧
        p.retries.alreadyTried < p.retries.maxAmount) ∨
    ((success = true ∨ ¬ p.retries.alreadyTried < p.retries.maxAmount) ∧
      (report p success now cron pn = .ack ∨ report p success now cron pn = .nack ∨
       report p success now cron pn = .requeue (p.prepareReschedule now cron))) := by
  unfold report
  cases success <;> by_cases h : p.retries.alreadyTried < p.retries.maxAmount <;>
    cases hr : isRecurring p <;> simp [h]

/-- `counter_step`: a retry increases the attempt counter carried by the message by exactly one,
    keeps the budget, and schedules the next attempt at failure time + back-off. -/
theorem counter_step (p : Params) (now d : Int) :
    (p.prepareRetry now d).retries.alreadyTried = p.retries.alreadyTried + 1 ∧
    (p.prepareRetry now d).retries.maxAmount = p.retries.maxAmount ∧
    (p.prepareRetry now d).delay.nextExecutionTime = some (now + d) := by
  simp [Params.prepareRetry]

/-- shape of a chain: it always starts with the execution of the delivered message -/
theorem chain_head (policy : Int → Int) (cron : String → Int → Int) (fails : Nat → Bool)
    (dur lat : Nat → Int) (fuel k : Nat) (p : Params) (start : Int) :
    ∃ tail, retryChain policy cron fails dur lat (fuel + 1) k p start =
      { start, params := p,
        call := report p (!fails k) (start + dur k) cron (policy (p.retries.alreadyTried + 1)) } :: tail := by
  simp only [retryChain]
  split
  · exact ⟨_, rfl⟩
  · exact ⟨[], rfl⟩

/-- `chain_length`: a job with retries = N (attempt counter t ≤ N when the chain is observed) whose
    actor keeps failing is executed exactly N − t + 1 more times — N + 1 times per scheduling — for
    every retry policy, every duration/latency profile; the last execution is answered with nack
    (or with a reschedule whose counter is reset when the job is recurring). -/
theorem chain_length (policy : Int → Int) (cron : String → Int → Int) (dur lat : Nat → Int)
    (n : Nat) : ∀ (p : Params) (k : Nat) (start : Int) (fuel : Nat),
    p.retries.maxAmount - p.retries.alreadyTried = (n : Int) → n + 1 ≤ fuel →
    (retryChain policy cron (fun _ => true) dur lat fuel k p start).length = n + 1 ∧
    (∃ e, (retryChain policy cron (fun _ => true) dur lat fuel k p start).getLast? = some e ∧
      e.params.retries.alreadyTried = p.retries.maxAmount ∧
      (e.call = .nack ∨ ∃ now, e.call = .requeue (e.params.prepareReschedule now cron))) := by
  induction n with
  | zero =>
    intro p k start fuel hn hf
    obtain ⟨f, rfl⟩ : ∃ f, fuel = f + 1 := ⟨fuel - 1, by omega⟩
    have hlt : ¬ p.retries.alreadyTried < p.retries.maxAmount := by omega
    have hchain : retryChain policy cron (fun _ => true) dur lat (f + 1) k p start =
        [{ start, params := p,
           call := report p false (start + dur k) cron (policy (p.retries.alreadyTried + 1)) }] := by
      simp [retryChain, hlt]
    rw [hchain]
    refine ⟨rfl, ⟨Exec.mk start p (report p false (start + dur k) cron (policy (p.retries.alreadyTried + 1))), rfl,
      by simp; omega, ?_⟩⟩
    show report p false _ cron _ = .nack ∨ ∃ now, report p false _ cron _ = .requeue (p.prepareReschedule now cron)
    unfold report
    cases hr : isRecurring p
    · left; simp [hlt]
    · right; exact ⟨start + dur k, by simp [hlt]⟩
  | succ n ih =>
    intro p k start fuel hn hf
    obtain ⟨f, rfl⟩ : ∃ f, fuel = f + 1 := ⟨fuel - 1, by omega⟩
    have hlt : p.retries.alreadyTried < p.retries.maxAmount := by omega
    have hchain : retryChain policy cron (fun _ => true) dur lat (f + 1) k p start =
        { start, params := p,
          call := report p false (start + dur k) cron (policy (p.retries.alreadyTried + 1)) } ::
        retryChain policy cron (fun _ => true) dur lat f (k + 1)
          (p.prepareRetry (start + dur k) (policy (p.retries.alreadyTried + 1)))
          (start + dur k + policy (p.retries.alreadyTried + 1) + lat (k + 1)) := by
      simp [retryChain, hlt]
    rw [hchain]
    have := ih (p.prepareRetry (start + dur k) (policy (p.retries.alreadyTried + 1))) (k + 1)
      (start + dur k + policy (p.retries.alreadyTried + 1) + lat (k + 1)) f
      (by simp [Params.prepareRetry]; omega) (by omega)
    obtain ⟨hlen, e, he, hmax, hcall⟩ := this
    refine ⟨by simp [hlen], e, ?_, by simpa [Params.prepareRetry] using hmax, hcall⟩
    rw [List.getLast?_cons_of_ne_nil]
    · exact he
    · intro hnil; rw [hnil] at hlen; simp at hlen

/-- `counter_bounded`: without a forced retry the attempt counter never exceeds the budget — every
    execution of a chain that starts within budget is delivered with `already_tried ≤ max_amount`. -/
theorem counter_bounded (policy : Int → Int) (cron : String → Int → Int) (fails : Nat → Bool)
    (dur lat : Nat → Int) (fuel : Nat) : ∀ (k : Nat) (p : Params) (start : Int),
    p.retries.alreadyTried ≤ p.retries.maxAmount →
    ∀ e ∈ retryChain policy cron fails dur lat fuel k p start,
      e.params.retries.alreadyTried ≤ e.params.retries.maxAmount ∧
      e.params.retries.maxAmount = p.retries.maxAmount := by
  induction fuel with
  | zero => intro k p start _ e he; simp [retryChain] at he
  | succ f ih =>
    intro k p start hle e he
    simp only [retryChain] at he
    split at he
    · next hc =>
      simp only [Bool.and_eq_true, decide_eq_true_eq] at hc
      simp only [List.mem_cons] at he
      rcases he with he | he
      · subst he; exact ⟨hle, rfl⟩
      · have := ih (k + 1) _ _ (by simp [Params.prepareRetry]; omega) e he
        simpa [Params.prepareRetry] using this
    · simp only [List.mem_singleton] at he; subst he; exact ⟨hle, rfl⟩

/-- `success_ends`: a success at any attempt ends the chain — with an ack for a one-shot job. -/
theorem success_ends (policy : Int → Int) (cron : String → Int → Int) (fails : Nat → Bool)
    (dur lat : Nat → Int) (fuel k : Nat) (p : Params) (start : Int) (hs : fails k = false)
    (hnr : isRecurring p = false) :
    retryChain policy cron fails dur lat (fuel + 1) k p start = [{ start, params := p, call := .ack }] := by
  simp [retryChain, hs, report, hnr]

/-- `not_before_backoff`: the k-th retry is scheduled at failure time + policy(k); together with the
    broker's never-early theorem (C05) it is therefore not delivered before that instant. In the
    chain: the next execution carries that due time and starts no earlier (non-negative latency). -/
theorem not_before_backoff (policy : Int → Int) (cron : String → Int → Int) (fails : Nat → Bool)
    (dur lat : Nat → Int) (fuel k : Nat) (p : Params) (start : Int)
    (hf : fails k = true) (hlt : p.retries.alreadyTried < p.retries.maxAmount)
    (hlat : 0 ≤ lat (k + 1)) :
    ∃ e rest, retryChain policy cron fails dur lat (fuel + 2) k p start =
        { start, params := p, call := .requeue (p.prepareRetry (start + dur k) (policy (p.retries.alreadyTried + 1))) }
          :: e :: rest ∧
      e.params.delay.nextExecutionTime = some (start + dur k + policy (p.retries.alreadyTried + 1)) ∧
      start + dur k + policy (p.retries.alreadyTried + 1) ≤ e.start := by
  obtain ⟨tail, ht⟩ := chain_head policy cron fails dur lat fuel (k + 1)
    (p.prepareRetry (start + dur k) (policy (p.retries.alreadyTried + 1)))
    (start + dur k + policy (p.retries.alreadyTried + 1) + lat (k + 1))
  refine ⟨{ start := start + dur k + policy (p.retries.alreadyTried + 1) + lat (k + 1),
             params := p.prepareRetry (start + dur k) (policy (p.retries.alreadyTried + 1)),
             call := report (p.prepareRetry (start + dur k) (policy (p.retries.alreadyTried + 1))) (!fails (k + 1))
               (start + dur k + policy (p.retries.alreadyTried + 1) + lat (k + 1) + dur (k + 1)) cron
               (policy ((p.prepareRetry (start + dur k) (policy (p.retries.alreadyTried + 1))).retries.alreadyTried + 1)) },
           tail, ?_, ?_, ?_⟩
  · rw [← ht]
    simp [retryChain, hf, hlt, report]
  · simp [Params.prepareRetry]
  · simp; omega

-- Non-vacuity: N = 2, always failing, default-like policy.
example :
    let p : Params := { retries := { maxAmount := 2, alreadyTried := 0 } }
    (retryChain (fun k => 10000000 * k) (fun _ n => n) (fun _ => true) (fun _ => 1) (fun _ => 0) 5 0 p 0).map
      (fun e => (e.start, e.params.retries.alreadyTried)) = [(0, 0), (10000001, 1), (30000002, 2)] := by
  decide

end Repid.C04
