/-
C07 — What the producer enqueued is what the consumer receives.
Models: RepidModel/Codec/{Json,Names,Wire}.lean; float stage: RepidProofs/Proofs/TdFloat.lean.
-/
import RepidModel.Codec.Wire
import RepidProofs.Proofs.TdFloat

namespace Repid.C07
open Repid Codec Codec.Names

/-! ### parameters and buckets: decode ∘ encode = id (tree level) -/

theorem optField_enc_dur (fs : List (String × J)) (k : String) (v : Option Int)
    (h : (J.obj fs).get k = some (optJ J.dur v)) : optField (J.obj fs) k asDur = some v := by
  cases v <;> simp [optField, h, optJ, asDur]

theorem optField_enc_time (fs : List (String × J)) (k : String) (v : Option Int)
    (h : (J.obj fs).get k = some (optJ J.time v)) : optField (J.obj fs) k asTime = some v := by
  cases v <;> simp [optField, h, optJ, asTime]

theorem optField_enc_str (fs : List (String × J)) (k : String) (v : Option String)
    (h : (J.obj fs).get k = some (optJ J.str v)) : optField (J.obj fs) k asStr = some v := by
  cases v <;> simp [optField, h, optJ, asStr]

theorem retries_roundtrip (r : Retries) : decRetries (encRetries r) = some r := by
  simp [decRetries, encRetries, J.get, asInt]

theorem result_roundtrip (r : ResultProps) : decResult (encResult r) = some r := by
  cases h : r.ttl <;> simp [decResult, encResult, J.get, asStr, optField, optJ, asDur, h] <;>
    (cases r; simp_all)

theorem delay_roundtrip (d : Delay) : decDelay (encDelay d) = some d := by
  obtain ⟨du, db, cr, nx⟩ := d
  cases du <;> cases db <;> cases cr <;> cases nx <;>
    simp [decDelay, encDelay, J.get, optField, optJ, asTime, asDur, asStr]

theorem optField_enc_result (fs : List (String × J)) (v : Option ResultProps)
    (h : (J.obj fs).get "result" = some (optJ encResult v)) :
    optField (J.obj fs) "result" decResult = some v := by
  cases v with
  | none => simp [optField, h, optJ]
  | some r =>
    have hr := result_roundtrip r
    simp only [optField, h, optJ]
    have hne : encResult r = J.obj [("id_", J.str r.id), ("ttl", optJ J.dur r.ttl)] := rfl
    rw [hne] at hr ⊢
    simp only [hr, Option.map_some]

/-- `params_roundtrip`: decoding the encoding of ANY parameters gives them back — every field
    (timeout, result settings, retries, delay with all four sub-fields, timestamp, time-to-live),
    every combination of optional settings. -/
theorem params_roundtrip (p : Params) : decParams (encParams p) = some p := by
  obtain ⟨tmo, res, re, de, ts, ttl⟩ := p
  have hre := retries_roundtrip re
  have hde := delay_roundtrip de
  have hres := optField_enc_result
    [("execution_timeout", J.dur tmo), ("result", optJ encResult res), ("retries", encRetries re),
     ("delay", encDelay de), ("timestamp", J.time ts), ("ttl", optJ J.dur ttl)] res (by simp [J.get])
  have httl := optField_enc_dur
    [("execution_timeout", J.dur tmo), ("result", optJ encResult res), ("retries", encRetries re),
     ("delay", encDelay de), ("timestamp", J.time ts), ("ttl", optJ J.dur ttl)] "ttl" ttl (by simp [J.get])
  simp only [decParams, encParams, hres, httl]
  simp [J.get, asDur, asTime, hre, hde]

theorem args_bucket_roundtrip (b : ArgsBucket) : decArgsBucket (encArgsBucket b) = some b := by
  obtain ⟨d, ts, ttl⟩ := b
  cases ttl <;> simp [decArgsBucket, encArgsBucket, J.get, optField, optJ, asStr, asTime, asDur]

theorem result_bucket_roundtrip (b : ResultBucket) : decResultBucket (encResultBucket b) = some b := by
  obtain ⟨d, st, fi, su, ex, ts, ttl⟩ := b
  cases ttl <;> cases ex <;>
    simp [decResultBucket, encResultBucket, J.get, optField, optJ, asStr, asTime, asDur, asInt, asBool]

/-- an args bucket decoded from an encoded RESULT bucket keeps data / timestamp / ttl and drops the rest -/
theorem args_from_result_bucket (b : ResultBucket) :
    decArgsBucket (encResultBucket b) = some { data := b.data, timestamp := b.timestamp, ttl := b.ttl } := by
  obtain ⟨d, st, fi, su, ex, ts, ttl⟩ := b
  cases ttl <;> simp [decArgsBucket, encResultBucket, J.get, optField, optJ, asStr, asTime, asDur]

/-- `td_float_roundtrip`: a duration of up to 100 years survives `total_seconds()` →
    `timedelta(seconds=float(·))` at microsecond precision, for EVERY rounding with relative error
    ≤ 2⁻⁵³ and every nearest-integer rounding. -/
theorem td_float_roundtrip (rn rn' : ℚ → ℚ) (nearest : ℚ → ℤ)
    (hrn : ∀ q : ℚ, |rn q - q| ≤ |q| / 2 ^ 53) (hrn' : ∀ q : ℚ, |rn' q - q| ≤ |q| / 2 ^ 53)
    (hnear : ∀ q : ℚ, |(nearest q : ℚ) - q| ≤ 1 / 2)
    (n : ℤ) (h0 : 0 ≤ n) (hmax : n ≤ 3155760000000000) :
    ⌊rn ((n : ℚ) / 10 ^ 6)⌋ * 10 ^ 6
      + nearest (rn' ((rn ((n : ℚ) / 10 ^ 6) - ⌊rn ((n : ℚ) / 10 ^ 6)⌋) * 10 ^ 6)) = n :=
  TdFloat.roundtrip rn rn' nearest hrn hrn' hnear n h0 hmax

/-! ### names -/

theorem splitColon_ne_nil (s : Str) : splitColon s ≠ [] := by
  induction s with
  | nil => simp [splitColon]
  | cons c rest ih =>
    simp only [splitColon]
    cases h : splitColon rest with
    | nil => exact absurd h ih
    | cons hd tl => simp only []; split <;> simp

theorem splitColon_noColon (s : Str) (h : noColon s = true) : splitColon s = [s] := by
  induction s with
  | nil => rfl
  | cons c rest ih =>
    simp only [noColon, List.all_cons, Bool.and_eq_true, bne_iff_ne, ne_eq] at h
    have := ih (by simpa [noColon] using h.2)
    simp [splitColon, this, h.1]

theorem splitColon_append (a rest : Str) (h : noColon a = true) :
    splitColon (a ++ ':' :: rest) = a :: splitColon rest := by
  induction a with
  | nil =>
    simp only [List.nil_append, splitColon]
    cases hs : splitColon rest with
    | nil => exact absurd hs (splitColon_ne_nil rest)
    | cons hd tl => simp
  | cons c as ih =>
    simp only [noColon, List.all_cons, Bool.and_eq_true, bne_iff_ne, ne_eq] at h
    have := ih (by simpa [noColon] using h.2)
    simp [splitColon, this, h.1]

/-- `split(":")` undoes the f-string concatenation for components without a colon -/
theorem splitColon_join (parts : List Str) (hne : parts ≠ []) (h : ∀ p ∈ parts, noColon p = true) :
    splitColon (join parts) = parts := by
  induction parts with
  | nil => exact absurd rfl hne
  | cons p rest ih =>
    cases rest with
    | nil => simpa [join] using splitColon_noColon p (h p (by simp))
    | cons q rs =>
      simp only [join]
      rw [splitColon_append p _ (h p (by simp)), ih (by simp) (fun x hx => h x (by simp [hx]))]

def keyOk (k : Key) : Prop :=
  noColon k.id = true ∧ noColon k.topic = true ∧ noColon k.queue = true ∧ noColon k.priority = true

/-- `redis_names_roundtrip`: the full and the short message name parse back to the key's components;
    the full name is recovered from the short name and the queue name; the queue marker is the
    category tag. -/
theorem mnc_full (k : Key) : mnc k false = join [['m'], k.queue, k.priority, k.topic, k.id] := by simp [mnc]
theorem mnc_short (k : Key) : mnc k true = join [k.topic, k.id] := by simp [mnc]

theorem redis_names_roundtrip (k : Key) (hk : keyOk k) (delayed dead : Bool) :
    parseFull (mnc k false) = some (k.id, k.topic, k.queue, k.priority) ∧
    parseShort (mnc k true) = some (k.topic, k.id) ∧
    fullFromShort (mnc k true) (qnc k.queue k.priority delayed dead) = some (mnc k false) ∧
    queueMarker (qnc k.queue k.priority delayed dead)
      = some (if dead then "dead".toList else if delayed then ['d'] else ['n']) := by
  obtain ⟨h1, h2, h3, h4⟩ := hk
  have hm : noColon ['m'] = true := by decide
  have hq : noColon ['q'] = true := by decide
  have htag : noColon (if dead then "dead".toList else if delayed then ['d'] else ['n']) = true := by
    cases dead <;> cases delayed <;> decide
  refine ⟨?_, ?_, ?_, ?_⟩
  · simp only [parseFull, mnc_full]
    rw [splitColon_join _ (by simp) (by intro p hp; simp at hp; rcases hp with rfl | rfl | rfl | rfl | rfl <;> assumption)]
  · simp only [parseShort, mnc_short]
    rw [splitColon_join _ (by simp) (by intro p hp; simp at hp; rcases hp with rfl | rfl <;> assumption)]
  · simp only [fullFromShort, qnc, mnc_full, mnc_short]
    rw [splitColon_join _ (by simp) (by intro p hp; simp at hp; rcases hp with rfl | rfl | rfl | rfl <;> assumption)]
    simp [join]
  · simp only [queueMarker, qnc]
    rw [splitColon_join _ (by simp) (by intro p hp; simp at hp; rcases hp with rfl | rfl | rfl | rfl <;> assumption)]
    simp

/-- `names_unambiguous`: two valid keys with the same message name are the same key -/
theorem names_unambiguous (k k' : Key) (hk : keyOk k) (hk' : keyOk k') (h : mnc k false = mnc k' false) : k = k' := by
  have a := (redis_names_roundtrip k hk false false).1
  have b := (redis_names_roundtrip k' hk' false false).1
  rw [h, b] at a
  cases k; cases k'; simp_all

theorem isPrefix_append (a b : Str) : isPrefix a (a ++ b) = true := by
  induction a with
  | nil => rfl
  | cons c rest ih => simp [isPrefix, ih]

theorem isPrefix_colon (t t' rest : Str) (ht : noColon t = true) (ht' : noColon t' = true) :
    isPrefix (t ++ [':']) (t' ++ ':' :: rest) = true ↔ t = t' := by
  induction t generalizing t' with
  | nil =>
    cases t' with
    | nil => simp [isPrefix]
    | cons c cs =>
      simp only [noColon, List.all_cons, Bool.and_eq_true, bne_iff_ne, ne_eq] at ht'
      simp [isPrefix]; intro h; exact absurd h.symm ht'.1
  | cons a as ih =>
    simp only [noColon, List.all_cons, Bool.and_eq_true, bne_iff_ne, ne_eq] at ht
    cases t' with
    | nil => simp [isPrefix]; intro h; exact absurd h ht.1
    | cons c cs =>
      simp only [noColon, List.all_cons, Bool.and_eq_true, bne_iff_ne, ne_eq] at ht'
      have := ih cs (by simpa [noColon] using ht.2) (by simpa [noColon] using ht'.2)
      simp [isPrefix, this]

/-- the Redis consumer's topic filter (`startswith(topic + ":")`) accepts exactly the messages of that topic -/
theorem topic_prefix_exact (t : Str) (k : Key) (ht : noColon t = true) (hk : keyOk k) :
    topicMatches t (mnc k true) = true ↔ t = k.topic := by
  simp only [topicMatches, mnc_short, join]
  exact isPrefix_colon t k.topic k.id ht hk.2.1

/-- `charclass_no_colon`: no character accepted by VALID_NAME / VALID_ID (ranges extracted from the live
    regexes on every run) is a colon -/
theorem charclass_no_colon :
    inRanges Config.nameFirst ':' = false ∧ inRanges Config.nameRest ':' = false ∧
    inRanges Config.idFirst ':' = false ∧ inRanges Config.idRest ':' = false := by
  decide

theorem inRanges_ne_colon (rs : List (Nat × Nat)) (hrs : inRanges rs ':' = false) (c : Char)
    (h : inRanges rs c = true) : c ≠ ':' := by
  intro hc; subst hc; rw [hrs] at h; cases h

theorem nameOk_noColon (s : Str) (h : nameOk s = true) : noColon s = true := by
  cases s with
  | nil => simp [nameOk] at h
  | cons c rest =>
    simp only [nameOk, Bool.and_eq_true, List.all_eq_true] at h
    simp only [noColon, List.all_cons, Bool.and_eq_true, bne_iff_ne, ne_eq, List.all_eq_true]
    exact ⟨inRanges_ne_colon _ charclass_no_colon.1 c h.1,
           fun x hx => inRanges_ne_colon _ charclass_no_colon.2.1 x (h.2 x hx)⟩

theorem idOk_noColon (s : Str) (h : idOk s = true) : noColon s = true := by
  cases s with
  | nil => simp [idOk] at h
  | cons c rest =>
    simp only [idOk, Bool.and_eq_true, List.all_eq_true] at h
    simp only [noColon, List.all_cons, Bool.and_eq_true, bne_iff_ne, ne_eq, List.all_eq_true]
    exact ⟨inRanges_ne_colon _ charclass_no_colon.2.2.1 c h.1,
           fun x hx => inRanges_ne_colon _ charclass_no_colon.2.2.2 x (h.2 x hx)⟩

/-- every key the validators accept is a key the Redis encodings handle unambiguously -/
theorem validated_key_ok (k : Key) (hid : idOk k.id = true) (ht : nameOk k.topic = true)
    (hq : nameOk k.queue = true) (hp : k.priority.all Char.isDigit = true) : keyOk k := by
  refine ⟨idOk_noColon _ hid, nameOk_noColon _ ht, nameOk_noColon _ hq, ?_⟩
  simp only [noColon, List.all_eq_true, bne_iff_ne, ne_eq] at hp ⊢
  intro c hc hcc; subst hcc
  have := hp ':' hc
  simp [Char.isDigit] at this

/-! ### bucket marker -/

theorem marker_check (id : Str) : markerCheck (markerConstruct id) = true := by
  have e : markerConstruct id = '{' :: '"' :: (bucketKey ++ ("\":\"".toList ++ id ++ "\"}".toList)) := by
    simp [markerConstruct, List.append_assoc]
  rw [e]
  simp only [markerCheck, findFrom, Bool.or_eq_true]
  exact Or.inr (Or.inr (Or.inl (isPrefix_append _ _)))

theorem marker_deconstruct (id : Str) : markerDeconstruct (markerConstruct id) = some id := by
  have e : markerConstruct id = ("{\"".toList ++ bucketKey ++ "\":\"".toList) ++ (id ++ "\"}".toList) := by
    simp [markerConstruct, List.append_assoc]
  rw [e]
  simp only [markerDeconstruct, isPrefix_append, if_true, List.drop_left]
  have hlen : (id ++ "\"}".toList).length = id.length + 2 := by simp
  simp

/-! ### end to end (codec level) -/

/-- Redis: what a consumer scanning the message's queue and priority rebuilds is what was enqueued -/
theorem redis_end_to_end (m : Message) (hk : keyOk m.key) (delayed : Bool) :
    redisConsume (redisEnqueue m delayed) m.key.queue m.key.priority delayed = some m := by
  have hn := (redis_names_roundtrip m.key hk delayed false).2.1
  simp only [redisConsume, redisEnqueue, hn, params_roundtrip]
  cases m with
  | mk key payload params => cases key; simp [mnc]

/-- RabbitMQ: id, topic, queue, priority (every priority incl. 0 — after the `fix:` for F14),
    payload and parameters come back -/
theorem rabbit_end_to_end (m : Message) (prio : Nat) (digits : Nat → Str) (hp : m.key.priority = digits prio)
    (delayed : Bool) : rabbitConsume (rabbitEnqueue m prio delayed) digits = some m := by
  simp only [rabbitConsume, rabbitEnqueue, params_roundtrip]
  cases m with
  | mk key payload params => cases key; simp_all

end Repid.C07
