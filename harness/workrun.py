"""Worker-level runs of the real repid code (Worker → _Runner → _Processor, in-memory broker) under
virtual time, observed at the broker boundary.  Used by C02 / C03 / C04 / C06 / C09 / C10 / C13.

A *scenario* (JSON-able) lists jobs with, per job, the plan of what the actor does at its k-th
execution.  The harness spies, from outside the repository:
  deliver  — `consume()` of the worker's consumer returned (id, parameters)
  bcall    — top-level calls of broker.ack/nack/reject/requeue/enqueue (nested calls inside requeue
             are not recorded)
  actor    — entry/exit of the actor body
  store    — store_bucket calls on the results bucket broker (with optional fault injection)
"""
# (no `from __future__ import annotations` here: repid inspects real annotation objects)

import implenv  # noqa: F401  (must be first)

import asyncio
import contextvars
import signal
from typing import Annotated, Any

import vtime
from common import NONE, A, sx
from memrun import S, params_sx, snap_ids
from vtime import CLOCK, td_us, to_us, us_td

from repid import (BasicConverter, Connection, Depends, InMemoryBucketBroker, InMemoryMessageBroker, Job,
                   MessageDependency, PydanticConverter, Router, Worker, default_retry_policy_factory)
from repid.data import PrioritiesT

_depth = contextvars.ContextVar("bcall_depth", default=0)
_cur_msg = contextvars.ContextVar("cur_msg", default=None)


class PlannedError(Exception):
    pass


def make_policy(spec: dict):
    k = spec.get("kind", "default")
    if k == "default":
        return default_retry_policy_factory(min_backoff=spec.get("min", 10), max_backoff=spec.get("max", 86400),
                                            multiplier=spec.get("mult", 5), max_exponent=spec.get("exp", 15))
    if k == "const":
        return lambda retry_number=1: us_td(spec["us"])
    if k == "linear":
        return lambda retry_number=1: us_td(spec["us"] * retry_number)
    raise ValueError(k)


def policy_us(spec: dict, n: int) -> int:
    """The back-off policy as a pure function (the policy is an INPUT of the system, not code under
    test; the default factory itself is covered by C19)."""
    return td_us(make_policy(spec)(n))


def _called_from_consumer() -> bool:
    import sys
    f = sys._getframe(2)
    n = 0
    while f is not None and n < 12:
        fn = f.f_code.co_filename
        if fn.endswith("consumer.py") and ("connections/redis" in fn or "connections/rabbitmq" in fn):
            return True
        f = f.f_back
        n += 1
    return False


class WorkerRun:
    def __init__(self, sc: dict) -> None:
        self.sc = sc
        self.events: list[dict] = []
        self.exec_count: dict[str, int] = {}
        self.deliver_count: dict[str, int] = {}
        self.running = 0
        self.max_running = 0
        self.store_calls = 0
        self.broker_kind = sc.get("broker", "memory")
        if self.broker_kind == "redis":
            import fake_redis
            fake_redis.install()
            fake_redis.reset_servers()
            from repid.connections.redis.message_broker import RedisMessageBroker
            self.broker = RedisMessageBroker("redis://workrun")
        elif self.broker_kind == "rabbit":
            import fake_amqp
            fake_amqp.install()
            fake_amqp.reset_servers()
            from repid.connections.rabbitmq.message_broker import RabbitMessageBroker
            self.broker = RabbitMessageBroker("amqp://workrun")
        else:
            self.broker = InMemoryMessageBroker()
        if sc.get("results_kind") == "redis" and sc.get("results_broker", True):
            import fake_redis
            fake_redis.install()
            from repid.connections.redis.bucket_broker import RedisBucketBroker
            self.results = RedisBucketBroker("redis://workrun-results", use_result_bucket=True)
        else:
            self.results = InMemoryBucketBroker(use_result_bucket=True) if sc.get("results_broker", True) else None
        self.args = InMemoryBucketBroker() if sc.get("args_broker", False) else None
        self.conn = Connection(self.broker, self.args, self.results)
        self.plans = {j["id"]: j["plan"] for j in sc["jobs"]}
        self.runner = None
        self.inject = None
        self.policy_spec = sc.get("policy", {"kind": "const", "us": 0})
        self.jobs: dict[str, Job] = {}
        self._install_spies()
        self.router = Router()
        self._declare_actors()

    # ------------------------------------------------------------------ spies
    def ev(self, kind: str, **kw: Any) -> None:
        self.events.append({"t": CLOCK.us, "cb": getattr(asyncio.get_event_loop(), "cb_index", 0), "kind": kind, **kw})

    def _install_spies(self) -> None:
        b = self.broker
        for name in ("ack", "nack", "reject", "requeue", "enqueue"):
            orig = getattr(b, name)

            def mk(orig=orig, name=name):
                async def spy(key, payload="", params=None):
                    d = _depth.get()
                    if d == 0 and _called_from_consumer():
                        # the broker's own consumer dead-letters an expired message / gives back a prefetched one: not a
                        # disposition made by the worker for a delivery
                        self.ev("consumer_internal", op=name, id=key.id_)
                        if name in ("requeue", "enqueue"):
                            return await orig(key, payload, params)
                        return await orig(key)
                    if d == 0:
                        self.ev("bcall", op=name, id=key.id_, params=None if params is None else params_sx(params),
                                tried=None if params is None else params.retries.already_tried,
                                next=None if params is None else to_us(params.delay.next_execution_time),
                                ts=None if params is None else to_us(params.timestamp))
                    tok = _depth.set(d + 1)
                    try:
                        if name in ("requeue", "enqueue"):
                            r = await orig(key, payload, params)
                        else:
                            r = await orig(key)
                    finally:
                        _depth.reset(tok)
                    if d == 0:
                        self.ev("bret", op=name, id=key.id_)
                    return r
                return spy
            setattr(b, name, mk())
        orig_get = b.get_consumer

        def get_consumer(*a, **kw):
            cons = orig_get(*a, **kw)
            oc = cons.consume

            async def consume():
                key, payload, params = await oc()
                n = self.deliver_count.get(key.id_, 0)
                self.deliver_count[key.id_] = n + 1
                self.ev("deliver", id=key.id_, n=n, params=params_sx(params), tried=params.retries.already_tried,
                        max=params.retries.max_amount, next=to_us(params.delay.next_execution_time),
                        ts=to_us(params.timestamp), payload=payload, result=params.result is not None,
                        recurring=params.delay.defer_by is not None)
                return key, payload, params
            cons.consume = consume
            ofin = cons.finish

            async def finish(cons=cons, ofin=ofin):
                lock = getattr(cons, "pause_lock", None)
                self.ev("consumer_finish", paused=None if lock is None else lock.locked())
                return await ofin()
            cons.finish = finish
            lat = self.sc.get("consumer_latency_us", 0)
            if lat:
                # a consumer whose pause()/unpause() really take a round trip (as on a networked broker)
                op, ou = cons.pause, cons.unpause

                async def pause():
                    await asyncio.sleep(lat / 1e6)
                    await op()

                async def unpause():
                    await asyncio.sleep(lat / 1e6)
                    await ou()
                cons.pause, cons.unpause = pause, unpause
            return cons
        b.get_consumer = get_consumer
        if self.results is not None:
            ost = self.results.store_bucket
            fail_at = set(self.sc.get("store_fail_calls", []))
            fail_all = self.sc.get("store_fail_all", False)

            async def store_bucket(id_, payload):
                k = self.store_calls
                self.store_calls += 1
                fails = fail_all or k in fail_at
                self.ev("store", id=id_, k=k, owner=_cur_msg.get(), success=getattr(payload, "success", None), data=getattr(payload, "data", None),
                        exception=getattr(payload, "exception", None), started=getattr(payload, "started_when", None),
                        finished=getattr(payload, "finished_when", None), ttl=td_us(getattr(payload, "ttl", None)),
                        fails=fails)
                if fails:
                    raise ConnectionError("planned store failure")
                return await ost(id_, payload)
            self.results.store_bucket = store_bucket

    # ------------------------------------------------------------------ actors
    def _step(self, mid: str) -> dict:
        plan = self.plans[mid]
        k = self.exec_count.get(mid, 0)
        return plan[min(k, len(plan) - 1)]

    def _declare_actors(self) -> None:
        run = self
        conv = {"basic": BasicConverter, "pydantic": PydanticConverter}[self.sc.get("converter", "basic")]

        async def provider(m: MessageDependency) -> int:
            st = run._step(m.key.id_)
            if st["k"] == "depFail":
                run.exec_count[m.key.id_] = run.exec_count.get(m.key.id_, 0) + 1
                run.ev("dep_raise", id=m.key.id_)
                raise PlannedError("dependency failure")
            return 7

        async def body(m: MessageDependency, x: int, d: int) -> Any:
            mid = m.key.id_
            st = run._step(mid)
            k = run.exec_count.get(mid, 0)
            run.exec_count[mid] = k + 1
            run.running += 1
            run.max_running = max(run.max_running, run.running)
            run.ev("actor_start", id=mid, k=k, tried=m.parameters.retries.already_tried, x=x, d=d, running=run.running)
            try:
                if st.get("dur"):
                    await asyncio.sleep(st["dur"] / 1e6)
                kind = st["k"]
                if kind == "ret":
                    return st.get("value", k)
                if kind == "raise":
                    raise PlannedError(st.get("msg", f"boom{k}"))
                if kind == "badret":
                    return {"a set", "cannot be encoded"}       # the body completes; its return value cannot be encoded
                if kind == "timeout":
                    await asyncio.sleep(td_us(m.parameters.execution_timeout) / 1e6 + 5)
                    return "late"
                if kind == "eager":
                    for p in st.get("pre", []):
                        if p == "setResult":
                            m.set_result(st.get("value", f"r{k}"))
                        elif p == "setException":
                            m.set_exception(PlannedError(st.get("msg", f"exc{k}")))
                        else:
                            cid, raises = p[1], p[2]

                            async def cb(cid=cid, raises=raises, k=k):
                                run.ev("callback", id=mid, cb=cid, k=k)
                                if raises:
                                    raise PlannedError("callback failure")
                            m.add_callback(cb)
                    api = st["api"]
                    try:
                        if isinstance(api, str):
                            await getattr(m, api)()
                        else:
                            name, nxt = api
                            await getattr(m, {"retry": "retry", "forceRetry": "force_retry"}[name])(
                                next_retry=None if nxt is None else us_td(nxt))
                    except Exception as e:  # noqa: BLE001
                        # an actor that guards its response with `except Exception` (the usual "on any error …" pattern): a
                        # refusal is an error and goes on as before; the response's own control-flow signal must not be one
                        if not st.get("guard") or type(e).__name__ != "_NoAction":
                            raise
                    run.ev("after_eager", id=mid, k=k)      # must never be reached when the response was accepted
                    return "after-eager"
                raise ValueError(kind)
            finally:
                if st.get("cleanup"):
                    # an actor that does not end the instant it is cancelled (awaits in its finally / __aexit__): it is in
                    # progress until its clean-up is over
                    await asyncio.sleep(st["cleanup"] / 1e6)
                run.running -= 1
                run.ev("actor_end", id=mid, k=k)

        pol = make_policy(self.policy_spec)
        for name, q in self.sc.get("actors", {"act": "default"}).items():
            async def actor(x: int = 0, *, m: MessageDependency, d: Annotated[int, Depends(provider)]):  # type: ignore[no-untyped-def]
                return await body(m, x, d)
            actor.__name__ = name
            self.router.actor(actor, name=name, queue=q, retry_policy=pol, converter=conv)

    # ------------------------------------------------------------------ running
    async def enqueue_all(self) -> None:
        if self.broker_kind != "memory":
            await self.broker.connect()
        for q in set(self.sc.get("actors", {"act": "default"}).values()):
            await self.broker.queue_declare(q)
        for j in self.sc["jobs"]:
            if j.get("at"):
                continue
            await self.enqueue_job(j)

    async def enqueue_job(self, j: dict) -> None:
        if j.get("raw") is not None:
            # message put on the broker directly with the given parameters (e.g. a recurring message that is due now)
            from memrun import mk_params
            from repid.data._key import RoutingKey
            key = RoutingKey(topic=j.get("name", "act"), queue=j.get("queue", "default"), priority=5, id_=j["id"])
            raw = dict(j["raw"])
            if raw.get("result_id"):
                raw["result"] = (raw.pop("result_id"), 86400 * S)
            await self.broker.enqueue(key, '{"x":1}', mk_params(raw))
            return
        payload_kind = j.get("payload", "ok")
        args: Any = {"x": j.get("x", 1)}
        job = Job(j.get("name", "act"), queue=j.get("queue", "default"), id_=j["id"], retries=j.get("retries", 0),
                  timeout=us_td(j.get("timeout", 600 * S)), ttl=us_td(j.get("ttl")),
                  deferred_by=us_td(j.get("defer_by")), deferred_until=vtime.from_us(j.get("defer_until")),
                  args=args if payload_kind != "none" else None, store_result=j.get("store_result", False),
                  result_id=j.get("result_id", "res-" + j["id"]), result_ttl=us_td(j.get("result_ttl", 86400 * S)),
                  use_args_bucketer=j.get("bucket", False), _connection=self.conn)
        if payload_kind == "convFail":
            job.args = '{"x": {"not": "an int"}' if self.sc.get("converter", "basic") == "basic" else '{"x": "not-an-int"}'
        self.jobs[j["id"]] = job
        await job.enqueue()

    def _runner_snap(self):
        r = self.runner
        return (r._limiter._value, len(r._tasks), r._tasks_processed, r.stop_consume_event.is_set())

    def _on_callback(self, idx: int) -> None:
        if self.runner is None:
            return
        s = self._runner_snap()
        if not self.runner_snaps or self.runner_snaps[-1][1] != s:
            self.runner_snaps.append((idx, s, CLOCK.us))
        if self.running > self.limit_seen:
            self.over_limit.append({"cb": idx, "t": CLOCK.us, "running": self.running})
        if self.inject is not None:
            self.inject(idx)

    async def run_worker(self, *, limit=None, tasks_limit=1000, graceful=25.0, horizon_s=120.0, signals=True):
        import repid.worker as rw
        orig_runner = rw._Runner
        me = self
        self.runner = None
        self.runner_snaps: list = []
        self.over_limit: list = []
        self.limit_seen = tasks_limit
        self.inject = getattr(self, "inject", None)

        class SpyRunner(orig_runner):  # type: ignore[misc, valid-type]
            def __init__(self, *a, **kw):
                super().__init__(*a, **kw)
                me.runner = self
                me.ev("runner_created")

            async def process(self, actor, key, payload, parameters):
                # remember which message this task (and the tasks it spawns) is working on: result stores are attributed by it
                _cur_msg.set((key.id_, me.deliver_count.get(key.id_, 1) - 1))     # (id, number of this delivery)
                return await super().process(actor, key, payload, parameters)
        rw._Runner = SpyRunner
        loop = asyncio.get_running_loop()
        self.cb0 = loop.cb_index
        prev_hook = loop.on_callback
        loop.on_callback = self._on_callback
        try:
            return await self._run_worker(limit=limit, tasks_limit=tasks_limit, graceful=graceful, horizon_s=horizon_s,
                                          signals=signals)
        finally:
            rw._Runner = orig_runner
            loop.on_callback = prev_hook

    async def _run_worker(self, *, limit=None, tasks_limit=1000, graceful=25.0, horizon_s=120.0, signals=True):
        w = Worker(routers=[self.router], messages_limit=limit if limit is not None else float("inf"),
                   tasks_limit=tasks_limit, graceful_shutdown_time=graceful,
                   handle_signals=None if signals else [], _connection=self.conn)
        self.worker = w
        self.ev("run_start")
        try:
            await asyncio.wait_for(w.run(), timeout=horizon_s)
            self.ev("run_return")
            return True
        except asyncio.TimeoutError:
            self.ev("run_horizon")
            return False

    def snapshot(self, q: str = "default") -> dict:
        return snap_ids(self.broker, q)

    def msg_params(self, q: str = "default") -> dict:
        """id -> (place, tried, next, ts) for every message present in the queue."""
        if self.broker_kind == "redis":
            import fake_redis
            from repid.data._parameters import Parameters
            snap = fake_redis.server_for("redis://workrun").snapshot()
            out: dict = {}

            def add(short, place):
                mid = short.split(":")[1]
                hs = [h for name, h in snap["hashes"].items() if name.startswith(f"m:{q}:") and name.endswith(":" + short)]
                p = Parameters.decode(hs[0]["parameters"]) if hs and "parameters" in hs[0] else None
                out.setdefault(mid, []).append({"place": place, "tried": None if p is None else p.retries.already_tried,
                                                "next": None if p is None else to_us(p.delay.next_execution_time),
                                                "ts": None if p is None else to_us(p.timestamp)})
            for name, vals in snap["lists"].items():
                if name.startswith(f"q:{q}:"):
                    for v in vals:
                        add(v, "dead" if name.endswith(":dead") else "simple")
            for name, items in snap["zsets"].items():
                if name.startswith(f"q:{q}:"):
                    for m, _s in items:
                        add(m, "delayed")
                elif name == "processing":
                    for m, _s in items:
                        add(m, "processing")
            return out
        if self.broker_kind == "rabbit":
            import json as _json

            import fake_amqp
            from repid.data._parameters import Parameters
            srv = fake_amqp.server_for("amqp://workrun")
            out = {}

            def addm(m, place):
                p = Parameters.decode(_json.loads(m.body)["parameters"])
                out.setdefault(m.properties.message_id, []).append(
                    {"place": place, "tried": p.retries.already_tried, "next": to_us(p.delay.next_execution_time), "ts": to_us(p.timestamp)})
            for name, place in ((q, "simple"), (q + ":delayed", "delayed"), (q + ":dead", "dead")):
                if name in srv.queues:
                    for m in srv.queues[name].ready:
                        addm(m, place)
            for (_cid, _tag), (qn, m) in srv.unacked.items():
                if qn.split(":")[0] == q:
                    addm(m, "processing")
            return out
        dq = self.broker.queues[q]
        out = {}
        for place, msgs in (("simple", list(dq.simple._queue)), ("dead", dq.dead), ("processing", list(dq.processing)),
                            ("delayed", [m for ms in dq.delayed.values() for m in ms])):
            for m in msgs:
                out.setdefault(m.key.id_, []).append(
                    {"place": place, "tried": m.parameters.retries.already_tried,
                     "next": to_us(m.parameters.delay.next_execution_time), "ts": to_us(m.parameters.timestamp)})
        return out


def outcome_sx(st: dict):
    k = st["k"]
    if k == "badret":
        return A("raise")        # an execution whose return value cannot be encoded is a failed execution (body entered)
    if k != "eager":
        return A(k)
    pre = []
    for p in st.get("pre", []):
        pre.append(A(p) if isinstance(p, str) else [A("cb"), p[1], bool(p[2])])
    api = st["api"]
    a = A(api) if isinstance(api, str) else [A(api[0]), NONE if api[1] is None else api[1]]
    return [A("eager"), pre, a]


def deliveries(run: WorkerRun) -> list[dict]:
    """Group the event stream per delivery: for every `deliver` event the broker calls, stores, actor
    entries that belong to it (up to the next delivery of the same id)."""
    out: list[dict] = []
    cur: dict[str, dict] = {}
    by_exec: dict[tuple, dict] = {}
    by_deliv: dict[tuple, dict] = {}
    for e in run.events:
        k = e["kind"]
        if k == "deliver":
            d = {"id": e["id"], "n": e["n"], "t": e["t"], "params": e["params"], "tried": e["tried"], "max": e["max"],
                 "next": e["next"], "ts": e["ts"], "result": e["result"], "recurring": e["recurring"],
                 "calls": [], "stores": [], "body": False, "callbacks": [], "ran": [], "after_eager": False, "call_t": None,
                 "start_t": None, "end_t": None}
            cur[e["id"]] = d
            by_deliv[(e["id"], e["n"])] = d
            out.append(d)
        elif k == "bcall" and e["id"] in cur and e["op"] != "enqueue":
            d = cur[e["id"]]
            d["calls"].append([A("requeue"), e["params"]] if e["op"] == "requeue" else A(e["op"]))
            if d["call_t"] is None:
                d["call_t"] = e["t"]
        elif k == "actor_start" and e["id"] in cur:
            cur[e["id"]]["body"] = True
            cur[e["id"]]["start_t"] = e["t"]
            by_exec[(e["id"], e["k"])] = cur[e["id"]]     # execution k of this id belongs to this delivery
        elif k == "actor_end" and (e["id"], e.get("k")) in by_exec:
            by_exec[(e["id"], e["k"])]["end_t"] = e["t"]
        elif k == "callback" and (e["id"], e.get("k")) in by_exec:
            # (a rejected message may be delivered again while the callbacks of the previous delivery still run)
            d = by_exec[(e["id"], e["k"])]
            d["callbacks"].append(e["cb"])
            d["ran"].append([A("cb"), e["cb"]])
        elif k == "after_eager" and (e["id"], e.get("k")) in by_exec:
            by_exec[(e["id"], e["k"])]["after_eager"] = True
        elif k == "store":
            # attribute the store to the job that owns this result id (latest delivery wins when shared)
            owners = [j["id"] for j in run.sc["jobs"] if j.get("result_id", "res-" + j["id"]) == e["id"] and j["id"] in cur]
            mid = max(owners, key=lambda i: cur[i]["t"]) if owners else None
            own = e.get("owner")
            if own is not None and tuple(own) in by_deliv:
                # the delivery the storing task was processing (the same id may already have been delivered again)
                d = by_deliv[tuple(own)]
                d["stores"].append(bool(e["success"]))
                d["ran"].append([A("store"), bool(e["success"])])
                d.setdefault("store_events", []).append(e)
                continue
            if mid in cur:
                cur[mid]["stores"].append(bool(e["success"]))
                cur[mid]["ran"].append([A("store"), bool(e["success"])])
                cur[mid].setdefault("store_events", []).append(e)
    return out


def fire_signal(loop, sig=signal.SIGINT) -> bool:
    """Deliver a signal by invoking the handler the worker really registered."""
    h = loop._signal_handlers.get(sig)
    if h is None:
        return False
    h._run()
    return True
