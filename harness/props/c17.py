"""C17 — middleware only observes.

Tie: the real wrapper / Middleware / Connection code runs (a) random call-level operation sequences on the
in-memory brokers of one connection while a second connection is alive, with positional / keyword argument
styles and operations that raise (undeclared queue), and (b) whole job lifecycles on two workers of two
connections.  A tracing shim placed *under* each wrapper (`w.fn`) records the tree of wrapped operations that
really executed (nesting, arguments, outcome); recording subscribers record every signal.  The Lean model
`Mw.run` says which signals that tree must emit (theorem `signal_shape`, `nested_silent`); the comparison is
per operation, by argument identity.  Every scenario is run again without any subscriber: results, exceptions,
per-connection operation multisets and final broker state must be the same."""
# NOTE: no `from __future__ import annotations` (actors are declared here).

import implenv  # noqa: F401

import asyncio
import functools
from contextvars import ContextVar

import vtime
from common import A, Model, Result, Rng, parse_sx, pmap, sx

import repid.connections.abc as _abc
from repid import BasicConverter, Connection, InMemoryBucketBroker, InMemoryMessageBroker, Job, Router, Worker
from repid._processor import _Processor
from repid.data._key import RoutingKey
from repid.data._parameters import DelayProperties, Parameters
from repid.data._buckets import ArgsBucket
from repid.middlewares import SUBSCRIBERS_NAMES
from repid.middlewares.wrapper import _middleware_wrapper

RULE = ("call-level: scripts of 6–14 operations over {enqueue, ack, nack, reject, requeue, queue_declare/flush/delete, "
        "get/store/delete_bucket} × argument style {positional, keyword, mixed} × queue {declared, undeclared (raises)} "
        "× subscriber set drawn from 8 kinds; worker-level: 2 connections × 2–5 jobs each over outcomes {ok, raise, retry, "
        "result bucket, args bucket}; a case = one (script | job set, subscriber set), distinct by content")
ASSUMPTIONS = ["in-memory brokers (the wrapper and Middleware code is shared by all brokers; Redis/RabbitMQ nested calls are "
               "covered by the theorem for every operation tree, not exercised)",
               "subscribers raise Exception subclasses (BaseException, e.g. CancelledError, is outside the statement)"]

PARAMS = {
    "enqueue": ["key", "payload", "params"], "requeue": ["key", "payload", "params"],
    "ack": ["key"], "nack": ["key"], "reject": ["key"],
    "queue_declare": ["queue_name"], "queue_flush": ["queue_name"], "queue_delete": ["queue_name"],
    "get_bucket": ["id_"], "store_bucket": ["id_", "payload"], "delete_bucket": ["id_"],
    "consume": [], "actor_run": ["actor", "key", "parameters", "payload", "connection"],
}

CUR: ContextVar = ContextVar("verif_c17_node", default=None)
TAGS: dict = {}


class Node:
    __slots__ = ("name", "owner", "args", "kwargs", "children", "raised", "result", "start", "end", "exc")

    def __init__(self, name, owner, args, kwargs):
        self.name, self.owner, self.args, self.kwargs = name, owner, list(args), dict(kwargs)
        self.children, self.raised, self.result, self.start, self.end, self.exc = [], None, None, None, None, None


class Tracer:
    """Shim under the wrappers: which wrapped operations really executed, nested how, with what outcome."""

    def __init__(self):
        self.top, self.seq, self.signals, self.keep, self.partial = [], 0, [], [], []

    def tick(self):
        self.seq += 1
        return self.seq

    def trace(self, w, owner):
        if getattr(w, "_verif_traced", False):
            return w
        orig, tr = w.fn, self

        @functools.wraps(orig)
        async def traced(*args, **kwargs):
            parent = CUR.get()
            node = Node(w.name, owner() if callable(owner) else owner, args, kwargs)
            (parent.children if parent is not None else tr.top).append(node)
            node.start = tr.tick()
            tok = CUR.set(node)
            try:
                r = await orig(*args, **kwargs)
                node.result, node.raised = r, False
                return r
            except BaseException as e:  # noqa: BLE001
                node.raised, node.exc = True, type(e).__name__
                raise
            finally:
                node.end = tr.tick()
                CUR.reset(tok)
        w.fn = traced
        w._verif_traced = True
        w._verif_orig = orig
        return w


def tok(o) -> str:
    return f"o{id(o)}"


def node_sx(n: Node):
    return [A("op"), n.name, PARAMS[n.name], [tok(a) for a in n.args], [[k, tok(v)] for k, v in n.kwargs.items()],
            [node_sx(c) for c in n.children], bool(n.raised), tok(n.result)]


# ------------------------------------------------------------------------------ subscribers
def make_recorder(tr: Tracer, tag: str, signal: str, slow: bool):
    op = signal.split("_", 1)[1]
    names = PARAMS[op] + (["result"] if signal.startswith("after_") else [])
    missing = object()
    src = f"async def {signal}({', '.join(n + '=missing' for n in names)}):\n    return await _rec(dict({', '.join(n + '=' + n for n in names)}))\n"

    async def _rec(kw):
        kw = {k: v for k, v in kw.items() if v is not missing}
        tr.keep.append(kw)
        entry = tr.tick()
        if slow:
            await asyncio.sleep(0.25)
        tr.signals.append({"tag": tag, "name": signal, "kw": {k: tok(v) for k, v in kw.items()}, "entry": entry,
                           "exit": tr.tick(), "inside": CUR.get() is not None})
    ns = {"missing": missing, "_rec": _rec}
    exec(src, ns)  # noqa: S102
    return ns[signal]


_MISSING = object()


def make_partial_recorder(tr: Tracer, tag: str, signal: str):
    """a subscriber that declares only ONE of the signal's arguments, with a default (`async def after_enqueue(result=None)`): it
    is called with that argument alone"""
    op = signal.split("_", 1)[1]
    names = PARAMS[op] + (["result"] if signal.startswith("after_") else [])
    if not names:
        return None
    only = names[-1]
    missing = object()

    async def _rec(v):
        tr.partial.append({"tag": tag, "name": signal, "got": v is not missing})

    def _rec_sync(v):
        tr.partial.append({"tag": tag, "name": signal, "got": v is not missing})
    ns = {"missing": missing, "_rec": _rec, "_rec_sync": _rec_sync}
    if len(signal) % 2:
        # every other one is a plain function (run by the library in a thread: it closes over the tracer, as subscribers do)
        exec(f"def {signal}({only}=missing):\n    return _rec_sync({only})\n", ns)  # noqa: S102
    else:
        exec(f"async def {signal}({only}=missing):\n    return await _rec({only})\n", ns)  # noqa: S102
    return ns[signal]


NOISE_KINDS = ["async-raise", "sync-raise", "slow", "partial", "kwonly", "varkw", "sync-ok", "returns"]


def make_noise(kind: str, signal: str, counter: dict):
    op = signal.split("_", 1)[1]
    first = (PARAMS[op] + ["result"])[0] if (PARAMS[op] or signal.startswith("after_")) else None

    def bump():
        counter[kind] = counter.get(kind, 0) + 1
    if kind == "async-raise":
        async def f():
            bump()
            raise RuntimeError("subscriber failure: unexpected payload {'user': 1} {} {0} {")      # (text with braces)
    elif kind == "sync-raise":
        def f():
            bump()
            raise KeyError({"missing": "{key}"})
    elif kind == "slow":
        async def f():
            bump()
            await asyncio.sleep(0.7)
    elif kind == "partial" and first is not None and (first != "result" or signal.startswith("after_")):
        ns = {"bump": bump}
        exec(f"async def f({first}):\n    bump()\n", ns)  # noqa: S102
        f = ns["f"]
    elif kind == "kwonly":
        async def f(*, not_a_signal_argument):  # the wrapper filters it away: TypeError inside, swallowed
            bump()
    elif kind == "varkw":
        async def f(**kw):
            bump()
            assert kw == {}
    elif kind == "sync-ok":
        def f():
            bump()
    else:
        async def f():
            bump()
            return 42
    f.__name__ = signal
    return f


def build_conn(tr: Tracer, tag: str, subs: dict, counter: dict) -> Connection:
    mb = InMemoryMessageBroker()
    ab = InMemoryBucketBroker()
    rb = InMemoryBucketBroker(use_result_bucket=True)
    conn = Connection(mb, ab, rb)
    for b, part in ((mb, "mb"), (ab, "ab"), (rb, "rb")):
        for m in b.__WRAPPED_METHODS__:
            tr.trace(getattr(b, m), tag)
    if subs.get("recorders", True):
        objs: list = []
        for s in sorted(SUBSCRIBERS_NAMES):
            conn.middleware.add_subscriber(make_recorder(tr, tag, s, slow=subs.get("slow_recorder", False)))
            pr = make_partial_recorder(tr, tag, s)
            if pr is not None and len(s) % 3:
                conn.middleware.add_subscriber(pr)
            elif pr is not None:
                objs.append((s, pr))
        if objs:
            # … and a third of them as methods of a middleware OBJECT (`add_middleware` collects the methods named like signals)
            ns = {}
            for sname, fn in objs:
                only = (PARAMS[sname.split("_", 1)[1]] + (["result"] if sname.startswith("after_") else []))[-1]
                sync = not asyncio.iscoroutinefunction(fn)
                ns["_f_" + sname] = fn
                exec(("def" if sync else "async def") + f" {sname}(self, {only}=_MISSING):\n    return " + ("" if sync else "await ") +
                     f"_f_{sname}(*(() if {only} is _MISSING else ({only},)))\n", dict(ns, _MISSING=_MISSING), ns)  # noqa: S102
            cls = type("RecordingMiddleware", (), {k: v for k, v in ns.items() if not k.startswith("_")})
            conn.middleware.add_middleware(cls())
    for kind, signal in subs.get("noise", []):
        conn.middleware.add_subscriber(make_noise(kind, signal, counter))
    TAGS[id(conn)] = tag
    TAGS[id(mb)] = tag
    tr.keep.append(conn)
    return conn


# ------------------------------------------------------------------------------ canonical state
def pcanon(p) -> str:
    return "-" if p is None else p.encode()


def state_of(conn: Connection, strip_time: bool = False, sort_lists: bool = False) -> dict:
    import json
    import re
    out = {}
    for q, dq in conn.message_broker.queues.items():
        def m3(m):
            return [m.key.id_, m.key.topic, m.payload, pcanon(m.parameters)]
        out[q] = {"simple": (sorted if sort_lists else list)(m3(m) for m in dq.simple._queue),
                  "dead": (sorted if sort_lists else list)(m3(m) for m in dq.dead),
                  "processing": sorted(m3(m) for m in dq.processing),
                  "delayed": (sorted(m3(m) for v in dq.delayed.values() for m in v) if strip_time
                              else sorted([str(k)] + [m3(m) for m in v] for k, v in dq.delayed.items()))}
    for nm, b in (("ab", conn.args_bucket_broker), ("rb", conn.results_bucket_broker)):
        st = b._InMemoryBucketBroker__storage
        out["bucket:" + nm] = {k: v.encode() for k, v in sorted(st.items())}
    if strip_time:
        s = json.dumps(out, sort_keys=True)
        s = re.sub(r'\\"(started_when|finished_when|timestamp|delay_until|next_execution_time)\\": ?\\?"?[-0-9T:. ]+\\?"?', r'\\"\1\\": T', s)
        out = json.loads(s)
        # `processing` is a set of message objects: two messages that differ in their timestamps only are two members when time
        # passed between them (slow subscribers) and one when it did not — with the times stripped they are compared as a set
        for q in conn.message_broker.queues:
            seen, uniq = set(), []
            for m in out[q]["processing"]:
                k = json.dumps(m, sort_keys=True)
                if k not in seen:
                    seen.add(k)
                    uniq.append(m)
            out[q]["processing"] = uniq
    return out


# ------------------------------------------------------------------------------ call-level scripts
def gen_script(rng: Rng) -> list:
    ops = []
    n = rng.randint(6, 14)
    ids = [f"m{i}" for i in range(4)]
    for _ in range(n):
        kind = rng.choice(["enqueue"] * 4 + ["ack", "nack", "reject", "requeue", "requeue", "queue_declare", "queue_flush",
                                              "queue_delete", "get_bucket", "store_bucket", "store_bucket", "delete_bucket",
                                              "take"])
        q = rng.choice(["q", "q", "q", "undeclared"])
        ops.append({"op": kind, "queue": q, "id": rng.choice(ids), "style": rng.choice(["pos", "kw", "mixed"]),
                    "payload": rng.choice(["", "{}", '{"x": 1}']), "delay": rng.choice([None, None, 5]),
                    "bucket": rng.choice(["b1", "b2"]), "which": rng.choice(["ab", "rb"])})
    return ops


def gen_subs(rng: Rng) -> dict:
    noise = []
    sigs = sorted(SUBSCRIBERS_NAMES)
    for _ in range(rng.choice([0, 2, 6, 12, 30])):
        noise.append((rng.choice(NOISE_KINDS), rng.choice(sigs)))
    return {"recorders": True, "slow_recorder": rng.random() < 0.4, "noise": noise}


async def run_script(script: list, subs: dict) -> dict:
    from datetime import timedelta
    tr = Tracer()
    counter: dict = {}
    conn = build_conn(tr, "A", subs, counter)
    other = build_conn(tr, "B", dict(subs, noise=[]), counter)     # a second connection alive in the process
    mb = conn.message_broker
    outcomes = []
    # quiet set-up (through the unwrapped functions, so that it does not appear in the trace)
    await mb.queue_declare._verif_orig("q")
    await other.message_broker.queue_declare._verif_orig("q")
    for o in script:
        key = RoutingKey(id_=o["id"], topic="t", queue=o["queue"])
        params = Parameters() if o["delay"] is None else Parameters(delay=DelayProperties(defer_by=timedelta(seconds=o["delay"])))
        kind, style = o["op"], o["style"]
        if kind == "take":     # move a waiting message to `processing` as a consumer would (not a wrapped operation)
            dq = mb.queues.get("q")
            if dq is not None and not dq.simple.empty():
                dq.processing.add(dq.simple.get_nowait())
            outcomes.append(["take"])
            continue
        if kind in ("enqueue", "requeue"):
            fn, full = getattr(mb, kind), [("key", key), ("payload", o["payload"]), ("params", params)]
        elif kind in ("ack", "nack", "reject"):
            fn, full = getattr(mb, kind), [("key", key)]
        elif kind.startswith("queue_"):
            fn, full = getattr(mb, kind), [("queue_name", o["queue"])]
        else:
            b = conn.args_bucket_broker if o["which"] == "ab" else conn.results_bucket_broker
            fn = getattr(b, kind)
            full = [("id_", o["bucket"])]
            if kind == "store_bucket":
                full.append(("payload", ArgsBucket(data=o["payload"], timestamp=vtime.from_us(0))))
        npos = {"pos": len(full), "kw": 0, "mixed": 1}[style]
        args, kwargs = [v for _, v in full[:npos]], dict(full[npos:])
        try:
            r = await fn(*args, **kwargs)
            outcomes.append(["ok", None if r is None else r.encode()])
        except Exception as e:  # noqa: BLE001
            outcomes.append(["raised", type(e).__name__])
    return {"tracer": tr, "outcomes": outcomes, "state": state_of(conn, True), "other_state": state_of(other, True), "counter": counter}


# ------------------------------------------------------------------------------ worker-level scenarios
def gen_jobs(rng: Rng) -> dict:
    def jobs(prefix):
        return [{"id": f"{prefix}{i}", "kind": rng.choice(["ok", "ok", "raise", "retry", "result", "argsbucket"])}
                for i in range(rng.randint(2, 5))]
    return {"A": jobs("a"), "B": jobs("b"), "order": rng.choice(["AB", "BA"])}


async def run_workers(sc: dict, subs: dict) -> dict:
    tr = Tracer()
    counter: dict = {}
    # consumers are created inside Worker.run: trace every wrapper the ABC machinery makes from now on
    orig_mw = _abc.middleware_wrapper

    def tracing_mw(fn=None, name=None):
        w = orig_mw(fn, name)
        if isinstance(w, _middleware_wrapper) and w.name == "consume":
            obj = getattr(fn, "__self__", None)
            tr.trace(w, lambda obj=obj: TAGS.get(id(getattr(obj, "broker", None)), "?"))
        return w
    _abc.middleware_wrapper = tracing_mw
    ar = _Processor.actor_run
    ar_orig_fn = ar.fn
    ar._verif_traced = False
    try:
        conns = {t: build_conn(tr, t, subs if t == "A" else dict(subs, noise=[]), counter) for t in ("A", "B")}
        # actor_run: the owner of an execution is the connection it is passed
        orig = ar.fn

        @functools.wraps(orig)
        async def traced_ar(*args, **kwargs):
            parent = CUR.get()
            conn = kwargs.get("connection", args[4] if len(args) > 4 else None)
            node = Node("actor_run", TAGS.get(id(conn), "?"), args, kwargs)
            (parent.children if parent is not None else tr.top).append(node)
            node.start = tr.tick()
            tk = CUR.set(node)
            try:
                r = await orig(*args, **kwargs)
                node.result, node.raised = r, False
                return r
            except BaseException as e:  # noqa: BLE001
                node.raised, node.exc = True, type(e).__name__
                raise
            finally:
                node.end = tr.tick()
                CUR.reset(tk)
        ar.fn = traced_ar
        ran = []
        workers = {}
        for t in sc["order"]:
            conn = conns[t]
            r = Router()

            def mk(t=t):
                async def act(kind: str = "ok", n: int = 0) -> int:
                    ran.append((t, kind, n))
                    if kind == "raise" or kind == "retry":
                        raise RuntimeError("actor failure")
                    return n
                return act
            r.actor(mk(), name="act", queue="q" + t, converter=BasicConverter)
            workers[t] = Worker(routers=[r], handle_signals=[], _connection=conn)
            await conn.message_broker.queue_declare._verif_orig("q" + t)
        setup_errors: list = []
        for t in ("A", "B"):
            for i, j in enumerate(sc[t]):
                job = Job("act", queue="q" + t, id_=j["id"], args={"kind": j["kind"], "n": i},
                          retries=1 if j["kind"] == "retry" else 0,
                          use_args_bucketer=j["kind"] == "argsbucket",
                          store_result=j["kind"] == "result", args_id=("args-" + j["id"]) if j["kind"] == "argsbucket" else None, result_id="res-" + j["id"],
                          _connection=conns[t])
                try:
                    await job.enqueue()
                except Exception as e:  # noqa: BLE001
                    setup_errors.append([j["id"], repr(e)])
        n_setup = len(tr.top)
        tasks = [asyncio.ensure_future(workers[t].run()) for t in sc["order"]]
        await asyncio.sleep(40)
        for t in tasks:
            t.cancel()
        await asyncio.gather(*tasks, return_exceptions=True)
        errors = [repr(t.exception()) for t in tasks if t.done() and not t.cancelled() and t.exception() is not None]
        return {"tracer": tr, "ran": sorted(ran), "state": {t: state_of(c, strip_time=True, sort_lists=True) for t, c in conns.items()},   # (which job finishes first is timing)
                "errors": errors, "counter": counter, "n_setup": n_setup, "setup_errors": setup_errors}
    finally:
        _abc.middleware_wrapper = orig_mw
        ar.fn = ar_orig_fn
        ar._repid_signal_emitter = None


# ------------------------------------------------------------------------------ judging
def judge(tr: Tracer, model: Model, res: Result, case: dict, two_workers: bool) -> None:
    """signals recorded vs the model's signals for the traced operation trees"""
    reqs = [sx([A("mw.run"), True, False, node_sx(n)]) for n in tr.top]
    ans = model.ask(reqs)
    res.extra["model_requests"] = res.extra.get("model_requests", 0) + len(ans)
    # subscribers that declare one argument only (with a default) are called as often as the ones that declare them all, and
    # receive that argument
    import collections as _c
    full = _c.Counter((s["tag"], s["name"]) for s in tr.signals if PARAMS[s["name"].split("_", 1)[1]] or s["name"].startswith("after_"))
    part = _c.Counter((s["tag"], s["name"]) for s in tr.partial if s["got"])
    if full != part:
        diff = {f"{k[0]}:{k[1]}": [full.get(k, 0), part.get(k, 0)] for k in set(full) | set(part) if full.get(k, 0) != part.get(k, 0)}
        res.bad("impl", "a subscriber that declares only one of a signal's arguments (with a default) was not called with that argument as "
                        "often as the signal was emitted", case=case, observed=diff, expected="equal counts [full-signature subscriber, one-argument subscriber]")
    unmatched = {t: [s for s in tr.signals if s["tag"] == t] for t in ("A", "B")}
    for n, a in zip(tr.top, ans):
        exp = [(str(e[0]), {str(k): str(v) for k, v in e[1]}) for e in parse_sx(a)]
        res.dist["op:" + n.name + (":raised" if n.raised else "")] += 1
        res.dist["nested:" + str(len(n.children))] += 1
        styles = "pos" if n.args and not n.kwargs else ("kw" if n.kwargs and not n.args else ("mixed" if n.args else "none"))
        res.dist["style:" + styles] += 1
        res.evaluations += 1
        ocase = dict(case, operation={"name": n.name, "owner": n.owner, "raised": n.raised, "exc": n.exc,
                                      "nested": [c.name for c in n.children]})
        finding = None
        pool = unmatched.get(n.owner, [])
        for name, kw in exp:
            before = name.startswith("before_")
            hit = None
            for s in pool:
                if s["name"] == name and s["kw"] == kw and ((before and s["exit"] < n.start) or (not before and s["entry"] > n.end)):
                    hit = s
                    break
            if hit is None:
                near = [s for s in tr.signals if s["name"] == name and s["kw"].keys() == kw.keys()
                        and all(s["kw"][k] == kw[k] for k in kw)]
                what = ("a wrapped operation's signal was not delivered to the subscribers of its own connection "
                        "(exactly once, with its arguments by name, 'before' finished before the operation started and "
                        "'after' emitted after it ended)")
                res.bad("impl", what, case=ocase, expected={"signal": name, "to": n.owner, "arguments": sorted(kw)},
                        observed=[{"to": s["tag"], "entry": s["entry"], "exit": s["exit"], "op": [n.start, n.end]} for s in near]
                        or "no such signal anywhere", finding=finding)
            else:
                pool.remove(hit)
    for t, rest in unmatched.items():
        for s in rest:
            finding = None
            res.bad("impl", "a signal was delivered that no top-level operation of that connection accounts for "
                            "(nested operation, repeated signal, or another connection's operation)",
                    case=case, observed={"to": t, "signal": s["name"], "arguments": sorted(s["kw"]), "inside_operation": s["inside"]},
                    finding=finding)


def multiset(tr: Tracer) -> list:
    out = []
    for n in tr.top:
        a = [x.id_ if hasattr(x, "id_") and hasattr(x, "queue") else (x if isinstance(x, str) else type(x).__name__)
             for x in list(n.args) + [v for _, v in sorted(n.kwargs.items())]]
        out.append([n.owner, n.name, [str(i) for i in a[:2]], bool(n.raised) and n.exc != "CancelledError"])
    return sorted(out, key=repr)


def one_script(arg):
    seed, i = arg
    res = Result("C17")
    model = Model()
    rng = Rng(seed, f"c17/script/{i}")
    script, subs = gen_script(rng), gen_subs(rng)
    case = {"label": f"script-{seed}-{i}", "script": script, "subscribers": subs}
    o = vtime.run(lambda loop: run_script(script, subs), budget=5_000_000)
    base = vtime.run(lambda loop: run_script(script, {"recorders": False, "noise": []}), budget=5_000_000)
    res.note(("script", repr(script), repr(subs)), sample=case if i < 2 else None)
    for k in o["counter"]:
        res.dist["noise:" + k] += o["counter"][k]
    judge(o["tracer"], model, res, case, False)
    if o["outcomes"] != base["outcomes"]:
        d = next(j for j, (x, y) in enumerate(zip(o["outcomes"], base["outcomes"])) if x != y)
        res.bad("impl", "an operation's result / exception differs with subscribers from without", case=dict(case, index=d),
                observed=o["outcomes"][d], expected=base["outcomes"][d])
    if o["state"] != base["state"] or o["other_state"] != base["other_state"]:
        res.bad("impl", "broker state after the script differs with subscribers from without", case=case,
                observed=o["state"], expected=base["state"])
    if base["tracer"].signals:
        res.bad("corr", "signals recorded on a connection without subscribers", case=case)
    res.dist["ops"] += len(script)
    return res


def one_workers(arg):
    seed, i = arg
    res = Result("C17")
    model = Model()
    rng = Rng(seed, f"c17/workers/{i}")
    sc, subs = gen_jobs(rng), gen_subs(rng)
    case = {"label": f"workers-{seed}-{i}", "jobs": sc, "subscribers": subs}
    o = vtime.run(lambda loop: run_workers(sc, subs), budget=20_000_000)
    base = vtime.run(lambda loop: run_workers(sc, {"recorders": False, "noise": []}), budget=20_000_000)
    res.note(("workers", repr(sc), repr(subs)), sample=case if i < 1 else None)
    for k in o["counter"]:
        res.dist["noise:" + k] += o["counter"][k]
    judge(o["tracer"], model, res, case, True)
    if o["setup_errors"] != base["setup_errors"]:
        res.bad("impl", "enqueueing a job raised with subscribers but not without (or the reverse)", case=case,
                observed=o["setup_errors"], expected=base["setup_errors"])
    if o["errors"] or base["errors"]:
        res.bad("impl", "a worker died", case=case, observed=o["errors"] or base["errors"])
    if o["ran"] != base["ran"]:
        res.bad("impl", "actor executions differ with subscribers from without", case=case, observed=o["ran"], expected=base["ran"])
    if multiset(o["tracer"]) != multiset(base["tracer"]):
        a, b = multiset(o["tracer"]), multiset(base["tracer"])
        res.bad("impl", "the operations performed over the job lifecycles differ with subscribers from without", case=case,
                observed=[x for x in a if x not in b][:6], expected=[x for x in b if x not in a][:6])
    if o["state"] != base["state"]:
        res.bad("impl", "final broker / bucket state differs with subscribers from without", case=case,
                observed=o["state"], expected=base["state"])
    res.dist["jobs"] += len(sc["A"]) + len(sc["B"])
    return res


async def names_walk(kind: str) -> list:
    """every wrapped operation of the message broker and the bucket brokers of one kind, called once by its public name: the
    signals it emits must bear that name (before_<op>, then after_<op>), on every broker implementation"""
    import fake_amqp
    import fake_redis
    fake_redis.install()
    fake_amqp.install()
    fake_redis.reset_servers()
    fake_amqp.reset_servers()
    from repid import RabbitMessageBroker, RedisBucketBroker, RedisMessageBroker
    if kind == "mem":
        mb, ab, rb = InMemoryMessageBroker(), InMemoryBucketBroker(), InMemoryBucketBroker(use_result_bucket=True)
    elif kind == "redis":
        mb, ab, rb = RedisMessageBroker("redis://c17"), RedisBucketBroker("redis://c17-a"), RedisBucketBroker("redis://c17-r", use_result_bucket=True)
    else:
        mb, ab, rb = RabbitMessageBroker("amqp://c17"), InMemoryBucketBroker(), InMemoryBucketBroker(use_result_bucket=True)
    conn = Connection(mb, ab, rb)
    seen: list = []

    def mk(sig):
        async def f():
            seen.append(sig)
        f.__name__ = sig
        return f
    for sname in sorted(SUBSCRIBERS_NAMES):
        conn.middleware.add_subscriber(mk(sname))
    await conn.connect()
    key = RoutingKey(id_="n1", topic="t", queue="nq")
    bucket = ArgsBucket(data="{}", timestamp=vtime.from_us(0))
    from repid.data._buckets import ResultBucket
    rbucket = ResultBucket(data="1", started_when=1, finished_when=2, timestamp=vtime.from_us(0))
    cons = None
    walk = [(mb, "queue_declare", ("nq",)), (mb, "enqueue", (key, "{}", Parameters())), ("consume", None, None),
            (mb, "requeue", (key, "{}", Parameters())), ("consume", None, None), (mb, "reject", (key,)), ("consume", None, None),
            (mb, "nack", (key,)), (mb, "enqueue", (RoutingKey(id_="n2", topic="t", queue="nq"), "", Parameters())), ("consume", None, None),
            (mb, "ack", (RoutingKey(id_="n2", topic="t", queue="nq"),)), (mb, "queue_flush", ("nq",)), (mb, "queue_delete", ("nq",)),
            (ab, "store_bucket", ("b1", bucket)), (ab, "get_bucket", ("b1",)), (ab, "delete_bucket", ("b1",)),
            (rb, "store_bucket", ("b2", rbucket)), (rb, "get_bucket", ("b2",)), (rb, "delete_bucket", ("b2",))]
    out = []
    for obj, name, args in walk:
        del seen[:]
        if obj == "consume":
            if cons is None:
                cons = mb.get_consumer("nq", None)
                await cons.start()
            try:
                await asyncio.wait_for(cons.consume(), 2)
            except asyncio.TimeoutError:
                pass
            out.append(["consume", [x for x in seen if "consume" in x]])
            continue
        try:
            await getattr(obj, name)(*args)
            err = None
        except Exception as e:  # noqa: BLE001
            err = type(e).__name__
        out.append([name, list(seen), err])
    if cons is not None:
        await cons.finish()
    await conn.disconnect()
    return out


def one_names(kind: str) -> Result:
    res = Result("C17")
    rows = vtime.run(lambda loop: names_walk(kind), budget=20_000_000)
    for row in rows:
        name, sigs = row[0], row[1]
        res.dist[f"names-walk:{kind}"] += 1
        res.note(("names-walk", kind, name))
        res.evaluations += 1
        want = [f"before_{name}", f"after_{name}"]
        if sigs != want:
            res.bad("impl", "an operation called by its public name emitted other signals than before_<that name>, after_<that name> "
                            "(exactly once each)", case={"label": "names-walk", "broker": kind, "operation": name},
                    observed=sigs + ([f"raised {row[2]}"] if len(row) > 2 and row[2] else []), expected=want)
    return res


def run(ctx) -> Result:
    tier, seed = ctx["tier"], ctx["seed"]
    res = Result("C17")
    deep = tier == "thorough" or ctx.get("search")
    items = [("s", seed, i) for i in range(240 if deep else 48)] + [("w", seed, i) for i in range(60 if deep else 12)]
    items += [("n", seed, k) for k in ("mem", "redis", "rabbit")]
    for r in pmap(_one, items):
        res.merge(r)
    return res


def _one(item):
    kind, seed, i = item
    if kind == "n":
        return one_names(i)
    return one_script((seed, i)) if kind == "s" else one_workers((seed, i))


def search(ctx) -> Result:
    return run(dict(ctx, tier="thorough"))
