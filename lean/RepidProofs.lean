-- Root of the proof library: property theorems (Props/) and helper lemmas (Proofs/).
import RepidProofs.Props.C19
import RepidProofs.Props.C01
import RepidProofs.Props.C05
import RepidProofs.Props.C12
import RepidProofs.Props.C14
import RepidProofs.Props.C15
import RepidProofs.Props.C02
import RepidProofs.Props.C04
import RepidProofs.Props.C06
import RepidProofs.Props.C13
import RepidProofs.Props.C16
import RepidProofs.Props.C09
import RepidProofs.Props.C10
import RepidProofs.Props.C03
import RepidProofs.Props.C07
import RepidProofs.Props.C08
import RepidProofs.Props.C11
