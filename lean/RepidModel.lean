-- Root of the executable, import-free model library.
import RepidModel.Base.Sexp
import RepidModel.Base.Wire
import RepidModel.Sched
import RepidModel.Generated.Config
import RepidModel.Pred.C19
import RepidModel.Driver.Sched
import RepidModel.Broker.InMemory
import RepidModel.Broker.MemHistory
import RepidModel.Pred.C01
import RepidModel.Pred.Broker
import RepidModel.Driver.State
import RepidModel.Driver.Mem
import RepidModel.Worker.Processor
import RepidModel.Worker.Chain
import RepidModel.Pred.Worker
import RepidModel.Worker.Runner
import RepidModel.Driver.Worker
