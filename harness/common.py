"""Shared harness pieces: S-expression wire format, model driver, result/evidence bookkeeping."""
from __future__ import annotations

import json
import os
import random
import subprocess
import sys
import time
from collections import Counter
from dataclasses import dataclass, field
from pathlib import Path
from typing import Any, Iterable

VERIF = Path(__file__).resolve().parent.parent
REPO = Path(os.environ.get("REPID_REPO", "/repo"))
LEAN_DIR = VERIF / "lean"
MODEL_BIN = LEAN_DIR / ".lake" / "build" / "bin" / "repid_model"


# ----------------------------------------------------------------------------- S-expressions
class Atom(str):
    """A bare token (identifier / number)."""


def A(x: Any) -> Atom:  # noqa: N802
    return Atom(str(x))


NONE = Atom("none")


def sx(x: Any) -> str:
    """Render a Python value as an S-expression.
    Atom -> bare; str -> quoted; bool/int -> bare; None -> none; list/tuple -> (…)."""
    if isinstance(x, Atom):
        return str(x)
    if x is None:
        return "none"
    if isinstance(x, bool):
        return "true" if x else "false"
    if isinstance(x, int):
        return str(x)
    if isinstance(x, str):
        return '"' + x.replace("\\", "\\\\").replace('"', '\\"').replace("\n", "\\n").replace("\r", "\\r") + '"'
    if isinstance(x, (list, tuple)):
        return "(" + " ".join(sx(i) for i in x) + ")"
    raise TypeError(f"cannot render {x!r}")


def parse_sx(s: str) -> Any:
    """Parse an S-expression answer into nested lists of Atom / str."""
    pos = 0
    n = len(s)

    def skip() -> None:
        nonlocal pos
        while pos < n and s[pos] in " \t\r\n":
            pos += 1

    def rd() -> Any:
        nonlocal pos
        skip()
        if pos >= n:
            raise ValueError("eof")
        c = s[pos]
        if c == "(":
            pos += 1
            out = []
            while True:
                skip()
                if pos >= n:
                    raise ValueError("eof in list")
                if s[pos] == ")":
                    pos += 1
                    return out
                out.append(rd())
        if c == '"':
            pos += 1
            buf = []
            while s[pos] != '"':
                if s[pos] == "\\":
                    pos += 1
                    buf.append("\n" if s[pos] == "n" else ("\r" if s[pos] == "r" else s[pos]))
                else:
                    buf.append(s[pos])
                pos += 1
            pos += 1
            return "".join(buf)
        st = pos
        while pos < n and s[pos] not in ' \t\r\n()"':
            pos += 1
        return Atom(s[st:pos])

    v = rd()
    skip()
    if pos != n:
        raise ValueError(f"trailing input in {s!r}")
    return v


# ----------------------------------------------------------------------------- model driver
class Model:
    """Batch interface to the compiled Lean driver: send N request lines, get N answer lines."""

    def __init__(self) -> None:
        if not MODEL_BIN.exists():
            raise RuntimeError(f"model driver not built: {MODEL_BIN}")
        self.requests = 0

    def ask(self, lines: list[str]) -> list[str]:
        if not lines:
            return []
        for ln in lines:
            if "\n" in ln:
                raise ValueError("newline inside request line")
        p = subprocess.run(
            [str(MODEL_BIN)],
            input="\n".join(lines) + "\n",
            capture_output=True,
            text=True,
            timeout=600,
            check=False,
        )
        if p.returncode != 0:
            raise RuntimeError(f"model driver failed rc={p.returncode}: {p.stderr[:500]}")
        out = p.stdout.split("\n")
        if out and out[-1] == "":
            out.pop()
        if len(out) != len(lines):
            raise RuntimeError(f"model driver answered {len(out)} lines for {len(lines)} requests")
        self.requests += len(lines)
        return out

    def ask1(self, line: str) -> str:
        return self.ask([line])[0]


# ----------------------------------------------------------------------------- results
@dataclass
class Problem:
    """One thing that went wrong.  kind:
       'impl'  — the property predicate is false on an implementation trace (a concrete failing input)
       'corr'  — model and implementation disagree on a compared boundary
       'proof' — a proof obligation for this property no longer checks"""
    kind: str
    what: str                       # theorem or comparison name
    case: Any = None                # replayable case (JSON-serialisable)
    observed: Any = None
    expected: Any = None
    finding: str | None = None      # known-finding id this case is attributed to (by trigger)


@dataclass
class Result:
    property_id: str
    evaluations: int = 0
    cases: set = field(default_factory=set)          # canonical keys of distinct non-trivial cases
    samples: list = field(default_factory=list)
    dist: Counter = field(default_factory=Counter)
    problems: list[Problem] = field(default_factory=list)
    findings_seen: dict = field(default_factory=dict)   # finding id -> description (confirmed on impl)
    extra: dict = field(default_factory=dict)
    rule: str = ""
    exhaustive: bool = False
    assumptions: list = field(default_factory=list)

    def note(self, key: Any, nontrivial: bool = True, sample: Any = None, n: int = 1) -> None:
        self.evaluations += n
        if nontrivial:
            self.cases.add(key if isinstance(key, (str, int, tuple)) else json.dumps(key, sort_keys=True, default=str))
        if sample is not None and len(self.samples) < 6:
            self.samples.append(sample)

    def bad(self, kind: str, what: str, case: Any = None, observed: Any = None, expected: Any = None,
            finding: str | None = None) -> None:
        self.problems.append(Problem(kind, what, case, observed, expected, finding))

    def merge(self, other: "Result") -> None:
        self.evaluations += other.evaluations
        self.cases |= other.cases
        for s in other.samples:
            if len(self.samples) < 6:
                self.samples.append(s)
        self.dist.update(other.dist)
        self.problems.extend(other.problems)
        self.findings_seen.update(other.findings_seen)
        for k, v in other.extra.items():
            if isinstance(v, (int, float)) and isinstance(self.extra.get(k), (int, float)):
                self.extra[k] += v
            else:
                self.extra.setdefault(k, v)


class Rng(random.Random):
    """One PRNG per run; every random choice in a check derives from it."""

    def __init__(self, seed: int, salt: str = "") -> None:
        super().__init__(f"{seed}/{salt}")


def tier_scale(tier: str, quick: int, thorough: int) -> int:
    return thorough if tier == "thorough" else quick


def jsonable(x: Any) -> Any:
    try:
        json.dumps(x)
        return x
    except TypeError:
        if isinstance(x, dict):
            return {str(k): jsonable(v) for k, v in x.items()}
        if isinstance(x, (list, tuple, set, frozenset)):
            return [jsonable(i) for i in x]
        return repr(x)


def pmap(fn, items: list, procs: int | None = None) -> list:
    """Run fn over items in forked worker processes (order preserved). fn and its results must be picklable."""
    import multiprocessing as mp
    n = procs or int(os.environ.get("VERIF_PROCS", "0") or 0) or min(16, os.cpu_count() or 1)
    if n <= 1 or len(items) <= 1:
        return [fn(x) for x in items]
    ctx = mp.get_context("fork")
    with ctx.Pool(min(n, len(items))) as pool:
        return pool.map(fn, items, chunksize=1)
