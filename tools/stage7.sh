#!/bin/bash
# tools/stage7.sh <Cxx> <letter> <round-dir-prefix>: copy a sub-agent's deliverables into seeded_staging and drop its worktree
id=$1; L=$2; pre=${3:-mut7}
mkdir -p seeded_staging/$id
cp /tmp/${pre}_$id/_out/change.diff seeded_staging/$id/$L.diff && cp /tmp/${pre}_$id/_out/demo.py seeded_staging/$id/demo_$L.py && cp /tmp/${pre}_$id/_out/report.json seeded_staging/$id/$L.json && git -C /repo worktree remove --force /tmp/${pre}_$id
