/-
C19 property predicates — defined once, used twice: the theorems in RepidProofs/Props/C19.lean
prove them for every model value; the driver evaluates the same definitions on values returned by
the implementation.
-/
import RepidModel.Sched

namespace Repid.Pred.C19

/-- back-off value `v` (seconds) lies in `[min_backoff, max_backoff]` and fits a timedelta. -/
def backoffOk (minB maxB v : Nat) : Bool := decide (minB ≤ v) && decide (v ≤ maxB) && decide (v < 86399999999999)

/-- consecutive retry numbers: non-decreasing. -/
def monoOk (v1 v2 : Nat) : Bool := decide (v1 ≤ v2)

/-- `now < next ≤ now + period`. -/
def windowOk (now p next : Int) : Bool := decide (now < next) && decide (next ≤ now + p)

/-- `next` is a whole number of periods after the time base. -/
def gridOk (ts p next : Int) : Bool := (next - ts) % p == 0

/-- the value returned for a periodic job: `deferred_until` while ahead, else window ∧ grid. -/
def nextOk (ts now p : Int) (delayUntil : Option Int) (next : Option Int) : Bool :=
  match next with
  | none => false
  | some t =>
    match delayUntil with
    | some d => if d > now then t == d else windowOk now p t && gridOk ts p t
    | none => windowOk now p t && gridOk ts p t

/-- expiry flag `b` agrees with `now > timestamp + ttl` (no ttl: never). -/
def overdueOk (now ts : Int) (ttl : Option Int) (b : Bool) : Bool :=
  match ttl with
  | none => b == false
  | some t => b == decide (now > ts + t)

end Repid.Pred.C19
