/-
C18 — dependencies resolve to exactly what their providers return.
Model: RepidModel/Deps/Resolve.lean (+ Conv.call for "an accepted declaration can be called",
Worker.process for "a provider failure is a failed execution").
-/
import RepidModel.Deps.Resolve
import RepidModel.Worker.Processor
import RepidProofs.Proofs.ConvCall
import RepidProofs.Props.C02

namespace Repid.C18
open Repid Deps

/-! ### SPEC: what a dependency parameter must receive (written as a relation, without fuel) -/

mutual
/-- `Denotes e r v`: `v` is the value of reference `r` — the message dependency itself, or what the current
    provider of the `Depends` object returns when called with the values of its own sub-dependencies -/
inductive Denotes (e : Env) : Ref → Val → Prop
  | msg : Denotes e .msg .msg
  | prov (k : Nat) (p : Provider) (kw : List (String × Val)) :
      e.get k = some p → p.fails = false → DenotesAll e p.refs (subNames p.sig) kw →
      Denotes e (.prov k) (.app p.fn kw)
inductive DenotesAll (e : Env) : List (String × Ref) → List String → List (String × Val) → Prop
  | nil (refs : List (String × Ref)) : DenotesAll e refs [] []
  | cons (refs : List (String × Ref)) (n : String) (r : Ref) (v : Val) (rest : List String)
      (vs : List (String × Val)) :
      refOf refs n = some r → Denotes e r v → DenotesAll e refs rest vs →
      DenotesAll e refs (n :: rest) ((n, v) :: vs)
end

/-- `resolve_sound`: whatever the resolver returns is the specified value — for EVERY environment (graph shape,
    depth, fan-out, sharing), every fuel. -/
theorem resolve_sound (e : Env) : ∀ (fuel : Nat),
    (∀ r v, resolve e fuel r = .ok v → Denotes e r v) ∧
    (∀ refs ns vs, resolveAll e fuel refs ns = .ok vs → DenotesAll e refs ns vs) := by
  intro fuel
  induction fuel with
  | zero =>
    have h1 : ∀ r v, resolve e 0 r = .ok v → Denotes e r v := by
      intro r v h
      cases r with
      | msg => simp [resolve] at h; subst h; exact .msg
      | prov k => simp [resolve] at h
    refine ⟨h1, ?_⟩
    intro refs ns
    induction ns with
    | nil => intro vs h; simp [resolveAll, resolveList, resolveList] at h; subst h; exact .nil refs
    | cons n rest ih =>
      intro vs h
      simp only [resolveAll, resolveList, resolveList] at h
      cases hr : refOf refs n with
      | none => simp [hr] at h
      | some r =>
        simp only [hr] at h
        cases hv : resolve e 0 r with
        | error err => simp [hv] at h
        | ok v =>
          simp only [hv] at h
          cases hvs : resolveAll e 0 refs rest with
          | error err => simp [hvs] at h
          | ok vs' =>
            simp only [hvs, Except.ok.injEq] at h; subst h
            exact .cons refs n r v rest vs' hr (h1 r v hv) (ih vs' hvs)
  | succ fuel ih =>
    have h1 : ∀ r v, resolve e (fuel + 1) r = .ok v → Denotes e r v := by
      intro r v h
      cases r with
      | msg => simp [resolve] at h; subst h; exact .msg
      | prov k =>
        simp only [resolve] at h
        cases hp : e.get k with
        | none => simp [hp] at h
        | some p =>
          simp only [hp] at h
          cases hkw : resolveAll e fuel p.refs (subNames p.sig) with
          | error err => simp [hkw] at h
          | ok kw =>
            simp only [hkw] at h
            by_cases hf : p.fails = true
            · simp [hf] at h
            · simp only [hf, Bool.false_eq_true, if_false, Except.ok.injEq] at h
              subst h
              exact .prov k p kw hp (by simpa using hf) (ih.2 _ _ _ hkw)
    refine ⟨h1, ?_⟩
    intro refs ns
    induction ns with
    | nil => intro vs h; simp [resolveAll, resolveList, resolveList] at h; subst h; exact .nil refs
    | cons n rest ihn =>
      intro vs h
      simp only [resolveAll, resolveList, resolveList] at h
      cases hr : refOf refs n with
      | none => simp [hr] at h
      | some r =>
        simp only [hr] at h
        cases hv : resolve e (fuel + 1) r with
        | error err => simp [hv] at h
        | ok v =>
          simp only [hv] at h
          cases hvs : resolveAll e (fuel + 1) refs rest with
          | error err => simp [hvs] at h
          | ok vs' =>
            simp only [hvs, Except.ok.injEq] at h; subst h
            exact .cons refs n r v rest vs' hr (h1 r v hv) (ihn vs' hvs)

/-- every actor dependency parameter: the value the actor receives is the specified one -/
theorem actor_receives_spec (e : Env) (fuel : Nat) (r : Ref) (v : Val) (h : resolve e fuel r = .ok v) :
    Denotes e r v := (resolve_sound e fuel).1 r v h

/-! ### termination on acyclic declarations -/

/-- `resolve_terminates`: on an acyclic environment (any rank function witnessing it) resolution with fuel above the
    rank never runs out of budget — the recursion of `Depends.resolve` ends, at any depth and fan-out. -/
theorem resolve_terminates (e : Env) (rank : Nat → Nat) (hac : Acyclic e rank) : ∀ (fuel : Nat),
    (∀ r, (∀ k, r = .prov k → rank k < fuel) → resolve e fuel r ≠ .error .fuel) ∧
    (∀ refs ns, (∀ n j, n ∈ ns → refOf refs n = some (.prov j) → rank j < fuel) →
        resolveAll e fuel refs ns ≠ .error .fuel) := by
  intro fuel
  induction fuel with
  | zero =>
    have h1 : ∀ r, (∀ k, r = .prov k → rank k < 0) → resolve e 0 r ≠ .error .fuel := by
      intro r hr
      cases r with
      | msg => simp [resolve]
      | prov k => exact absurd (hr k rfl) (Nat.not_lt_zero _)
    refine ⟨h1, ?_⟩
    intro refs ns
    induction ns with
    | nil => intro _; simp [resolveAll, resolveList, resolveList]
    | cons n rest ih =>
      intro hb
      cases hr : refOf refs n with
      | none => simp [resolveAll, resolveList, hr]
      | some r =>
        have hne := h1 r (fun k hk => hb n k (by simp) (hk ▸ hr))
        have hrest := ih (fun n' j hn' => hb n' j (by simp [hn']))
        cases hv : resolve e 0 r with
        | error err =>
          simp only [resolveAll, resolveList, hr, hv]; rw [hv] at hne; intro h; injection h with h; subst h; exact hne rfl
        | ok v =>
          cases hvs : resolveAll e 0 refs rest with
          | error err => simp only [resolveAll, resolveList, hr, hv, hvs]; rw [hvs] at hrest; intro h; injection h with h; subst h; exact hrest rfl
          | ok vs => simp [resolveAll, resolveList, hr, hv, hvs]
  | succ fuel ih =>
    have h1 : ∀ r, (∀ k, r = .prov k → rank k < fuel + 1) → resolve e (fuel + 1) r ≠ .error .fuel := by
      intro r hr
      cases r with
      | msg => simp [resolve]
      | prov k =>
        cases hp : e.get k with
        | none => simp [resolve, hp]
        | some p =>
          have hsub := ih.2 p.refs (subNames p.sig) (fun n j _ hj => by
            have := hac k p hp n j hj
            have := hr k rfl
            omega)
          cases hkw : resolveAll e fuel p.refs (subNames p.sig) with
          | error err => simp only [resolve, hp, hkw]; rw [hkw] at hsub; intro h; injection h with h; subst h; exact hsub rfl
          | ok kw => by_cases hf : p.fails = true <;> simp [resolve, hp, hkw, hf]
    refine ⟨h1, ?_⟩
    intro refs ns
    induction ns with
    | nil => intro _; simp [resolveAll, resolveList, resolveList]
    | cons n rest ihn =>
      intro hb
      cases hr : refOf refs n with
      | none => simp [resolveAll, resolveList, hr]
      | some r =>
        have hne := h1 r (fun k hk => hb n k (by simp) (hk ▸ hr))
        have hrest := ihn (fun n' j hn' => hb n' j (by simp [hn']))
        cases hv : resolve e (fuel + 1) r with
        | error err =>
          simp only [resolveAll, resolveList, hr, hv]; rw [hv] at hne; intro h; injection h with h; subst h; exact hne rfl
        | ok v =>
          cases hvs : resolveAll e (fuel + 1) refs rest with
          | error err => simp only [resolveAll, resolveList, hr, hv, hvs]; rw [hvs] at hrest; intro h; injection h with h; subst h; exact hrest rfl
          | ok vs => simp [resolveAll, resolveList, hr, hv, hvs]

/-! ### overrides, failures: every provider used is a CURRENT, non-failing provider of the environment -/

mutual
theorem denotes_fns (e : Env) : ∀ (r : Ref) (v : Val), Denotes e r v →
    ∀ f ∈ v.fns, ∃ k p, e.get k = some p ∧ p.fn = f ∧ p.fails = false
  | _, _, .msg => by intro f hf; simp [Val.fns] at hf
  | _, _, .prov k p kw hp hnf hall => by
    intro f hf
    simp only [Val.fns, List.mem_cons] at hf
    rcases hf with rfl | hf
    · exact ⟨k, p, hp, rfl, hnf⟩
    · exact denotesAll_fns e _ _ _ hall f hf
theorem denotesAll_fns (e : Env) : ∀ (refs : List (String × Ref)) (ns : List String) (vs : List (String × Val)),
    DenotesAll e refs ns vs → ∀ f ∈ fnsAll vs, ∃ k p, e.get k = some p ∧ p.fn = f ∧ p.fails = false
  | _, _, _, .nil _ => by intro f hf; simp [fnsAll] at hf
  | _, _, _, .cons refs n r v rest vs hr hd hall => by
    intro f hf
    simp only [fnsAll, List.mem_append] at hf
    rcases hf with hf | hf
    · exact denotes_fns e r v hd f hf
    · exact denotesAll_fns e refs rest vs hall f hf
end

/-- `used_providers_current`: every provider function called while resolving is the current provider of some
    `Depends` object of the environment, and did not fail -/
theorem used_providers_current (e : Env) (fuel : Nat) (r : Ref) (v : Val) (h : resolve e fuel r = .ok v) :
    ∀ f ∈ v.fns, ∃ k p, e.get k = some p ∧ p.fn = f ∧ p.fails = false :=
  denotes_fns e r v (actor_receives_spec e fuel r v h)

theorem get_override (e : Env) (k j : Nat) (p : Provider) :
    (e.override k p).get j = if j = k then (e.get k).map (fun _ => p) else e.get j := by
  have hcomp : ((fun x : Nat × Provider => x.1 == j) ∘ fun x => if (x.1 == k) = true then (k, p) else x)
      = fun x => x.1 == j := by
    funext x
    by_cases hx : x.1 = k
    · simp [hx]
    · simp [hx]
  simp only [Env.override, Env.get, List.find?_map, hcomp]
  cases hf : e.find? (fun x => x.1 == j) with
  | none =>
    by_cases hj : j = k
    · subst hj; simp [hf]
    · simp [hj, hf]
  | some x =>
    have hx : x.1 = j := by simpa using List.find?_some hf
    by_cases hj : j = k
    · subst hj; simp [hf, hx]
    · have : ¬ x.1 = k := by rw [hx]; exact hj
      simp [hj, hf, this]

/-- `override_everywhere`: after `Depends k` is overridden, no resolution — of any actor parameter, at any depth,
    through any number of shared uses — calls the replaced function again (provided no other Depends object holds
    the same function) -/
theorem override_everywhere (e : Env) (k : Nat) (pNew : Provider) (old : Nat)
    (hnew : pNew.fn ≠ old) (hothers : ∀ j p, j ≠ k → e.get j = some p → p.fn ≠ old)
    (fuel : Nat) (r : Ref) (v : Val) (h : resolve (e.override k pNew) fuel r = .ok v) : old ∉ v.fns := by
  intro hmem
  obtain ⟨j, p, hget, hfn, _⟩ := used_providers_current _ fuel r v h old hmem
  rw [get_override] at hget
  by_cases hj : j = k
  · simp only [hj, if_true] at hget
    cases hk : e.get k with
    | none => simp [hk] at hget
    | some q => simp [hk] at hget; subst hget; exact hnew hfn
  · simp only [hj, if_false] at hget
    exact hothers j p hj hget hfn

/-- a failing provider anywhere below a parameter fails the resolution (it never yields a value) -/
theorem failing_provider_no_value (e : Env) (fuel k : Nat) (p : Provider) (hp : e.get k = some p)
    (hf : p.fails = true) : ∀ v, resolve e fuel (.prov k) ≠ .ok v := by
  intro v h
  have := actor_receives_spec e fuel _ v h
  cases this with
  | prov _ p' kw hp' hnf _ =>
    rw [hp] at hp'; cases hp'; simp [hf] at hnf

/-- a failed resolution is a failed execution that was not entered, and it is disposed of by the retry rules:
    requeue with a retry while retries remain, else reschedule if recurring, else nack — never ack -/
theorem provider_failure_follows_retry_rules (p : Params) (now : Int) (cron : String → Int → Int) (pn : Int)
    (hb sf : Bool) :
    (Worker.process p now cron pn hb sf .depFail).calls = [Worker.disposition p false now cron pn] ∧
    (Worker.process p now cron pn hb sf .depFail).bodyRan = false := by
  have := C02.report_eq_disposition p false now cron pn
  simp only [Worker.process, Worker.actorRun, Bool.false_eq_true, if_false, List.nil_append]
  cases p.result <;> simp [this]

/-! ### declarations -/

theorem posonly_dependency_rejected (s : Conv.Sig) (p : Conv.P) (hp : p ∈ s.posOnly) (hd : p.isDep = true) :
    declOk s = false := by
  cases h : declOk s with
  | false => rfl
  | true =>
    simp only [declOk, Bool.and_eq_true, List.all_eq_true, Bool.not_eq_true', Bool.or_eq_true] at h
    have := h.1.1.1 p hp
    simp [hd] at this

theorem plain_without_default_rejected (s : Conv.Sig) (p : Conv.P) (hp : p ∈ s.named)
    (hd : p.isDep = false) (hdef : p.hasDefault = false) : declOk s = false := by
  cases h : declOk s with
  | false => rfl
  | true =>
    simp only [declOk, Bool.and_eq_true, List.all_eq_true, Bool.not_eq_true', Bool.or_eq_true] at h
    simp only [Conv.Sig.named, List.append_assoc, List.mem_append] at hp
    rcases hp with hp | hp | hp
    · have := h.1.1.1 p hp; simp [hdef] at this
    · have := h.1.1.2 p (by simp [hp]); simp [hd, hdef] at this
    · have := h.1.1.2 p (by simp [hp]); simp [hd, hdef] at this

theorem var_args_rejected (s : Conv.Sig) (h : s.varPos = true ∨ s.varKw = true) : declOk s = false := by
  cases hh : declOk s with
  | false => rfl
  | true =>
    simp only [declOk, Bool.and_eq_true, List.all_eq_true, Bool.not_eq_true', Bool.or_eq_true] at hh
    rcases h with h | h
    · have := hh.1.2; simp [h] at this
    · have := hh.2; simp [h] at this

theorem mapNamed_ok (g : Conv.P → Except Conv.Err Conv.V) (f : Conv.P → Conv.V) (l : List Conv.P)
    (h : ∀ p ∈ l, g p = .ok (f p)) : Conv.mapNamed g l = .ok (l.map fun p => (p.name, f p)) := by
  induction l with
  | nil => rfl
  | cons x rest ih =>
    simp only [Conv.mapNamed, h x (by simp), ih (fun p hp => h p (by simp [hp])), List.map_cons]

/-- the value a provider parameter is bound to -/
def boundValue (p : Conv.P) : Conv.V := if p.isDep then .dep p.name else .dflt p.name

/-- `accepted_declaration_callable`: a declaration that `_update_subdependencies` accepts is never rejected at run
    time — calling the provider with its resolved sub-dependencies as keyword arguments binds, by CPython's rules,
    every dependency parameter to its resolved value and every other parameter to its default. -/
theorem accepted_declaration_callable (s : Conv.Sig) (hok : declOk s = true)
    (hnd : (s.named.map (·.name)).Nodup) :
    callProvider s = .ok { named := s.named.map (fun p => (p.name, boundValue p)), star := [], dstar := [] } := by
  simp only [declOk, Bool.and_eq_true, List.all_eq_true, Bool.not_eq_true', Bool.or_eq_true] at hok
  obtain ⟨⟨⟨hpo, hkw⟩, hvp⟩, hvk⟩ := hok
  have hnd' : (s.posOnly.map (·.name)).Nodup ∧ ((s.posOrKw ++ s.kwOnly).map (·.name)).Nodup := by
    simp only [Conv.Sig.named, List.append_assoc, List.map_append] at hnd
    have := List.nodup_append.mp hnd
    refine ⟨this.1, ?_⟩
    simpa [List.map_append] using this.2.1
  have hck : callKwargs s = ((s.posOrKw ++ s.kwOnly).filter (·.isDep)).map fun q => (q.name, Conv.V.dep q.name) := by
    simp [callKwargs, subNames, List.map_map, Function.comp_def]
  -- lookups in the keyword arguments
  have hlook : ∀ p ∈ s.posOrKw ++ s.kwOnly,
      Conv.lookup p.name (callKwargs s) = if p.isDep then some (.dep p.name) else none := by
    intro p hp
    by_cases hd : p.isDep = true
    · rw [hck, Conv.lookup_dep _ hnd'.2 p hp hd]; simp [hd]
    · simp only [hd, Bool.false_eq_true, if_false]
      apply Conv.lookup_none
      rw [hck, Conv.dep_names]
      intro hmem
      obtain ⟨q, hq, hqn⟩ := List.mem_map.mp hmem
      have hq' := List.mem_filter.mp hq
      have := Conv.eq_of_name_eq _ hnd'.2 q p hq'.1 hp hqn
      subst this
      exact hd hq'.2
  have g1 : ¬ (([] : List Conv.V).length > s.posOnly.length + s.posOrKw.length ∧ ¬ s.varPos = true) := by
    simp
  have hfil : (callKwargs s).filter (fun e => !((s.posOrKw ++ s.kwOnly).map (·.name)).contains e.1) = [] := by
    rw [List.filter_eq_nil_iff]
    intro e he
    rw [hck] at he
    obtain ⟨q, hq, rfl⟩ := List.mem_map.mp he
    have hq' := List.mem_filter.mp hq
    simp only [Bool.not_eq_true', Bool.not_eq_false, List.contains_eq_mem, decide_eq_true_eq]
    simpa using List.mem_map_of_mem (f := (·.name)) hq'.1
  have hpo' : Conv.mapIdxNamed (Conv.bindPositional [] (callKwargs s) false) 0 s.posOnly
      = .ok (s.posOnly.map fun p => (p.name, boundValue p)) := by
    rw [Conv.mapIdxNamed_eq _ (fun p => .ok (boundValue p)) _ 0]
    · exact mapNamed_ok _ _ _ (fun _ _ => rfl)
    · intro i p hp
      have hmem : p ∈ s.posOnly := List.mem_of_getElem? hp
      have := hpo p hmem
      simp [Conv.bindPositional, boundValue, this.1, this.2]
  have hpk' : Conv.mapIdxNamed (Conv.bindPositional [] (callKwargs s) true) s.posOnly.length s.posOrKw
      = .ok (s.posOrKw.map fun p => (p.name, boundValue p)) := by
    rw [Conv.mapIdxNamed_eq _ (fun p => .ok (boundValue p)) _ _]
    · exact mapNamed_ok _ _ _ (fun _ _ => rfl)
    · intro i p hp
      have hmem : p ∈ s.posOrKw := List.mem_of_getElem? hp
      have hl := hlook p (by simp [hmem])
      have hk := hkw p (by simp [hmem])
      by_cases hd : p.isDep = true
      · simp [Conv.bindPositional, boundValue, hl, hd]
      · have hdf : p.hasDefault = true := by rcases hk with h | h; exact absurd h hd; exact h
        simp [Conv.bindPositional, boundValue, hl, hd, hdf]
  have hko' : Conv.mapNamed (Conv.bindKwOnly (callKwargs s)) s.kwOnly
      = .ok (s.kwOnly.map fun p => (p.name, boundValue p)) := by
    apply mapNamed_ok
    intro p hmem
    have hl := hlook p (by simp [hmem])
    have hk := hkw p (by simp [hmem])
    by_cases hd : p.isDep = true
    · simp [Conv.bindKwOnly, boundValue, hl, hd]
    · have hdf : p.hasDefault = true := by rcases hk with h | h; exact absurd h hd; exact h
      simp [Conv.bindKwOnly, boundValue, hl, hd, hdf]
  unfold callProvider Conv.call
  rw [if_neg g1, hfil]
  simp only [ne_eq, not_true_eq_false, false_and, if_false, hpo', hpk', hko', List.drop_nil]
  simp [Conv.Sig.named]

/-! ### non-vacuity -/

/-- a diamond: actor parameter → provider 1 → providers 2 and 3, both → shared provider 4 → message dependency.
    The shared provider is called once per use (nothing is cached). -/
def diamond : Env :=
  [(1, { fn := 10, sig := { posOrKw := [{ name := "a", isDep := true }, { name := "b", isDep := true }] },
         refs := [("a", .prov 2), ("b", .prov 3)] }),
   (2, { fn := 20, sig := { posOrKw := [{ name := "s", isDep := true }] }, refs := [("s", .prov 4)] }),
   (3, { fn := 30, sig := { kwOnly := [{ name := "s", isDep := true }, { name := "opt", hasDefault := true }] },
         refs := [("s", .prov 4)] }),
   (4, { fn := 40, sig := { posOrKw := [{ name := "m", isDep := true }] }, refs := [("m", .msg)] })]

example : (match resolve diamond 5 (.prov 1) with | .ok v => v.fns | .error _ => []) = [10, 20, 40, 30, 40] := by
  decide +kernel
example : (match resolve (diamond.override 4 { fn := 41, sig := {}, refs := [] }) 5 (.prov 1) with
    | .ok v => v.fns | .error _ => []) = [10, 20, 41, 30, 41] := by decide +kernel
example : declOk (diamond.get 3).get!.sig = true := by decide

/-- `twin_markers_independent`: two `Depends` objects are two markers even when they were created over one and the same
    provider function — overriding one leaves what the other resolves to untouched (markers have identity, not value
    semantics) -/
theorem twin_markers_independent (e : Env) (k j : Nat) (p : Provider) (hjk : j ≠ k) :
    (e.override k p).get j = e.get j := by
  rw [get_override]; simp [hjk]

example : let twins : Env := [(1, { fn := 10, sig := {}, refs := [] }), (2, { fn := 10, sig := {}, refs := [] })]
    (match resolve (twins.override 1 { fn := 99, sig := {}, refs := [] }) 3 (.prov 2) with | .ok v => v.fns | .error _ => []) = [10] ∧
    (match resolve (twins.override 1 { fn := 99, sig := {}, refs := [] }) 3 (.prov 1) with | .ok v => v.fns | .error _ => []) = [99] := by
  decide +kernel

end Repid.C18
