/-
Redis message broker (code-model), one queue name.  Anchors:
  repid/connections/redis/message_broker.py:40-66    __put_in_queue / __mark_dead / __unmark_processing
  repid/connections/redis/message_broker.py:68-160   enqueue, ack, nack, reject, requeue
  repid/connections/redis/message_broker.py:169-208  maintenance
  repid/connections/redis/consumer.py:81-96          consume_or_none (priority order, overdue → nack)
  repid/connections/redis/consumer.py:110-182        __fetch_message_name (windows of PREFETCH_AMOUNT)
  repid/connections/redis/consumer.py:184-222        __mark_processing / __get_message_name (take transaction)
  repid/connections/redis/consumer.py:224-331        __get_message_{normal,delayed,dead}, __get_message_details
  repid/connections/redis/utils.py                   qnc / mnc / unix_time / wait_timestamp
Server semantics assumed (assumption set R, DESIGN §3): LPUSH at head, RPUSH at tail, LRANGE head→tail with
negative indices from the tail, LREM count=-1 removes the last occurrence, ZADD inserts or updates the score,
ZRANGE orders by (score, member), MULTI/EXEC atomic.  Every round trip / transaction is one atom.

Times are µs (as everywhere); Redis scores and `unix_time()` are whole seconds relative to the same epoch.
-/
import RepidModel.Sched
import RepidModel.Generated.Config

namespace Repid.Redis
open Repid

/-- `_RedisConsumer.PREFETCH_AMOUNT`, extracted from the live class on every run -/
def prefetch : Nat := Config.redisPrefetch

/-- last segment of a full queue name: `n` normal, `d` delayed, `dead` -/
inductive Marker where
  | n | d | dead
  deriving Repr, DecidableEq, Inhabited

/-- a message inside one queue: priority + short name `topic:id` -/
structure Key where
  prio : Nat
  topic : String
  id : String
  deriving Repr, DecidableEq, Inhabited

def Key.short (k : Key) : String := k.topic ++ ":" ++ k.id

/-- the hash `m:<queue>:<prio>:<short>`; a field may be absent -/
structure Hash where
  payload : Option String := none
  params : Option Params := none
  rejectTo : Option Marker := none
  deriving Repr, DecidableEq, Inhabited

structure R where
  normal : List (Nat × String) := []            -- all `q:<queue>:<prio>:n` lists merged: per-priority view = filter
  delayed : List ((Nat × String) × Int) := []   -- `q:<queue>:<prio>:d` sorted sets: member ↦ score (seconds)
  dead : List (Nat × String) := []              -- `q:<queue>:<prio>:dead` lists
  processing : List (String × Int) := []        -- the global sorted set `processing`: SHORT name ↦ unix seconds
  hashes : List ((Nat × String) × Hash) := []
  deriving Repr, DecidableEq, Inhabited

def secs (us : Int) : Int := us / usPerSec          -- floor (positive divisor)

/-- whole seconds, rounded up -/
def ceilSecs (us : Int) : Int := (us + (usPerSec - 1)) / usPerSec

/-- `wait_timestamp(params)`: the score of a delayed message — `math.ceil(t.timestamp())` (`fix:` 80f763f; before
    it `int()` truncated the sub-second part away and a message could be taken up to a second early) -/
def waitScore (p : Params) (now : Int) (cronNext : String → Int → Int) : Option Int :=
  (p.waitUntil now cronNext).map ceilSecs

/-! ### server-side primitives -/

def getHash (r : R) (k : Nat × String) : Hash := ((r.hashes.find? (·.1 == k)).map (·.2)).getD {}

def setHash (r : R) (k : Nat × String) (h : Hash) : R :=
  if r.hashes.any (·.1 == k) then { r with hashes := r.hashes.map fun e => if e.1 == k then (k, h) else e }
  else { r with hashes := r.hashes ++ [(k, h)] }

/-- a hash with no field left does not exist -/
def normHash (r : R) : R := { r with hashes := r.hashes.filter fun e => e.2 != {} }

def zadd {α : Type} [BEq α] (z : List (α × Int)) (m : α) (s : Int) : List (α × Int) :=
  if z.any (·.1 == m) then z.map fun e => if e.1 == m then (m, s) else e else z ++ [(m, s)]

def zrem {α : Type} [BEq α] (z : List (α × Int)) (m : α) : List (α × Int) := z.filter fun e => !(e.1 == m)

/-- `LREM key -1 v`: remove the LAST occurrence -/
def lremLast {α : Type} [BEq α] (l : List α) (v : α) : List α :=
  (go l.reverse).reverse
where
  go : List α → List α
    | [] => []
    | x :: rest => if x == v then rest else x :: go rest

/-- `__put_in_queue` -/
def put (r : R) (k : Key) (score : Option Int) (inFront : Bool) : R :=
  match score with
  | none => if inFront then { r with normal := r.normal ++ [(k.prio, k.short)] }      -- RPUSH: the consuming end
            else { r with normal := (k.prio, k.short) :: r.normal }                    -- LPUSH
  | some s => { r with delayed := zadd r.delayed (k.prio, k.short) s }

def markDead (r : R) (k : Key) : R := { r with dead := (k.prio, k.short) :: r.dead }

/-- `__unmark_processing`: ZREM processing short; HDEL hash _reject_to -/
def unmark (r : R) (k : Key) : R :=
  let r := { r with processing := zrem r.processing k.short }
  let h := getHash r (k.prio, k.short)
  normHash (setHash r (k.prio, k.short) { h with rejectTo := none })

/-! ### broker API (each `*Tx` is one MULTI/EXEC) -/

def enqueueTx (r : R) (k : Key) (payload : String) (p : Params) (now : Int) (cronNext : String → Int → Int) : R :=
  let h := getHash r (k.prio, k.short)
  -- HSETNX: existing fields are kept
  let h' : Hash := { h with payload := h.payload.orElse fun _ => some payload, params := h.params.orElse fun _ => some p }
  put (setHash r (k.prio, k.short) h') k (waitScore p now cronNext) false

def ackTx (r : R) (k : Key) : R :=
  let r := { r with hashes := r.hashes.filter fun e => !(e.1 == (k.prio, k.short)) }
  { r with processing := zrem r.processing k.short }

def nackTx (r : R) (k : Key) : R := unmark (markDead r k) k

/-- `reject`: first round trip reads parameters and `_reject_to`, then one transaction -/
def rejectTx (r : R) (k : Key) (p : Params) (rejectTo : Option Marker) (now : Int) (cronNext : String → Int → Int) : R :=
  if rejectTo = some .dead then unmark (markDead r k) k
  else unmark (put r k (waitScore p now cronNext) true) k

def reject (r : R) (k : Key) (now : Int) (cronNext : String → Int → Int) : R :=
  let h := getHash r (k.prio, k.short)
  -- `fix:` b48c052 / its follow-up: without data (already acknowledged) or without the take marker (already nacked, rejected
  -- or requeued) the message is not held and nothing is given back; before them the name was queued (again)
  match h.params, h.rejectTo with
  | some p, some m => rejectTx r k p (some m) now cronNext
  | _, _ => r

def requeueTx (r : R) (k : Key) (payload : String) (p : Params) (now : Int) (cronNext : String → Int → Int) : R :=
  let h := getHash r (k.prio, k.short)
  let r := setHash r (k.prio, k.short) { h with payload := some payload, params := some p }
  unmark (put r k (waitScore p now cronNext) true) k

/-! ### consumer: fetch -/

/-- topics filter of `__fetch_message_name`: `not startswith_topics or name.startswith(tuple(t + ":"))` -/
def matchesTopics (topics : List String) (name : String) : Bool :=
  topics.isEmpty || topics.any fun t => (t ++ ":").isPrefixOf name

def view (l : List (Nat × String)) (prio : Nat) : List String := (l.filter (·.1 == prio)).map (·.2)

/-- order in which the names of one window are examined; `w` is the window tail-first (oldest first).
    `LRANGE` answers head→tail and the loop walks it in reverse (`fix:` 3c13413; before it the first match of the
    head→tail range was taken: the NEWEST name of the window first). -/
def windowOrder (w : List String) : List String := w

/-- normal / dead list: windows of `prefetch` names counted from the tail (the consuming end).
    `rev` = the list tail-first. -/
def fetchList (topics : List String) : Nat → List String → Option String
  | 0, _ => none
  | _, [] => none
  | fuel + 1, rev =>
    match (windowOrder (rev.take prefetch)).find? (matchesTopics topics) with
    | some x => some x
    | none => fetchList topics fuel (rev.drop prefetch)

def fetchNormal (r : R) (cat : Marker) (prio : Nat) (topics : List String) : Option String :=
  let l := view (if cat = .dead then r.dead else r.normal) prio
  fetchList topics (l.length + 1) l.reverse

/-- insertion into a list sorted by (score, member) -/
def zinsert (e : String × Int) : List (String × Int) → List (String × Int)
  | [] => [e]
  | x :: rest => if e.2 < x.2 ∨ (e.2 = x.2 ∧ e.1 ≤ x.1) then e :: x :: rest else x :: zinsert e rest

def zsorted (z : List (String × Int)) : List (String × Int) := z.foldr zinsert []

def zview (r : R) (prio : Nat) : List (String × Int) :=
  zsorted ((r.delayed.filter (·.1.1 == prio)).map fun e => (e.1.2, e.2))

/-- delayed set: `ZRANGE -inf unix_time() BYSCORE LIMIT offset 10` page by page = the due members in (score, member)
    order; `force` (DELAYED-category consumer): all members in that order -/
def fetchDelayed (r : R) (prio : Nat) (topics : List String) (nowSec : Int) (force : Bool) : Option String :=
  (((zview r prio).filter fun e => force || decide (e.2 ≤ nowSec)).map (·.1)).find? (matchesTopics topics)

/-- the take transaction of `__get_message_name`: remove from the queue, ZADD processing, HSET _reject_to -/
def takeTx (r : R) (cat : Marker) (prio : Nat) (short : String) (nowSec : Int) : R :=
  let r := match cat with
    | .n => { r with normal := lremLast r.normal (prio, short) }
    | .dead => { r with dead := lremLast r.dead (prio, short) }
    | .d => { r with delayed := zrem r.delayed (prio, short) }
  let r := { r with processing := zadd r.processing short nowSec }
  let h := getHash r (prio, short)
  setHash r (prio, short) { h with rejectTo := some cat }

/-- `__get_message_details`: both fields present → the message; else the name is dead-lettered (MEDIUM priority
    list, whatever the message's priority) and removed from `processing` -/
def details (r : R) (prio : Nat) (short : String) : R × Option (String × Params) :=
  let h := getHash r (prio, short)
  match h.payload, h.params with
  | some pl, some p => (r, some (pl, p))
  | _, _ => ({ r with processing := zrem r.processing short, dead := (5, short) :: r.dead }, none)

structure Delivery where
  prio : Nat
  short : String
  payload : String
  params : Params
  deriving Repr, DecidableEq, Inhabited

/-- `__get_message(priority)` of a consumer of category `cat`, run without interleaving -/
def getMessage (cat : Marker) (topics : List String) (nowSec : Int) : Nat → R → Nat → R × Option Delivery
  | 0, r, _ => (r, none)
  | fuel + 1, r, prio =>
    let pick : Option (Marker × String) :=
      match cat with
      | .n => match fetchDelayed r prio topics nowSec false with
              | some x => some (.d, x)
              | none => (fetchNormal r .n prio topics).map fun x => (.n, x)
      | .d => (fetchDelayed r prio topics nowSec true).map fun x => (.d, x)
      | .dead => (fetchNormal r .dead prio topics).map fun x => (.dead, x)
    match pick with
    | none => (r, none)
    | some (from_, short) =>
      let r := takeTx r from_ prio short nowSec
      match details r prio short with
      | (r, some (pl, p)) => (r, some { prio := prio, short := short, payload := pl, params := p })
      | (r, none) => getMessage cat topics nowSec fuel r prio

def keyOf (d : Delivery) : Key :=
  match d.short.splitOn ":" with
  | [t, i] => { prio := d.prio, topic := t, id := i }
  | _ => { prio := d.prio, topic := d.short, id := "" }

/-- `consume_or_none` for a given priority order: an overdue message is nacked and the next priority is tried —
    except by a consumer of the DEAD category (`fix:` fe50b31; before it expired dead letters were put straight back
    and could never be retrieved) -/
def consumeOrNone (cat : Marker) (topics : List String) (now : Int) : List Nat → R → R × Option Delivery
  | [], r => (r, none)
  | prio :: rest, r =>
    match getMessage cat topics (secs now) (r.normal.length + r.delayed.length + r.dead.length + 1) r prio with
    | (r, none) => consumeOrNone cat topics now rest r
    | (r, some d) =>
      if d.params.isOverdue now && cat != .dead then consumeOrNone cat topics now rest (nackTx r (keyOf d))
      else (r, some d)

/-! ### maintenance -/

/-- every message whose short name is in `processing` for longer than its execution timeout is rejected
    (back to where it was taken from) -/
def maintenance (r : R) (now : Int) (cronNext : String → Int → Int) : R :=
  r.processing.foldl (fun acc e =>
    (r.hashes.filter fun h => h.1.2 == e.1).foldl (fun acc h =>
      match h.2.params with
      | none => { acc with processing := zrem acc.processing e.1 }
      | some p =>
        if now - e.2 * usPerSec > p.executionTimeout then
          match (e.1.splitOn ":") with
          | [t, i] => reject acc { prio := h.1.1, topic := t, id := i } now cronNext
          | _ => acc
        else acc) acc) r

end Repid.Redis
