"""C01 — broker operations never lose or duplicate a message (in-memory broker; the Redis and
RabbitMQ parts are in props/c01_redis.py / c01_rabbit.py when present).

Tie (i)   call level: random well-behaved sessions on the real InMemoryMessageBroker under virtual
          time; after every call the canonical DummyQueue snapshot and the call's result are
          compared with the Lean code-model (`Mem.*` atoms); the Lean predicates `Pred.C01.*`
          (onePlace after every call, ackOk/nackOk/rejectOk/requeueOk after terminal calls) are
          evaluated on the implementation's snapshots.
    (ii)  ill-behaved stream: terminal calls on ids nobody holds (must be no-ops on both sides).
    (iii) cancellation: for every call kind, the calling task is cancelled at every event-loop
          callback index inside the call; the quiescent snapshot must be one of the model's
          atom-prefix states and must satisfy onePlace.
"""
from __future__ import annotations

import implenv  # noqa: F401  (must be first)

import asyncio

import memrun
import vtime
from common import NONE, A, Model, Result, Rng, sx, tier_scale
from memrun import S, MemSession, gen_params, msg_sx, snapshot
from vtime import CLOCK

from repid.data._key import RoutingKey

RULE = ("random model-guided well-behaved op sequences (enqueue / consume per category / ack / nack / "
        "reject / requeue / finish+restart / clock advance) over 1–3 queues, 1–3 topics, 1–3 consumers; "
        "a case = one executed call, distinct by (op kind, category, outcome class, queue-shape class); "
        "plus exhaustive cancellation of every call kind at every callback index")
ASSUMPTIONS = ["well-behaved clients: terminal actions only on held ids, distinct ids, consumers started before consume",
               "a cancelled broker call must leave the places as after a prefix of its atoms (and, per the statement, none or all)",
               "queue_flush/queue_delete are outside the history alphabet"]

F1 = "F1-mem-return-ignores-origin"
F2 = "F2-mem-requeue-not-atomic"


def shape(snap_ids: dict) -> str:
    return "s%d d%d x%d p%d" % (min(len(snap_ids["simple"]), 3), min(len(snap_ids["delayed"]), 2),
                                min(len(snap_ids["dead"]), 2), min(len(snap_ids["processing"]), 2))


def check_session(s: MemSession, model: Model, res: Result, label: str, case_ops=None) -> None:
    """Compare a finished session with the model and evaluate the predicates on the impl snapshots."""
    lines = [ln for _, ln, _ in s.log]
    extra: list[tuple[int, str, str, dict, str | None]] = []   # (log index, line, what, op, finding trigger)
    enq_so_far: dict[str, list[str]] = {}
    acked_so_far: dict[str, list[str]] = {}
    for idx, (op, _ln, impl) in enumerate(s.log):
        q = op.get("q")
        kind = op["op"]
        if kind == "declare":
            enq_so_far[q] = []
            acked_so_far[q] = []
            continue
        snap = impl if kind != "consume" else None
        if kind == "consume":
            # impl answer is (res M failed Q): take the Q part textually
            snap = impl[impl.rindex("(Q "):-1]
        if kind == "enqueue":
            enq_so_far[q].append(op["id"])
        if kind == "ack" and op.get("held"):
            acked_so_far[q].append(op["id"])
        extra.append((idx, f"(c01.onePlace {snap} {sx(enq_so_far[q])} {sx(acked_so_far[q])})", "onePlace", op, None))
        h = op.get("held")
        if kind == "ack" and h:
            extra.append((idx, f"(c01.ackOk {snap} {sx(op['id'])})", "ackOk", op, None))
        elif kind == "nack" and h:
            extra.append((idx, f"(c01.nackOk {snap} {sx(op['id'])})", "nackOk", op, None))
        elif kind == "reject" and h:
            trig = F1 if h["cat"] != "NORMAL" else None
            extra.append((idx, f"(c01.rejectOk {snap} {sx(op['id'])} {h['cat']})", "rejectOk", op, trig))
        elif kind == "requeue":
            key, payload, params = None, None, None
            m = msg_sx(RoutingKey(topic=op["topic"], queue=q, priority=5, id_=op["id"]), op["payload"],
                       memrun.mk_params(op["params"]))
            extra.append((idx, f"(c01.requeueOk {snap} {sx(m)})", "requeueOk", op, None))
        elif kind == "finish":
            for i, hh in op["returned"].items():
                trig = F1 if hh["cat"] != "NORMAL" else None
                extra.append((idx, f"(c01.rejectOk {snap} {sx(i)} {hh['cat']})", "rejectOk(finish)", op, trig))
    answers = model.ask(lines + [e[1] for e in extra])
    res.extra["model_requests"] = res.extra.get("model_requests", 0) + len(answers)
    ops_json = case_ops if case_ops is not None else [o for o, _, _ in s.log]
    first_bad = None
    for idx, ((op, ln, impl), ans) in enumerate(zip(s.log, answers)):
        kind = op["op"]
        cls = kind
        if kind == "consume":
            cls += ":" + op["cat"] + (":got" if op["got"] else ":none")
        elif kind in ("reject", "ack", "nack"):
            cls += ":" + (op["held"]["cat"] if op.get("held") else "notheld")
        res.dist[cls] += 1
        res.note((cls, shape(op["before"]) if "before" in op else ""), sample=None)
        if ans != impl and first_bad is None:
            first_bad = idx
            res.bad("corr", "Mem code-model vs InMemoryMessageBroker snapshot",
                    case={"label": label, "ops": ops_json[: idx + 1], "request": ln}, observed=impl, expected=ans)
    for (idx, ln, what, op, trig), ans in zip(extra, answers[len(lines):]):
        if ans == "true":
            continue
        res.bad("impl", f"Pred.C01.{what} on implementation snapshot",
                case={"label": label, "ops": ops_json[: idx + 1]}, observed=ln[:2000], expected="true",
                finding=trig if ans == "false" else None)
    if len(res.samples) < 3:
        res.samples.append({"label": label, "ops": [{k: v for k, v in o.items() if k != "before"} for o in ops_json[:8]]})


# ------------------------------------------------------------------------------------ (ii)
async def ill_behaved(rng: Rng) -> MemSession:
    s = MemSession()
    await s.declare("q0")
    await s.start(0, "q0", "NORMAL", None)
    for n in range(1, 6):
        await s.enqueue("q0", f"m{n}", "ta", f"p{n}", gen_params(rng, CLOCK.us))
    await s.consume(0, 2)
    for _ in range(12):
        kind = rng.choice(["ack", "nack", "reject"])
        i = rng.choice(["m1", "m2", "m3", "m4", "m5", "zz"])
        if i in s.held:
            continue
        await s.terminal(kind, "q0", i)
    return s


# ------------------------------------------------------------------------------------ (iii)
CANCEL_SCENARIOS = [
    # (name, category of the consumer that took the message, call kind)
    ("enqueue-immediate", None, "enqueue"), ("enqueue-delayed", None, "enqueue_delayed"),
    ("ack", "NORMAL", "ack"), ("nack", "NORMAL", "nack"), ("reject", "NORMAL", "reject"),
    ("requeue", "NORMAL", "requeue"), ("requeue-delayed", "NORMAL", "requeue_delayed"),
    ("consume-normal", None, "consume:NORMAL"), ("consume-delayed", None, "consume:DELAYED"),
    ("consume-dead", None, "consume:DEAD"), ("consume-normal-foreign-head", None, "consume_foreign"),
]


async def cancel_case(name: str, cat, call: str, k: int):
    """Build the scenario state, start the call, cancel its task at callback index k (relative to
    the start of the call).  Returns (session, call-sexp, snapshot after quiescence, finished?)."""
    loop = asyncio.get_running_loop()
    s = MemSession()
    await s.declare("q0")
    await s.start(0, "q0", "NORMAL", ["ta"] if call == "consume_foreign" else None)
    await s.start(1, "q0", "DELAYED", None)
    await s.start(2, "q0", "DEAD", None)
    now = CLOCK.us
    await s.enqueue("q0", "a", "ta", "pa", {"ts": now})
    await s.enqueue("q0", "d", "ta", "pd", {"ts": now, "next": now + 5 * S})
    if call == "consume_foreign":
        # foreign message at the head, own message behind it
        await s.enqueue("q0", "f", "tb", "pf", {"ts": now})
        await s.enqueue("q0", "b", "ta", "pb", {"ts": now})
    if call in ("ack", "nack", "reject", "requeue", "requeue_delayed"):
        await s.consume(0, 1)        # consumer 0 now holds "a"
    if call == "consume:DEAD":
        await s.consume(0, 1)
        await s.terminal("nack", "q0", "a")   # "a" is dead-lettered
    key = RoutingKey(topic="ta", queue="q0", priority=5, id_="a")
    now = CLOCK.us
    if call == "enqueue":
        k2 = RoutingKey(topic="ta", queue="q0", priority=5, id_="n")
        p = memrun.mk_params({"ts": now})
        coro = s.broker.enqueue(k2, "pn", p)
        csx = [A("enqueue"), msg_sx(k2, "pn", p), now]
        s.enq["q0"].append("n")
    elif call == "enqueue_delayed":
        k2 = RoutingKey(topic="ta", queue="q0", priority=5, id_="n")
        p = memrun.mk_params({"ts": now, "next": now + 3 * S})
        coro = s.broker.enqueue(k2, "pn", p)
        csx = [A("enqueue"), msg_sx(k2, "pn", p), now]
        s.enq["q0"].append("n")
    elif call in ("ack", "nack", "reject"):
        coro = getattr(s.broker, call)(key)
        csx = [A(call), "a"]
    elif call in ("requeue", "requeue_delayed"):
        p = memrun.mk_params({"ts": now, "tried": 1, "max": 3, **({"next": now + 2 * S} if call == "requeue_delayed" else {})})
        coro = s.broker.requeue(key, "pa2", p)
        csx = [A("requeue"), msg_sx(key, "pa2", p), now]
    elif call.startswith("consume"):
        c = {"consume:NORMAL": 0, "consume:DELAYED": 1, "consume:DEAD": 2, "consume_foreign": 0}[call]
        info = s.cinfo[c]
        coro = s.consumers[c].consume()
        csx = [A("consume"), c, A(info["cat"]), info["topics"], now, 6]
    else:
        raise ValueError(call)
    task = loop.create_task(coro)
    start = loop.cb_index
    state = {"fired": False}

    def hook(idx: int) -> None:
        if not state["fired"] and idx >= start + k:
            state["fired"] = True
            task.cancel()

    loop.on_callback = hook
    try:
        await asyncio.wait_for(asyncio.wait([task]), timeout=0.0045)
    except asyncio.TimeoutError:
        pass
    loop.on_callback = None
    if not task.done():
        task.cancel()
    try:
        await task
        outcome = "returned"
    except asyncio.CancelledError:
        outcome = "cancelled"
    for _ in range(5):
        await asyncio.sleep(0)
    return s, csx, snapshot(s.broker, "q0"), outcome, state["fired"]


def run_cancellation(model: Model, res: Result, tier: str) -> None:
    from common import parse_sx
    for name, cat, call in CANCEL_SCENARIOS:
        k = 0
        while k < 60:
            got = vtime.run(lambda loop, n=name, c=cat, cl=call, kk=k: cancel_case(n, c, cl, kk), budget=200_000)
            s, csx, snap, outcome, fired = got
            lines = [ln for _, ln, _ in s.log]
            ans = model.ask(lines + [sx([A("mem.prefixStates"), "q0", csx])])
            res.extra["model_requests"] = res.extra.get("model_requests", 0) + len(ans)
            for (op, ln, impl), a in zip(s.log, ans):
                if a != impl:
                    res.bad("corr", "Mem code-model vs implementation (cancellation scenario prefix)",
                            case={"scenario": name, "k": k, "request": ln}, observed=impl, expected=a)
            plist = [sx_back(x) for x in parse_sx(ans[-1])]
            snap_s = sx(snap)
            case = {"scenario": name, "call": sx(csx), "cancel_at_callback": k, "outcome": outcome}
            res.dist[f"cancel:{name}:{outcome}"] += 1
            res.note(("cancel", name, k), sample=case if k == 1 and len(res.samples) < 6 else None)
            res.extra["crash_points_enumerated"] = res.extra.get("crash_points_enumerated", 0) + 1
            if snap_s not in plist:
                res.bad("corr", "cancelled call left a state that is no atom-prefix state of the model",
                        case=case, observed=snap_s, expected=plist)
            # the property itself, on the implementation's quiescent snapshot
            enq, acked = list(s.enq["q0"]), list(s.acked["q0"])
            variants = [(enq, acked)]
            if call == "ack":
                variants.append((enq, acked + ["a"]))           # the ack may or may not have happened
            if call.startswith("enqueue"):
                variants.append(([i for i in enq if i != "n"], acked))   # the enqueue may not have happened
            ok = any(model.ask1(f"(c01.onePlace {snap_s} {sx(e)} {sx(ac)})") == "true" for e, ac in variants)
            none_or_all = call.startswith("consume") or snap_s in (plist[0], plist[-1])
            if not ok or not none_or_all:
                trig = F2 if call.startswith("requeue") else None
                res.bad("impl", "cancelled call: message lost/duplicated, or effect applied partially",
                        case=case, observed=snap_s, expected={"none": plist[0], "all": plist[-1]}, finding=trig)
            if not fired:
                break
            k += 1


def sx_back(x) -> str:
    """re-render a parsed S-expression exactly as the driver printed it"""
    from common import Atom
    if isinstance(x, list):
        return "(" + " ".join(sx_back(i) for i in x) + ")"
    if isinstance(x, Atom):
        return str(x)
    return sx(x)


def run(ctx) -> Result:
    tier, seed = ctx["tier"], ctx["seed"]
    res = Result("C01")
    model = Model()
    deep = tier == "thorough" or ctx.get("search")
    n_sessions = 400 if deep else 60
    n_ops = 80 if deep else 40
    for i in range(n_sessions):
        rng = Rng(seed, f"c01/{i}")
        s = vtime.run(lambda loop, r=rng: memrun.random_session(r, n_ops), budget=500_000)
        check_session(s, model, res, f"session-{seed}-{i}")
        if len([p for p in res.problems if p.kind != "impl" or not p.finding]) > 5:
            break
    # corpus first: witness of every listed finding, replayed on the implementation
    s = vtime.run(lambda loop: memrun.scripted_session(memrun.load_corpus("C01-F1.json")), budget=200_000)
    check_session(s, model, res, "corpus/C01-F1.json")
    for i in range(20 if deep else 5):
        rng = Rng(seed, f"c01/ill/{i}")
        s = vtime.run(lambda loop, r=rng: ill_behaved(r), budget=200_000)
        check_session(s, model, res, f"ill-{seed}-{i}")
    run_cancellation(model, res, tier)
    # Redis broker: sessions on the real RedisMessageBroker/_RedisConsumer (in-process fake server) vs the Lean model
    # Redis.R, and this property's clauses on what the implementation did
    import redisrun
    res.merge(redisrun.part(ctx, "C01", ['mixed', 'mixed', 'ttl', 'fifo'], crash=0, race=0))
    res.assumptions = list(getattr(res, "assumptions", []) or []) + redisrun.ASSUMPTIONS
    # RabbitMQ broker: sessions on the real RabbitMessageBroker/_RabbitConsumer (in-process fake AMQP server) vs Rabbit.S
    import rabbitrun
    res.merge(rabbitrun.part(ctx, "C01", ['mixed', 'ttl', 'fifo'], specials=['window', 'nackcat']))
    res.assumptions = list(res.assumptions) + rabbitrun.ASSUMPTIONS
    # the public Queue API on every broker kind (the consumer as a context manager, the generator around it)
    import queueapi
    queueapi.part_c01(res)
    return res


def search(ctx) -> Result:
    return run(dict(ctx, tier="thorough"))
