"""C09 — concurrency never exceeds tasks_limit and the worker never stalls.

Tie: real Worker under virtual time: tasks_limit ∈ {1,2,3,10}, 1–3 queues sharing the limit,
1–60 messages, duration profiles (equal, uneven, zero, heavy-tail), failures, arrivals before start /
in bursts while saturated.  (i) step-level acceptor: the runner's observable counters
(_limiter._value, len(_tasks), _tasks_processed, stop flag) after EVERY event-loop callback must be
explained by events of the Lean model `Runner.step` (`Runner.accept`); (ii) the property on the
implementation: number of actor bodies between entry and exit at every callback ≤ tasks_limit;
(iii) liveness: every enqueued job is executed before the virtual-time bound."""
from __future__ import annotations

import implenv  # noqa: F401

import asyncio

import vtime
import workrun
from common import NONE, A, Model, Result, Rng, sx
from workrun import S, WorkerRun

RULE = ("scenarios = tasks_limit × queues × message count × duration profile × failure rate × arrival pattern; "
        "a case = one worker run, distinct by (limit, queues, n, profile, arrivals); counters observed after every callback")
ASSUMPTIONS = ["fairness of asyncio.Semaphore is trusted", "liveness is observed up to a virtual-time bound"]


def make_scenario(rng: Rng, deep: bool) -> dict:
    limit = rng.choice([1, 2, 3, 10])
    nq = rng.choice([1, 1, 2, 3])
    actors = {f"act{i}": ("default" if i == 0 else f"q{i}") for i in range(nq)}
    n = rng.choice([1, 3, 8, 20, 60 if deep else 30])
    prof = rng.choice(["equal", "uneven", "zero", "heavy"])
    arrivals = rng.choice(["before", "burst", "trickle"])
    # failure patterns outside the actor body: the result store raises / no results broker configured
    store_mode = rng.choice(["ok", "ok", "fail_all", "no_broker"])
    faulty_store_p = 0.0 if store_mode == "ok" else 0.5
    jobs = []
    overrun = rng.random() < 0.4
    for i in range(n):
        a = rng.randrange(nq)
        if prof == "equal":
            d = 300_000
        elif prof == "uneven":
            d = rng.choice([0, 50_000, 400_000, 1_100_000])
        elif prof == "zero":
            d = 0
        else:
            d = 3 * S if rng.random() < 0.1 else rng.choice([0, 20_000])
        fail = rng.random() < 0.2
        j = {"id": f"m{i}", "name": f"act{a}", "queue": actors[f"act{a}"], "retries": 0, "timeout": 10 * S,
             "plan": [{"k": "raise" if fail else "ret", "dur": d}], "store_result": rng.random() < faulty_store_p}
        if overrun and rng.random() < 0.15:
            # an invocation that runs into its time limit and needs a moment to wind down after being cancelled
            j.update(timeout=1 * S, plan=[{"k": "timeout", "dur": 0, "cleanup": rng.choice([0, 1000, 300_000])}])
        if rng.random() < 0.12:
            # a time-to-live that may run out while the message waits — in the queue, or in the runner's hand for a free slot
            j["ttl"] = rng.choice([1 * S, 1 * S, 2 * S])
        if arrivals == "burst" and i >= n // 2:
            j["at"] = 600_000
        elif arrivals == "trickle":
            j["at"] = i * rng.choice([10_000, 150_000])
        jobs.append(j)
    total = sum(j["plan"][0]["dur"] + (1_400_000 if j["plan"][0]["k"] == "timeout" else 0) for j in jobs)
    return {"jobs": jobs, "actors": actors, "tasks_limit": limit, "converter": "basic", "policy": {"kind": "const", "us": 0},
            "profile": prof, "arrivals": arrivals, "overrun": overrun, "store_mode": store_mode, "store_fail_all": store_mode == "fail_all",
            "results_broker": store_mode != "no_broker", "consumer_latency_us": rng.choice([0, 0, 3_000, 40_000]),
            "horizon_s": (total / 1e6) + 8.0 + max((j.get("at", 0) for j in jobs)) / 1e6}


async def scenario(sc: dict) -> WorkerRun:
    run = WorkerRun(sc)
    await run.enqueue_all()

    async def late():
        pend = sorted((j for j in sc["jobs"] if j.get("at")), key=lambda j: j["at"])
        t0 = vtime.CLOCK.us
        for j in pend:
            await asyncio.sleep(max(0, t0 + j["at"] - vtime.CLOCK.us) / 1e6)
            await run.enqueue_job(j)
    lt = asyncio.ensure_future(late())

    async def stopper():
        # no messages_limit: the run is stopped (registered signal handler) once everything was executed
        loop = asyncio.get_running_loop()
        deadline = vtime.CLOCK.us + int(sc["horizon_s"] * 1e6) - 3 * S
        while vtime.CLOCK.us < deadline:
            await asyncio.sleep(0.05)
            done = {e["id"] for e in run.events if e["kind"] == "actor_end"}
            if len(done) == len(sc["jobs"]) and run.running == 0:
                break
        await asyncio.sleep(0.3)
        run.ev("stop_requested")
        workrun.fire_signal(loop)
    st = asyncio.ensure_future(stopper())
    await run.run_worker(limit=None, tasks_limit=sc["tasks_limit"], horizon_s=sc["horizon_s"] + 30, graceful=1.0, signals=True)
    lt.cancel()
    st.cancel()
    await asyncio.gather(lt, st, return_exceptions=True)
    return run


def check(run: WorkerRun, model: Model, res: Result, label: str) -> None:
    sc = run.sc
    L = sc["tasks_limit"]
    snaps = [[s[0], s[1], s[2], bool(s[3])] for _, s, _ in run.runner_snaps]
    ans = model.ask1(sx([A("runner.accept"), L, NONE, snaps]))
    res.extra["model_requests"] = res.extra.get("model_requests", 0) + 1
    res.extra["callbacks_observed"] = res.extra.get("callbacks_observed", 0) + (run.runner_snaps[-1][0] if run.runner_snaps else 0)
    case = {"label": label, "tasks_limit": L, "queues": len(sc["actors"]), "messages": len(sc["jobs"]), "profile": sc["profile"],
            "arrivals": sc["arrivals"], "store_mode": sc["store_mode"], "consumer_latency_us": sc["consumer_latency_us"], "jobs": [{k: v for k, v in j.items() if k in ("id", "name", "at", "plan")} for j in sc["jobs"][:40]]}
    res.dist[f"L{L}:q{len(sc['actors'])}:{sc['profile']}:{sc['arrivals']}"] += 1
    res.dist["time-limit-overruns"] += sum(1 for j in sc["jobs"] if j["plan"][0]["k"] == "timeout")
    res.note((L, len(sc["actors"]), len(sc["jobs"]), sc["profile"], sc["arrivals"]),
             sample={k: v for k, v in case.items() if k != "jobs"} | {"snapshots": len(snaps), "max_running": run.max_running}
             if len(res.samples) < 4 else None)
    if ans != "ok":
        i = int(ans.strip("()").split()[1])
        res.bad("corr", "Runner.accept: runner counters after a callback not explained by the model's events",
                case=dict(case, unexplained_index=i), observed=snaps[max(0, i - 3): i + 1], expected="a model step")
    if run.max_running > L or run.over_limit:
        res.bad("impl", "more than tasks_limit actor invocations in progress", case=case,
                observed={"max_running": run.max_running, "first": run.over_limit[:1]}, expected=f"<= {L}")
    executed = {e["id"] for e in run.events if e["kind"] == "actor_start"}
    # (a message whose time-to-live ran out before it could be executed is dead-lettered instead: accounted for)
    expired = set()
    for q in set(sc["actors"].values()):
        for mid, here in run.msg_params(q).items():
            if [h["place"] for h in here] == ["dead"]:
                expired.add(mid)
    res.dist["expired-before-execution"] += len([j for j in sc["jobs"] if j.get("ttl") and j["id"] in expired and j["id"] not in executed])
    missing = [j["id"] for j in sc["jobs"] if j["id"] not in executed and not (j.get("ttl") and j["id"] in expired)]
    returned = any(e["kind"] == "run_return" for e in run.events)
    if missing or not returned:
        res.bad("impl", "worker stalled: not every enqueued job was executed within the virtual-time bound", case=case,
                observed={"not_executed": missing[:10], "run_returned": returned}, expected="all executed, run() returned")


def run(ctx) -> Result:
    tier, seed = ctx["tier"], ctx["seed"]
    res = Result("C09")
    model = Model()
    deep = tier == "thorough" or ctx.get("search")
    # a fixed scenario first: one slot; the message that waits in the runner's hand for it has a time-to-live that runs out
    # meanwhile; two more messages behind it
    fixed = {"jobs": [{"id": "h0", "name": "act0", "queue": "default", "retries": 0, "timeout": 10 * S, "plan": [{"k": "ret", "dur": 1_500_000}], "store_result": False},
                      {"id": "h1", "name": "act0", "queue": "default", "retries": 0, "timeout": 10 * S, "ttl": 1 * S, "plan": [{"k": "ret", "dur": 0}], "store_result": False},
                      {"id": "h2", "name": "act0", "queue": "default", "retries": 0, "timeout": 10 * S, "plan": [{"k": "ret", "dur": 100_000}], "store_result": False},
                      {"id": "h3", "name": "act0", "queue": "default", "retries": 0, "timeout": 10 * S, "plan": [{"k": "ret", "dur": 0}], "store_result": False}],
             "actors": {"act0": "default"}, "tasks_limit": 1, "converter": "basic", "policy": {"kind": "const", "us": 0}, "profile": "fixed",
             "arrivals": "before", "overrun": False, "store_mode": "ok", "store_fail_all": False, "results_broker": True,
             "consumer_latency_us": 0, "horizon_s": 12.0}
    check(vtime.run(lambda loop: scenario(fixed), budget=80_000_000), model, res, "fixed/ttl-runs-out-while-waiting-for-a-slot")
    for i in range(150 if deep else 24):
        rng = Rng(seed, f"c09/{i}")
        sc = make_scenario(rng, deep)
        r = vtime.run(lambda loop, s=sc: scenario(s), budget=80_000_000)
        check(r, model, res, f"run-{seed}-{i}")
    # the same runner on the Redis and RabbitMQ brokers (in-process fake servers; prefetching consumers)
    for kind in ("redis", "rabbit"):
        for i in range(12 if deep else 4):
            rng = Rng(seed, f"c09/{kind}/{i}")
            sc = make_scenario(rng, deep)
            sc["broker"], sc["consumer_latency_us"] = kind, 0
            # the Redis consumer polls: an empty priority costs it POLLING_WAIT (0.1 s) before it looks at the next one
            sc["horizon_s"] += 0.5 * len(sc["jobs"])
            r = vtime.run(lambda loop, s=sc: scenario(s), budget=600_000_000)
            check(r, model, res, f"run-{kind}-{seed}-{i}")
            res.dist[f"broker:{kind}"] += 1
    return res


def search(ctx) -> Result:
    return run(dict(ctx, tier="thorough"))
