/-
Chains of deliveries of one job: retries (C04) and recurring iterations (C06).
The chain is driven by the decision ladder `Worker.report`; `fails k` says whether the k-th execution
of the chain (0-based) fails; `dur k` is its duration and `lat k` the delivery latency after its due
time.
-/
import RepidModel.Worker.Processor

namespace Repid.Worker
open Repid

/-- one execution of the chain: (start time, parameters as delivered, broker call made) -/
structure Exec where
  start : Int
  params : Params
  call : BCall
  fin : Int := start        -- time of the broker call that answered the execution
  failed : Bool := false
  deriving Repr, DecidableEq, Inhabited

/-- Retry chain of ONE scheduling: executions continue while the ladder answers with a
    retry-requeue; the message produced by a retry is delivered `lat k` after its back-off elapsed. -/
def retryChain (policy : Int → Int) (cron : String → Int → Int) (fails : Nat → Bool)
    (dur lat : Nat → Int) : (fuel : Nat) → (k : Nat) → Params → (start : Int) → List Exec
  | 0, _, _, _ => []
  | fuel + 1, k, p, start =>
    let fin := start + dur k
    let pn := policy (p.retries.alreadyTried + 1)
    let b := report p (!fails k) fin cron pn
    if fails k && decide (p.retries.alreadyTried < p.retries.maxAmount) then
      let p' := p.prepareRetry fin pn
      { start, params := p, call := b, fin := fin, failed := fails k } ::
        retryChain policy cron fails dur lat fuel (k + 1) p' (fin + pn + lat (k + 1))
    else [{ start, params := p, call := b, fin := fin, failed := fails k }]

end Repid.Worker
