/-
C10 — messages_limit is an upper bound and a stop condition.
Model: RepidModel/Worker/Runner.lean.  On the current code the upper-bound clause is FALSE (the
limit is only evaluated in the done-callback of a task): see `overshoot_witness`.
-/
import RepidProofs.Props.C09

namespace Repid.C10
open Repid Runner

theorem afterDone_stop (x : R) (M : Nat) (hm : x.maxTasks = some M) (hp : M ≤ x.processed + 1) :
    (afterDone x).stop = true := by
  unfold afterDone
  have : maxTasksHit { x with processed := x.processed + 1 } = true := by
    simp [maxTasksHit, hm]; omega
  simp [this]

theorem step_maxTasks (r : R) (e : Ev) : (step r e).maxTasks = r.maxTasks := by
  cases e <;> simp only [step] <;> (repeat' split) <;> simp

/-- the stop flag is never cleared by the runner -/
theorem step_stop_mono (r : R) (e : Ev) (h : r.stop = true) : (step r e).stop = true := by
  cases e <;> simp only [step] <;> (repeat' split) <;> simp [h, afterDone] <;> (split <;> simp [h])

/-- `stops_after_M_finished`: as soon as M executions have finished the stop flag is set — for every
    event sequence, tasks_limit and number of queues. -/
theorem stops_after_M_finished (limit M : Nat) (evs : List Ev) :
    let r := run (init limit (some M)) evs
    0 < r.processed → M ≤ r.processed → r.stop = true := by
  have key : ∀ (evs : List Ev) (r : R), r.maxTasks = some M →
      (0 < r.processed → M ≤ r.processed → r.stop = true) →
      (0 < (run r evs).processed → M ≤ (run r evs).processed → (run r evs).stop = true) := by
    intro evs
    induction evs with
    | nil => intro r _ h; exact h
    | cons e rest ih =>
      intro r hm h
      refine ih (step r e) (by rw [step_maxTasks]; exact hm) ?_
      cases e with
      | deliver => simp only [step]; split <;> simpa using h
      | enterAcquire => simp only [step]; (repeat' split) <;> simpa using h
      | wake => simp only [step]; (repeat' split) <;> simpa using h
      | spawn => simp only [step]; (repeat' split) <;> simpa using h
      | cancelHeld => simp only [step]; (repeat' split) <;> simpa using h
      | cancelWaiter => simp only [step]; (repeat' split) <;> simpa using h
      | done =>
        simp only [step]
        split
        · exact h
        · intro _ hM
          split at hM <;> split
          all_goals first
            | (apply afterDone_stop _ M (by simpa using hm); simp at hM ⊢; omega)
  intro r
  exact key evs (init limit (some M)) rfl (by simp [init])

/-- before the stop flag is set fewer than M executions have finished (M ≥ 1) -/
theorem processed_lt_M_before_stop (limit M : Nat) (hM : 0 < M) (evs : List Ev)
    (hs : (run (init limit (some M)) evs).stop = false) :
    (run (init limit (some M)) evs).processed < M := by
  by_cases hp : 0 < (run (init limit (some M)) evs).processed
  · by_cases hlt : (run (init limit (some M)) evs).processed < M
    · exact hlt
    · have := stops_after_M_finished limit M evs hp (by omega)
      rw [this] at hs; cases hs
  · omega

/-- every execution that was started is finished or in flight, and at most tasks_limit are in
    flight: `started ≤ processed + tasks_limit` in every reachable state -/
theorem started_le_processed_plus_limit (limit : Nat) (m : Option Nat) (evs : List Ev) :
    (run (init limit m) evs).started ≤ (run (init limit m) evs).processed + limit := by
  have h := (C09.inv_run _ evs (C09.inv_init limit m)).2.2
  have := C09.inflight_le_limit limit m evs
  omega

/-- `started_le_M_partial` — PARTIAL upper bound: while the stop flag is not set, at most
    `M − 1 + tasks_limit` executions have been started (fewer than M finished, at most tasks_limit in
    flight).  The bound `≤ M` of the statement does not hold on the current code. -/
theorem started_le_M_partial (limit M : Nat) (hM : 0 < M) (evs : List Ev)
    (hs : (run (init limit (some M)) evs).stop = false) :
    (run (init limit (some M)) evs).started + 1 ≤ M + limit := by
  have h1 := processed_lt_M_before_stop limit M hM evs hs
  have h2 := started_le_processed_plus_limit limit (some M) evs
  omega

/-- Refutation of the upper-bound clause on the current code: messages_limit = 2, tasks_limit = 1000,
    six messages waiting and actors slower than the consumer — six executions are started before the
    first completion evaluates the limit. -/
theorem overshoot_witness :
    let r := run (init 1000 (some 2)) [.deliver, .deliver, .deliver, .deliver, .deliver, .deliver]
    r.started = 6 ∧ r.stop = false ∧
    (run r [.done]).stop = true ∧ (run r [.done]).started = 6 := by
  decide

/-- …and with tasks_limit = 1, messages_limit = 1 (the testing plugin's run-on-enqueue mode) and a
    second message waiting: the slot handed over by the completing task starts a second execution. -/
theorem overshoot_witness_limit1 :
    let r := run (init 1 (some 1)) [.deliver, .deliver, .enterAcquire, .done, .wake, .spawn]
    r.started = 2 ∧ r.stop = true := by
  decide

end Repid.C10
