/-
Argument binding (code-model).  Anchors:
  repid/converter.py:57-94     BasicConverter.__init__ / convert_inputs
  repid/converter.py:104-186   PydanticConverter.__init__ / convert_inputs
  repid/_processor.py:102-107  actor called as fn(*args, **kwargs, **dependency_kwargs)
  CPython call semantics       binding of positional / keyword arguments to a signature (`call`)
-/
namespace Repid.Conv

/-- a value an actor parameter can receive -/
inductive V where
  | json (s : String)          -- a payload entry (its JSON text)
  | dflt (param : String)      -- the declared default of that parameter
  | dep (param : String)       -- the resolved dependency of that parameter
  deriving Repr, DecidableEq, Inhabited

structure P where
  name : String
  hasDefault : Bool := false
  isDep : Bool := false
  deriving Repr, DecidableEq, Inhabited

/-- a signature, grouped by parameter kind (the order Python enforces) -/
structure Sig where
  posOnly : List P := []
  posOrKw : List P := []
  varPos : Bool := false        -- *args
  kwOnly : List P := []
  varKw : Bool := false         -- **kwargs
  deriving Repr, DecidableEq, Inhabited

inductive Err where
  | missing (param : String)        -- a parameter without default got no value
  | multiple (param : String)       -- TypeError: got multiple values for argument
  | unexpectedPositional            -- TypeError: takes N positional arguments but M were given
  | unexpectedKeyword (name : String)
  | unsupported                     -- rejected at declaration time
  | invalidPayload                  -- the payload text is not acceptable input for the converter
  deriving Repr, DecidableEq, Inhabited

structure Bound where
  named : List (String × V)         -- every named parameter with the value it received, in signature order
  star : List V                     -- *args
  dstar : List (String × V)         -- **kwargs
  deriving Repr, DecidableEq, Inhabited

def Sig.named (s : Sig) : List P := s.posOnly ++ s.posOrKw ++ s.kwOnly
def Sig.payloadParams (s : Sig) : List P := s.named.filter (!·.isDep)

def lookup (k : String) : List (String × V) → Option V
  | [] => none
  | (a, v) :: rest => if a = k then some v else lookup k rest

def hasKey (k : String) (l : List (String × V)) : Bool := l.any (·.1 == k)

/-! ### CPython: calling `fn(*args, **kwargs)` -/

/-- value of the positional-capable parameter at position `i` -/
def bindPositional (args : List V) (kwargs : List (String × V)) (kwCapable : Bool) (i : Nat) (p : P) :
    Except Err V :=
  match args[i]? with
  | some v => if kwCapable && hasKey p.name kwargs then .error (.multiple p.name) else .ok v
  | none =>
    match (if kwCapable then lookup p.name kwargs else none) with
    | some v => .ok v
    | none => if p.hasDefault then .ok (.dflt p.name) else .error (.missing p.name)

def bindKwOnly (kwargs : List (String × V)) (p : P) : Except Err V :=
  match lookup p.name kwargs with
  | some v => .ok v
  | none => if p.hasDefault then .ok (.dflt p.name) else .error (.missing p.name)

/-- `mapM` in `Except`, by structural recursion (first error wins) -/
def mapE {α β : Type} (f : α → Except Err β) : List α → Except Err (List β)
  | [] => .ok []
  | a :: rest =>
    match f a with
    | .error e => .error e
    | .ok b =>
      match mapE f rest with
      | .error e => .error e
      | .ok bs => .ok (b :: bs)

/-- evaluate `g` on every parameter, pairing each value with the parameter's name (first error wins) -/
def mapNamed (g : P → Except Err V) : List P → Except Err (List (String × V))
  | [] => .ok []
  | p :: rest =>
    match g p with
    | .error e => .error e
    | .ok v =>
      match mapNamed g rest with
      | .error e => .error e
      | .ok r => .ok ((p.name, v) :: r)

/-- the same with the position of the parameter (starting at `i`) -/
def mapIdxNamed (g : Nat → P → Except Err V) : Nat → List P → Except Err (List (String × V))
  | _, [] => .ok []
  | i, p :: rest =>
    match g i p with
    | .error e => .error e
    | .ok v =>
      match mapIdxNamed g (i + 1) rest with
      | .error e => .error e
      | .ok r => .ok ((p.name, v) :: r)

/-- `fn(*args, **kwargs)` for a function with signature `s` -/
def call (s : Sig) (args : List V) (kwargs : List (String × V)) : Except Err Bound :=
  if args.length > s.posOnly.length + s.posOrKw.length ∧ ¬ s.varPos then .error .unexpectedPositional else
  if kwargs.filter (fun e => !((s.posOrKw ++ s.kwOnly).map (·.name)).contains e.1) ≠ [] ∧ ¬ s.varKw then
    .error (.unexpectedKeyword
      (((kwargs.filter (fun e => !((s.posOrKw ++ s.kwOnly).map (·.name)).contains e.1)).head?.map (·.1)).getD ""))
  else
  match mapIdxNamed (bindPositional args kwargs false) 0 s.posOnly with
  | .error e => .error e
  | .ok po =>
    match mapIdxNamed (bindPositional args kwargs true) s.posOnly.length s.posOrKw with
    | .error e => .error e
    | .ok pk =>
      match mapNamed (bindKwOnly kwargs) s.kwOnly with
      | .error e => .error e
      | .ok ko =>
        .ok { named := po ++ pk ++ ko, star := args.drop (s.posOnly.length + s.posOrKw.length),
              dstar := kwargs.filter (fun e => !((s.posOrKw ++ s.kwOnly).map (·.name)).contains e.1) }

/-! ### BasicConverter -/

/-- declaration-time checks of both converters: no dependency in a positional-only parameter -/
def declOk (s : Sig) : Bool := s.posOnly.all (!·.isDep)

/-- `loaded.pop(name, default)`; a missing entry of a parameter without default fails the execution
    (the `fix:` for F6a — before it the marker class `inspect._empty` was passed on) -/
def popOrDefault (fields : List (String × V)) (p : P) : Except Err V :=
  match lookup p.name fields with
  | some v => .ok v
  | none => if p.hasDefault then .ok (.dflt p.name) else .error (.missing p.name)

/-- `BasicConverter.convert_inputs`; `payload = none` is the empty string (`if not data: return ([], {})`) -/
def basicConvert (s : Sig) (payload : Option (List (String × V))) : Except Err (List V × List (String × V)) :=
  match payload with
  | none => .ok ([], [])
  | some fields => do
    let args ← mapE (popOrDefault fields) s.posOnly
    let kwParams := (s.posOrKw ++ s.kwOnly).filter (!·.isDep)
    let kw ← mapNamed (popOrDefault fields) kwParams
    let consumed := (s.posOnly ++ kwParams).map (·.name)
    let rest := fields.filter (fun e => !consumed.contains e.1)
    if s.varKw then .ok (args, kw ++ rest)
    else if s.varPos then .ok (args ++ rest.map (·.2), kw)
    else .ok (args, kw)

def depKwargs (s : Sig) : List (String × V) := (s.named.filter (·.isDep)).map fun p => (p.name, V.dep p.name)

/-- the call the processor makes: `fn(*args, **kwargs, **dependency_kwargs)` -/
def basicCall (s : Sig) (payload : Option (List (String × V))) : Except Err Bound :=
  if !declOk s then .error .unsupported else
  match basicConvert s payload with
  | .error e => .error e
  | .ok (args, kw) => call s args (kw ++ depKwargs s)

/-- a payload entry named like a dependency parameter reaches the call as a keyword argument (only a `**kwargs` actor
    lets such an entry through): `fn(*args, **kwargs, **dependency_kwargs)` then has a keyword twice -/
def depKeyCollision (s : Sig) (payload : Option (List (String × V))) : Option String :=
  match payload with
  | none => none
  | some fields =>
    if s.varKw then (fields.find? fun e => hasKey e.1 (depKwargs s)).map (·.1) else none

/-- the call the processor makes, with CPython's rejection of a repeated keyword at the call site: the execution fails
    before the actor body runs (no invocation ever sees a dependency parameter that is not its provider's value) -/
def basicCallChecked (s : Sig) (payload : Option (List (String × V))) : Except Err Bound :=
  if !declOk s then .error .unsupported else
  match basicConvert s payload with
  | .error e => .error e          -- a missing required argument is found first, while converting
  | .ok _ =>
    match depKeyCollision s payload with
    | some k => .error (.multiple k)
    | none => basicCall s payload

/-! ### PydanticConverter (validation = identity on well-typed values; extra entries ignored) -/

def pydanticDeclOk (s : Sig) : Bool := declOk s && !s.varPos && !s.varKw

/-- `model_validate_json(data)` then split of positional-only; an empty payload is validated as `{}`
    (the `fix:` for F6c) -/
def pydanticConvert (s : Sig) (payload : Option (List (String × V))) : Except Err (List V × List (String × V)) := do
  let fields := payload.getD []
  let args ← mapE (popOrDefault fields) s.posOnly
  let kwParams := (s.posOrKw ++ s.kwOnly).filter (!·.isDep)
  let kw ← mapNamed (popOrDefault fields) kwParams
  .ok (args, kw)

def pydanticCall (s : Sig) (payload : Option (List (String × V))) : Except Err Bound :=
  if !pydanticDeclOk s then .error .unsupported else
  match pydanticConvert s payload with
  | .error e => .error e
  | .ok (args, kw) => call s args (kw ++ depKwargs s)

/-! ### SPEC (the statement of C08, written without looking at the converters) -/

/-- value a named parameter must receive -/
def specValue (fields : List (String × V)) (p : P) : Except Err V :=
  if p.isDep then .ok (.dep p.name)
  else match lookup p.name fields with
    | some v => .ok v
    | none => if p.hasDefault then .ok (.dflt p.name) else .error (.missing p.name)

/-- each parameter receives the payload entry of its name or else its declared default; entries with no
    matching parameter go only to a catch-all parameter (`**kwargs` if present, else `*args`); a payload
    lacking a parameter that has no default fails -/
def spec (s : Sig) (payload : Option (List (String × V))) : Except Err Bound := do
  let fields := payload.getD []
  let named ← mapNamed (specValue fields) s.named
  let names := s.payloadParams.map (·.name)
  let extras := fields.filter (fun e => !names.contains e.1)
  pure { named, star := if !s.varKw && s.varPos then extras.map (·.2) else [],
         dstar := if s.varKw then extras else [] }

end Repid.Conv
