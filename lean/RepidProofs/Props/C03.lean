/-
C03 — Stopping or killing a worker at any moment loses no message (in-memory broker part).

Worker shutdown at the broker level: the processing task of a held message `i` is cancelled at an
arbitrary point — i.e. after `k` atoms of whatever broker call it was making — and then the runner
calls `reject(i)`; finally `consumer.finish()` returns everything still held.
-/
import RepidModel.Pred.C01
import RepidModel.Worker.Shutdown
import RepidProofs.Proofs.MemOps

namespace Repid.C03
open Repid Mem Pred.C01

/-- the state after: cancel the task inside `call` after `k` atoms, then `reject(i)` -/
def cancelThenReject (cron : String → Int → Int) (q : Q) (call : Call) (k : Nat) (i : String) : Q :=
  rejectA (run cron q (call.cancelledAfter k)) i

/-- cancelled BEFORE the broker call did anything (k = 0, or no call in progress at all): the message
    is back in the waiting queue, exactly once, with the parameters it was delivered with
    (retry counter unchanged), and no longer marked in-flight. -/
theorem cancel_before_returns (cron : String → Int → Int) (q : Q) (call : Call) (i : String) (h : Held)
    (hone : (ids q).count i = 1) (hheld : findHeld q i = some h) :
    let q' := cancelThenReject cron q call 0 i
    live i q' = 1 ∧ cntId i q'.simple = 1 ∧ h.msg ∈ q'.simple ∧ cntId i (heldMsgs q') = 0 := by
  simp only [cancelThenReject, Call.cancelledAfter, List.take_zero, run, List.foldl_nil]
  rw [← total_eq_count_ids, total_eq_live] at hone
  have hp := held_count_pos hheld
  have hid := findHeld_id hheld
  simp only [rejectA, hheld, live, cntId_eq_cnt, heldMsgs, cnt_append, cnt_singleton, hid, if_true, dropHeld] at *
  refine ⟨by omega, by omega, by simp, by omega⟩

/-- cancelled AFTER a single-atom disposition (ack / nack) took effect: the following `reject` finds
    nothing and changes nothing — the message is disposed exactly once, not also returned. -/
theorem cancel_after_disposed (cron : String → Int → Int) (q : Q) (i : String) (h : Held)
    (hone : (ids q).count i = 1) (hheld : findHeld q i = some h) :
    cancelThenReject cron q (.ack i) 1 i = ackA q i ∧
    cancelThenReject cron q (.nack i) 1 i = nackA q i := by
  rw [← total_eq_count_ids, total_eq_live] at hone
  have hp := held_count_pos hheld
  have hgone : ∀ (p : List Held), cnt i (p.map (·.msg)) = 0 → p.find? (·.msg.id == i) = none := by
    intro p hc
    apply List.find?_eq_none.mpr
    intro x hx hxe
    have : 0 < cnt i (p.map (·.msg)) := by
      unfold cnt
      exact List.count_pos_iff.mpr (List.mem_map.mpr ⟨x.msg, List.mem_map.mpr ⟨x, hx, rfl⟩, by simpa using hxe⟩)
    omega
  have hd : cnt i ((dropHeld q i).map (·.msg)) = 0 := by
    simp only [live, cntId_eq_cnt, heldMsgs] at hone hp; omega
  have noop : ∀ (x : Q), findHeld x i = none → rejectA x i = x := by
    intro x hx; simp [rejectA, hx]
  constructor
  · have e : cancelThenReject cron q (.ack i) 1 i = rejectA (ackA q i) i := by
      simp [cancelThenReject, Call.cancelledAfter, Call.atoms, run, step]
    rw [e]
    apply noop
    have : (ackA q i).processing = dropHeld q i := by simp [ackA, hheld]
    unfold findHeld; rw [this]; exact hgone _ hd
  · have e : cancelThenReject cron q (.nack i) 1 i = rejectA (nackA q i) i := by
      simp [cancelThenReject, Call.cancelledAfter, Call.atoms, run, step]
    rw [e]
    apply noop
    have : (nackA q i).processing = dropHeld q i := by simp [nackA, hheld]
    unfold findHeld; rw [this]; exact hgone _ hd

/-- `stop_conserves_partial`: for a held message and ANY cancellation point inside an ack or nack
    (k = 0 or 1 atoms applied), after the runner's `reject` the message is in exactly one place —
    returned to the queue or disposed, never both, never neither, never still in-flight.
    PARTIAL: the two-atom `requeue` is excluded (see `requeue_window_witness`). -/
theorem stop_conserves_partial (cron : String → Int → Int) (q : Q) (i : String) (h : Held) (k : Nat)
    (hone : (ids q).count i = 1) (hheld : findHeld q i = some h) (hacked : cntId i q.acked = 0) (hk : k ≤ 1) :
    (∀ call, call = Call.ack i ∨ call = Call.nack i →
      let q' := cancelThenReject cron q call k i
      live i q' + cntId i q'.acked = 1 ∧ cntId i (heldMsgs q') = 0) := by
  intro call hcall
  have hk' : k = 0 ∨ k = 1 := by omega
  rcases hk' with rfl | rfl
  · have := cancel_before_returns cron q call i h hone hheld
    simp only at this ⊢
    refine ⟨?_, this.2.2.2⟩
    have hq : (cancelThenReject cron q call 0 i).acked = q.acked := by
      simp [cancelThenReject, Call.cancelledAfter, run, rejectA, hheld]
    rw [hq, hacked]; omega
  · have hd := cancel_after_disposed cron q i h hone hheld
    rw [← total_eq_count_ids, total_eq_live] at hone
    have hp := held_count_pos hheld
    have hid := findHeld_id hheld
    rcases hcall with rfl | rfl
    · simp only [hd.1]
      simp only [ackA, hheld, live, cntId_eq_cnt, heldMsgs, cnt_append, cnt_singleton, hid, if_true, dropHeld] at *
      omega
    · simp only [hd.2]
      simp only [nackA, hheld, live, cntId_eq_cnt, heldMsgs, cnt_append, cnt_singleton, hid, if_true, dropHeld] at *
      omega

/-- Refutation of the full statement on the current code: cancelled between the two halves of a
    `requeue` (retry or reschedule of a failed / recurring job), the message is in no place: the
    following `reject` finds nothing, `finish()` has nothing to return. -/
theorem requeue_window_witness :
    let m : Msg := { id := "m1", topic := "t" }
    let m' : Msg := { id := "m1", topic := "t", params := { retries := { maxAmount := 2, alreadyTried := 1 } } }
    let q0 : Q := { processing := [{ msg := m, who := 0, frm := .normal }] }
    let q1 := cancelThenReject (fun _ n => n) q0 (.requeue m' 0) 1 "m1"
    let q2 := finishA q1 0 q1.processing
    live "m1" q2 = 0 ∧ q2.acked = [] ∧ q2.simple = [] ∧ q2.dead = [] := by
  decide

/-- `finish()` leaves nothing marked in-flight and returns every held message unchanged. -/
theorem finish_returns_all (q : Q) (c : Nat) :
    (finishA q c q.processing).processing = [] ∧
    ∀ h ∈ q.processing, h.msg ∈ (finishA q c q.processing).simple := by
  refine ⟨rfl, fun h hh => ?_⟩
  simp only [finishA, List.mem_append, List.mem_map]
  exact Or.inr ⟨h, hh, rfl⟩

/-- `return_time_bound`: whatever the tasks, consumers and the health server do, run() returns at most
    graceful period + 5 s + 1 s after the stop request (the timers cut every phase). -/
theorem return_time_bound (t : Shutdown.Timers) (p : Shutdown.Phases) :
    Shutdown.returnAfter t p ≤ t.grace + t.consumerFinish + t.healthStop := by
  unfold Shutdown.returnAfter; omega

end Repid.C03
