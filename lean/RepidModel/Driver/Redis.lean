import RepidModel.Driver.State
import RepidModel.Driver.Mem

namespace Repid.Driver
open Repid Sexp Wire Redis

def markerOf : Sexp → Option Marker
  | .atom "n" => some .n | .atom "d" => some .d | .atom "dead" => some .dead
  | .atom "NORMAL" => some .n | .atom "DELAYED" => some .d | .atom "DEAD" => some .dead
  | _ => none

def markerTo : Marker → Sexp
  | .n => .atom "n" | .d => .atom "d" | .dead => .atom "dead"

/-- (K prio topic id) -/
def rkeyOf : Sexp → Option Key
  | .list [.atom "K", p, t, i] => do pure { prio := ← toNat? p, topic := ← toStr? t, id := ← toStr? i }
  | _ => none

def leKey (a b : Nat × String) : Bool := a.1 < b.1 || (a.1 == b.1 && a.2 ≤ b.2)

/-- canonical state: per-priority lists in list order; sets and hashes sorted -/
def rTo (r : R) : Sexp :=
  let prios := (r.normal.map (·.1) ++ r.dead.map (·.1)).eraseDups.mergeSort (· ≤ ·)
  .list [.atom "R",
    ofList (fun p => .list [ofNat p, ofList .str (view r.normal p)]) (prios.filter fun p => !(view r.normal p).isEmpty),
    ofList (fun e : (Nat × String) × Int => .list [ofNat e.1.1, .str e.1.2, ofInt e.2])
      (r.delayed.mergeSort fun a b => leKey a.1 b.1),
    ofList (fun p => .list [ofNat p, ofList .str (view r.dead p)]) (prios.filter fun p => !(view r.dead p).isEmpty),
    ofList (fun e : String × Int => .list [.str e.1, ofInt e.2]) (r.processing.mergeSort fun a b => a.1 ≤ b.1),
    ofList (fun e : (Nat × String) × Hash => .list [ofNat e.1.1, .str e.1.2, ofOpt .str e.2.payload,
        ofOpt paramsTo e.2.params, ofOpt markerTo e.2.rejectTo])
      (r.hashes.mergeSort fun a b => leKey a.1 b.1)]

def delTo : Option Delivery → Sexp
  | none => .atom "none"
  | some d => .list [.atom "D", ofNat d.prio, .str d.short, .str d.payload, paramsTo d.params]

def redis : Handler := fun st cmd args =>
  match cmd, args with
  | "redis.reset", [] => some ({ st with redis := {} }, .atom "ok")
  | "redis.snapshot", [] => some (st, rTo st.redis)
  | "redis.enqueue", [k, pl, p, now] => do
    let p ← paramsOf p; noCron p
    let r := enqueueTx st.redis (← rkeyOf k) (← toStr? pl) p (← toInt? now) cronStub
    pure ({ st with redis := r }, rTo r)
  | "redis.requeue", [k, pl, p, now] => do
    let p ← paramsOf p; noCron p
    let r := requeueTx st.redis (← rkeyOf k) (← toStr? pl) p (← toInt? now) cronStub
    pure ({ st with redis := r }, rTo r)
  | "redis.ack", [k] => do let r := ackTx st.redis (← rkeyOf k); pure ({ st with redis := r }, rTo r)
  | "redis.nack", [k] => do let r := nackTx st.redis (← rkeyOf k); pure ({ st with redis := r }, rTo r)
  | "redis.reject", [k, now] => do
    let r := reject st.redis (← rkeyOf k) (← toInt? now) cronStub
    pure ({ st with redis := r }, rTo r)
  -- (redis.consume category (topics…) now (prio order…)) → the delivery of one consume_or_none pass
  | "redis.consume", [cat, topics, now, order] => do
    let (r, d) := consumeOrNone (← markerOf cat) (← mapM? toStr? topics) (← toInt? now) (← mapM? toNat? order) st.redis
    pure ({ st with redis := r }, .list [.atom "res", delTo d, rTo r])
  | "redis.maintenance", [now] => do
    let r := maintenance st.redis (← toInt? now) cronStub
    pure ({ st with redis := r }, rTo r)
  -- the consumer's atoms, for interleavings of two consumers
  | "redis.fetch", [cat, prio, topics, nowSec] => do
    let cat ← markerOf cat; let prio ← toNat? prio; let topics ← mapM? toStr? topics; let ns ← toInt? nowSec
    let x := match cat with
      | .d => fetchDelayed st.redis prio topics ns false
      | c => fetchNormal st.redis c prio topics
    pure (st, ofOpt .str x)
  | "redis.take", [cat, prio, short, nowSec] => do
    let r := takeTx st.redis (← markerOf cat) (← toNat? prio) (← toStr? short) (← toInt? nowSec)
    pure ({ st with redis := r }, rTo r)
  | _, _ => none

end Repid.Driver
