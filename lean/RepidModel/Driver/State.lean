import RepidModel.Base.Wire
import RepidModel.Broker.InMemory
import RepidModel.Broker.Redis
import RepidModel.Broker.Rabbit

namespace Repid.Driver
open Repid

/-- Mutable state of a driver session (one per process). -/
structure DState where
  mem : List (String × Mem.Q) := []
  redis : Redis.R := {}
  rabbit : Rabbit.S := {}
  deriving Inhabited

abbrev Handler := DState → String → List Sexp → Option (DState × Sexp)

def pureHandler (f : String → List Sexp → Option Sexp) : Handler :=
  fun st cmd args => (f cmd args).map fun r => (st, r)

end Repid.Driver
