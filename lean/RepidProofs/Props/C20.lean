/-
C20 — the health endpoint tells the truth and cannot be knocked over.
Model: RepidModel/Health/Server.lean.
-/
import RepidModel.Health.Server

namespace Repid.C20
open Repid Health

/-! ### text splitting -/

theorem splitFirst_single (c : Char) (pre post : List Char) (h : c ∉ pre) :
    splitFirst [c] (pre ++ c :: post) = some (pre, post) := by
  induction pre with
  | nil => simp [splitFirst, List.isPrefixOf]
  | cons x rest ih =>
    simp only [List.mem_cons, not_or] at h
    have hx : ¬ x = c := fun e => h.1 e.symm
    simp only [List.cons_append, splitFirst, List.isPrefixOf, beq_iff_eq]
    simp [hx, ih h.2, Ne.symm hx, h.1]

theorem splitFirst_crlf (pre post : List Char) (h : '\r' ∉ pre) :
    splitFirst crlf (pre ++ crlf ++ post) = some (pre, post) := by
  induction pre with
  | nil => simp [splitFirst, crlf, List.isPrefixOf]
  | cons x rest ih =>
    simp only [List.mem_cons, not_or] at h
    have hx : ¬ x = '\r' := fun e => h.1 e.symm
    have hx' : ¬ '\r' = x := h.1
    have ih' := ih h.2
    simp only [crlf, List.append_assoc, List.cons_append, List.nil_append] at ih'
    simp only [List.cons_append, List.append_assoc, List.nil_append, splitFirst, crlf, List.isPrefixOf]
    simp [hx', ih']

theorem splitFirst_crlf_none (pre : List Char) (h : '\r' ∉ pre) : splitFirst crlf pre = none := by
  induction pre with
  | nil => rfl
  | cons x rest ih =>
    simp only [List.mem_cons, not_or] at h
    have hx' : ¬ '\r' = x := h.1
    simp only [splitFirst, crlf, List.isPrefixOf, beq_iff_eq]
    simp only [crlf] at ih
    simp [hx', ih h.2]

/-! ### what a request is answered with -/

/-- `get_endpoint_reports_status`: EVERY request whose head (the text before the first blank line) starts with the
    line `GET <endpoint> <version>` — whatever the version text, whatever header lines follow, whatever the body —
    is answered with the current status. -/
theorem get_endpoint_reports_status (endpoint version rest body head msg : List Char) (st : Status)
    (hsplit : splitFirst crlf2 msg = some (head, body))
    (hhead : head = "GET".toList ++ ' ' :: (endpoint ++ ' ' :: version) ++ rest)
    (hrest : rest = [] ∨ ∃ r, rest = crlf ++ r)
    (he : ' ' ∉ endpoint ∧ '\r' ∉ endpoint) (hv : '\r' ∉ version) :
    handle endpoint st msg = some st.content := by
  have hline : '\r' ∉ "GET".toList ++ ' ' :: (endpoint ++ ' ' :: version) := by
    simp only [List.mem_append, List.mem_cons, not_or]
    refine ⟨by decide, by decide, he.2, by decide, hv⟩
  have hl : firstLine head = "GET".toList ++ ' ' :: (endpoint ++ ' ' :: version) := by
    unfold firstLine
    rcases hrest with h | ⟨r, h⟩
    · subst h; rw [hhead, List.append_nil, splitFirst_crlf_none _ hline]
    · subst h; rw [hhead, ← List.append_assoc, splitFirst_crlf _ _ hline]
  have h1 : splitFirst [' '] ("GET".toList ++ ' ' :: (endpoint ++ ' ' :: version))
      = some ("GET".toList, endpoint ++ ' ' :: version) := splitFirst_single ' ' _ _ (by decide)
  have h2 : splitFirst [' '] (endpoint ++ ' ' :: version) = some (endpoint, version) :=
    splitFirst_single ' ' _ _ he.1
  simp only [handle, parse, hsplit]
  rw [hl, h1]
  dsimp only
  rw [h2]
  simp [content]

/-- any other method or path that can be read from the request is answered 404 -/
theorem other_request_404 (endpoint msg m p : List Char) (st : Status) (hp : parse msg = some (m, p))
    (hne : ¬ (m = "GET".toList ∧ p = endpoint)) : handle endpoint st msg = some notFound := by
  simp only [handle, hp, Option.map_some, content]
  rw [if_neg hne]

/-- whatever text arrives, the connection is either dropped without a response or answered with one of exactly
    three contents; the handler has no other effect (it is a function of the text, the endpoint and the status) -/
theorem handle_total (endpoint msg : List Char) (st : Status) :
    handle endpoint st msg = none ∨ handle endpoint st msg = some st.content ∨
    handle endpoint st msg = some notFound := by
  simp only [handle]
  cases parse msg with
  | none => exact Or.inl rfl
  | some mp =>
    obtain ⟨m, p⟩ := mp
    simp only [Option.map_some, content]
    by_cases h : m = "GET".toList ∧ p = endpoint
    · exact Or.inr (Or.inl (by rw [if_pos h]))
    · exact Or.inr (Or.inr (by rw [if_neg h]))

/-- a chunk without a blank line (a truncated request, or the first fragment of a request split across packets)
    is dropped without a response — the behaviour recorded as known finding F17 -/
theorem no_blank_line_dropped (endpoint msg : List Char) (st : Status) (h : splitFirst crlf2 msg = none) :
    handle endpoint st msg = none := by
  simp [handle, parse, h]

/-! ### the server cannot be knocked over: traffic never changes its state -/

theorem traffic_preserves_state (s : Srv) (e : Ev) (h : (∃ t, e = .request t) ∨ e = .garbage) :
    (step s e).1 = s := by
  rcases h with ⟨t, rfl⟩ | rfl <;> rfl

/-- the last start/stop among the events, if any -/
def lastSwitch : List Ev → Option Bool
  | [] => none
  | .start :: rest => (lastSwitch rest).orElse fun _ => some true
  | .stop :: rest => (lastSwitch rest).orElse fun _ => some false
  | _ :: rest => lastSwitch rest

/-- `status_iff_failed`: after ANY sequence of events — any amount of traffic, any bytes, starts and stops — the
    server reports UNHEALTHY iff a consumer has failed (or it already did before) -/
theorem status_iff_failed (s : Srv) (evs : List Ev) :
    (run s evs).1.status = .unhealthy ↔ (s.status = .unhealthy ∨ Ev.consumerFailed ∈ evs) := by
  induction evs generalizing s with
  | nil => simp [run]
  | cons e rest ih =>
    simp only [run]
    rw [ih]
    cases e <;> simp [step]

/-- `serving_iff_running`: the port is open exactly between a start and the next stop, whatever traffic arrives -/
theorem serving_iff_running (s : Srv) (evs : List Ev) :
    (run s evs).1.serving = ((lastSwitch evs).getD s.serving) := by
  induction evs generalizing s with
  | nil => simp [run, lastSwitch]
  | cons e rest ih =>
    simp only [run]
    rw [ih]
    cases e <;> simp only [step, lastSwitch] <;> cases lastSwitch rest <;> simp [Option.orElse]

theorem endpoint_constant (s : Srv) (evs : List Ev) : (run s evs).1.endpoint = s.endpoint := by
  induction evs generalizing s with
  | nil => rfl
  | cons e rest ih =>
    simp only [run]
    rw [ih]
    cases e <;> simp [step]

/-- output of the last event of a sequence -/
theorem run_append_last (s : Srv) (evs : List Ev) (e : Ev) :
    (run s (evs ++ [e])).2 = (run s evs).2 ++ [(step (run s evs).1 e).2] := by
  induction evs generalizing s with
  | nil => simp [run]
  | cons x rest ih => simp only [List.cons_append, run, ih]

/-- `truthful`: after any history, a GET on the endpoint that reaches a serving server is answered 503 iff a consumer
    has failed in that history and 200 otherwise; when not serving, the connection is refused. -/
theorem truthful (endpoint version body head msg : List Char) (evs : List Ev)
    (hsplit : splitFirst crlf2 msg = some (head, body))
    (hhead : head = "GET".toList ++ ' ' :: (endpoint ++ ' ' :: version))
    (he : ' ' ∉ endpoint ∧ '\r' ∉ endpoint) (hv : '\r' ∉ version) :
    (step (run { endpoint := endpoint } evs).1 (.request msg)).2 =
      if (lastSwitch evs).getD false then
        .answered (if Ev.consumerFailed ∈ evs then Status.unhealthy.content else Status.ok.content)
      else .refused := by
  have hs := serving_iff_running { endpoint := endpoint } evs
  have hst := status_iff_failed { endpoint := endpoint } evs
  have hep := endpoint_constant { endpoint := endpoint } evs
  simp only at hs hst hep
  simp only [step, hs]
  cases hsw : (lastSwitch evs).getD false with
  | false => simp
  | true =>
    simp only [Bool.not_true, Bool.false_eq_true, if_false, if_true, hep]
    rw [get_endpoint_reports_status endpoint version [] body head msg _ hsplit (by simpa using hhead) (Or.inl rfl) he hv]
    by_cases hf : Ev.consumerFailed ∈ evs
    · have : (run { endpoint := endpoint } evs).1.status = .unhealthy := hst.mpr (Or.inr hf)
      simp [this, hf]
    · have : (run { endpoint := endpoint } evs).1.status = .ok := by
        cases hh : (run { endpoint := endpoint } evs).1.status with
        | ok => rfl
        | unhealthy => exact absurd (hst.mp hh) (by simp [hf])
      simp [this, hf]

/-! ### non-vacuity -/
example : handle "/healthz".toList .ok "GET /healthz HTTP/1.1\r\nHost: x\r\n\r\n".toList = some "200 OK".toList := by decide
example : handle "/healthz".toList .unhealthy "GET /healthz HTTP/1.1\r\n\r\n".toList = some "503 UNHEALTHY".toList := by decide
example : handle "/healthz".toList .ok "POST /healthz HTTP/1.1\r\n\r\n".toList = some "404 Not Found".toList := by decide
example : handle "/healthz".toList .ok "GET /hea".toList = none := by decide
example : handle "/healthz".toList .ok "GET /healthz\r\n\r\n".toList = none := by decide
example : (run { endpoint := "/h".toList } [.start, .request "GET /h x\r\n\r\n".toList, .consumerFailed, .garbage,
    .request "GET /h x\r\n\r\n".toList, .stop, .request "GET /h x\r\n\r\n".toList]).2
    = [.none, .answered "200 OK".toList, .none, .dropped, .answered "503 UNHEALTHY".toList, .none, .refused] := by decide

end Repid.C20
