/-
What `Worker.run` does with the messages it holds when it stops, on the Redis broker (code-model).  Anchors:
  repid/_runner.py:96-113     _run_consumer: the message in hand while waiting for a task slot; rejected on cancellation
  repid/_runner.py:73-88      _process_with_event: on the cancel event the task is cancelled and the message rejected
  repid/connections/redis/consumer.py:58-66   finish(): cancels the background fetch task, rejects the local queue
  repid/connections/redis/consumer.py:74-88   backgroud_consume: fetch (take + details), then queue.put
-/
import RepidModel.Broker.Redis

namespace Repid.StopRedis
open Repid Redis

/-- the worker's view at the moment it stops: besides the Redis keyspace `r`, the messages that exist only in its
    memory — all of them marked in `processing` on the server -/
structure W where
  r : R
  /-- taken by the consumer's background loop, not yet in its local queue -/
  fetching : Option Key := none
  /-- the consumer's local (prefetch) queue -/
  loc : List Key := []
  /-- handed to the runner, which waits for a free task slot -/
  inHand : Option Key := none
  /-- being executed -/
  running : List Key := []
  deriving Repr, Inhabited

def rejectAll (r : R) (ks : List Key) (now : Int) (cron : String → Int → Int) : R :=
  ks.foldl (fun acc k => reject acc k now cron) r

/-- everything the stop sequence gives back -/
def W.givenBack (w : W) : List Key := w.inHand.toList ++ w.running ++ w.loc

/-- the stop sequence with graceful period 0: the in-hand message is rejected (`fix:` dfed4c8), every running task is
    cancelled and its message rejected, `finish()` rejects the local queue — and cancels the fetch task, whose message
    nobody gives back (finding F24) -/
def stop (w : W) (now : Int) (cron : String → Int → Int) : R := rejectAll w.r w.givenBack now cron

end Repid.StopRedis
