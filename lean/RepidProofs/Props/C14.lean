/-
C14 — A message is held by at most one consumer at a time (in-memory broker).

Ghost `believes : List (consumer × id)`: a pair is added when `consume()` hands the id to the
consumer and removed when the holder disposes of it (ack / nack / reject / requeue) or when that
consumer itself finishes.  `finish()` of ANOTHER consumer does not remove it — the code, however,
returns every held message of the queue to the waiting list (`while processing: put(pop())`).
-/
import RepidModel.Pred.Broker
import RepidProofs.Proofs.MemOps

namespace Repid.C14
open Repid Mem Pred.C14

/-- invariant: ids occur at most once overall; at most one believer per id; every belief is backed
    by a processing entry of that consumer -/
def Inv (q : Q) : Prop :=
  (∀ i, total i q ≤ 1) ∧
  (q.believes.map (·.2)).Nodup ∧
  (∀ b ∈ q.believes, ∃ h ∈ q.processing, h.who = b.1 ∧ h.msg.id = b.2)

/-- hypotheses on one step: ids brought in from outside are fresh (distinct message ids), and —
    PARTIAL — a consumer only finishes while every held message of the queue is its own. -/
def StepOk (q : Q) (op : Op) : Prop :=
  (∀ i ∈ introduces q op, total i q = 0) ∧
  (match op with
   | .finish c _ => ∀ h ∈ q.processing, h.who = c
   | _ => True)

theorem poll_keeps (q : Q) (cat : Cat) (now : Int) (topics : List String) :
    (poll q cat now topics).2.processing = q.processing ∧
    (poll q cat now topics).2.believes = q.believes := by
  cases cat with
  | normal =>
    simp only [poll, pollNormal]
    cases q.simple with
    | nil => simp
    | cons x xs =>
      by_cases h1 : x.params.isOverdue now = true
      · simp [h1]
      · by_cases h2 : (!wants topics x) = true
        · simp [h1, h2]
        · simp [h1, h2]
  | delayed =>
    simp only [poll, pollDelayed]
    cases minKey q.delayed <;> simp
  | dead =>
    simp only [poll, pollDead]
    cases q.dead <;> simp

theorem nodup_filter_snd (l : List (Nat × String)) (p : Nat × String → Bool)
    (h : (l.map (·.2)).Nodup) : ((l.filter p).map (·.2)).Nodup :=
  List.Nodup.sublist (List.Sublist.map _ List.filter_sublist) h

/-- beliefs about ids other than the disposed one stay backed after the entry is dropped -/
theorem backed_after_drop (q : Q) (i : String) (b : Nat × String)
    (hb : ∃ h ∈ q.processing, h.who = b.1 ∧ h.msg.id = b.2) (hne : b.2 ≠ i) :
    ∃ h ∈ dropHeld q i, h.who = b.1 ∧ h.msg.id = b.2 := by
  obtain ⟨h, hm, hw, hid⟩ := hb
  refine ⟨h, ?_, hw, hid⟩
  unfold dropHeld
  exact (List.mem_eraseP_of_neg (by simp [hid, hne])).mpr hm

theorem inv_dispose (q : Q) (i : String) (q' : Q) (hinv : Inv q)
    (htot : ∀ j, total j q' = total j q)
    (hproc : q'.processing = dropHeld q i) (hbel : q'.believes = q.believes.filter (·.2 != i)) :
    Inv q' := by
  refine ⟨fun j => by rw [htot]; exact hinv.1 j, ?_, ?_⟩
  · rw [hbel]; exact nodup_filter_snd _ _ hinv.2.1
  · intro b hb
    rw [hbel] at hb
    have hb' := List.mem_filter.mp hb
    rw [hproc]
    exact backed_after_drop q i b (hinv.2.2 b hb'.1) (by simpa using hb'.2)

theorem introduces_count_le (q : Q) (op : Op) (i : String) : (introduces q op).count i ≤ 1 := by
  cases op with
  | put m now => simp [introduces, List.count_cons]; split <;> simp
  | reput m now =>
    simp only [introduces]; split
    · simp
    · simp [List.count_cons]; split <;> simp
  | ack _ => simp [introduces]
  | nack _ => simp [introduces]
  | reject _ => simp [introduces]
  | unhold _ => simp [introduces]
  | update _ => simp [introduces]
  | poll _ _ _ _ => simp [introduces]
  | finish _ _ => simp [introduces]

/-- every atom preserves the invariant (under `StepOk`) -/
theorem inv_step (cron : String → Int → Int) (q : Q) (op : Op) (hinv : Inv q) (hok : StepOk q op) :
    Inv (step cron q op) := by
  have htot : ∀ i, total i (step cron q op) ≤ 1 := by
    intro i
    rw [total_step]
    by_cases hi : i ∈ introduces q op
    · have h0 := hok.1 i hi
      have : (introduces q op).count i ≤ 1 := introduces_count_le q op i
      omega
    · have := List.count_eq_zero.mpr hi
      have := hinv.1 i; omega
  cases op with
  | put m now =>
    refine ⟨htot, ?_, ?_⟩ <;> simp only [step, put] <;> split <;> first | exact hinv.2.1 | exact hinv.2.2
  | reput m now =>
    refine ⟨htot, ?_, ?_⟩ <;> simp only [step, reputA, put] <;> split <;> first | exact hinv.2.1 | exact hinv.2.2
  | update now => exact ⟨htot, hinv.2.1, hinv.2.2⟩
  | ack i =>
    simp only [step, ackA] at htot ⊢; split
    · exact inv_dispose q i _ hinv (fun j => by
        have := total_ackA j q i; simpa [ackA, *] using this) rfl rfl
    · exact hinv
  | nack i =>
    simp only [step, nackA] at htot ⊢; split
    · exact inv_dispose q i _ hinv (fun j => by
        have := total_nackA j q i; simpa [nackA, *] using this) rfl rfl
    · exact hinv
  | reject i =>
    simp only [step, rejectA] at htot ⊢; split
    · exact inv_dispose q i _ hinv (fun j => by
        have := total_rejectA j q i; simpa [rejectA, *] using this) rfl rfl
    · exact hinv
  | unhold i =>
    simp only [step, unholdA] at htot ⊢; split
    · exact inv_dispose q i _ hinv (fun j => by
        have := total_unholdA j q i; simpa [unholdA, *] using this) rfl rfl
    · exact hinv
  | finish c perm =>
    by_cases hp : perm.isPerm q.processing = true
    · simp only [step, hp, if_true] at htot ⊢
      refine ⟨htot, nodup_filter_snd _ _ hinv.2.1, ?_⟩
      intro b hb
      simp only [finishA] at hb
      have hb' := List.mem_filter.mp hb
      obtain ⟨h, hm, hw, _⟩ := hinv.2.2 b hb'.1
      have := hok.2 h hm
      simp [← hw, this] at hb'
    · simp only [step, hp] at htot ⊢; exact hinv
  | poll c cat now topics =>
    have hk := poll_keeps q cat now topics
    have htp := total_poll
    simp only [step, pollTake] at htot ⊢
    cases hr : poll q cat now topics with
    | mk r q' =>
      rw [hr] at hk
      obtain ⟨hk1, hk2⟩ : q'.processing = q.processing ∧ q'.believes = q.believes := hk
      have hk : q'.processing = q.processing ∧ q'.believes = q.believes := ⟨hk1, hk2⟩
      cases r with
      | none =>
        simp only [hr] at htot ⊢
        exact ⟨htot, by rw [hk.2]; exact hinv.2.1, by rw [hk.2, hk.1]; exact hinv.2.2⟩
      | some m =>
        simp only [hr] at htot ⊢
        have hfresh : m.id ∉ q.believes.map (·.2) := by
          intro hin
          obtain ⟨b, hb, hbid⟩ := List.mem_map.mp hin
          obtain ⟨h, hm, _, hid⟩ := hinv.2.2 b hb
          have hc : 0 < cnt m.id (heldMsgs q) := by
            unfold cnt heldMsgs
            exact List.count_pos_iff.mpr (List.mem_map.mpr ⟨h.msg, List.mem_map.mpr ⟨h, hm, rfl⟩, by rw [hid, hbid]⟩)
          have h1 := htp m.id q cat now topics
          rw [hr] at h1
          simp only [if_true] at h1
          have h1 : total m.id q' + 1 = total m.id q := h1
          have h2 : cnt m.id (heldMsgs q') = cnt m.id (heldMsgs q) := by simp [heldMsgs, hk.1]
          have h3 : cnt m.id (heldMsgs q') ≤ total m.id q' := by simp [total]; omega
          have := hinv.1 m.id
          omega
        refine ⟨htot, ?_, ?_⟩
        · simp only [hk.2, List.map_append, List.map_cons, List.map_nil]
          exact List.nodup_append.mpr ⟨hinv.2.1, by simp, by
            intro a ha b hb; simp at hb; subst hb; intro hab; subst hab; exact hfresh ha⟩
        · intro b hb
          simp only [hk.2, List.mem_append, List.mem_singleton] at hb
          rcases hb with hb | hb
          · obtain ⟨h, hm, hw, hid⟩ := hinv.2.2 b hb
            exact ⟨h, by simp [hk.1, hm], hw, hid⟩
          · subst hb; exact ⟨{ msg := m, who := c, frm := cat }, by simp, rfl, rfl⟩

/-- `mem_single_holder_partial`: for EVERY history of atoms (any number of consumers, any
    interleaving of their polls and terminal actions, any clock) whose steps satisfy `StepOk`,
    at most one consumer believes it holds each message.  PARTIAL: `StepOk` excludes a consumer's
    `finish()` while another consumer of the same queue holds a message. -/
def StepsOk (cron : String → Int → Int) : Q → List Op → Prop
  | _, [] => True
  | q, op :: rest => StepOk q op ∧ StepsOk cron (step cron q op) rest

theorem inv_run (cron : String → Int → Int) (ops : List Op) (q : Q) (hinv : Inv q)
    (hok : StepsOk cron q ops) : Inv (run cron q ops) := by
  induction ops generalizing q with
  | nil => exact hinv
  | cons op rest ih => exact ih _ (inv_step cron q op hinv hok.1) hok.2

theorem singleHolder_of_nodup (l : List (Nat × String)) (h : (l.map (·.2)).Nodup) :
    singleHolder l = true := by
  simp only [singleHolder, List.all_eq_true, decide_eq_true_eq]
  intro b _
  have : (l.filter (·.2 == b.2)).length = (l.map (·.2)).count b.2 := by
    rw [List.count_eq_length_filter, List.filter_map, List.length_map]; rfl
  rw [this]
  exact List.nodup_iff_count.mp h b.2

theorem mem_single_holder_partial (cron : String → Int → Int) (ops : List Op)
    (hok : StepsOk cron {} ops) : singleHolder (run cron {} ops).believes = true := by
  have h0 : Inv ({} : Q) := ⟨by simp [total, heldMsgs], by simp, by simp⟩
  exact singleHolder_of_nodup _ (inv_run cron ops {} h0 hok).2.1

/-- Refutation of the full statement on the current code: consumers 0 and 1 hold m1 and m2;
    consumer 0 finishes — both messages go back to the waiting list; consumer 2 is then handed m2
    while consumer 1 still holds it. -/
theorem mem_finish_steals_witness :
    let m1 : Msg := { id := "m1", topic := "t" }
    let m2 : Msg := { id := "m2", topic := "t" }
    let cron : String → Int → Int := fun _ n => n
    let q := run cron {} [.put m1 0, .put m2 0, .poll 0 .normal 0 [], .poll 1 .normal 0 []]
    let q' := run cron q [.finish 0 q.processing, .poll 2 .normal 0 [], .poll 2 .normal 0 []]
    singleHolder q.believes = true ∧ singleHolder q'.believes = false ∧
    (1, "m2") ∈ q'.believes ∧ (2, "m2") ∈ q'.believes := by
  decide

/-- `success_once` (corollary at the broker level): while a consumer believes it holds `i`, no
    other consumer can be handed `i` — so with a succeeding actor the job runs exactly once. -/
theorem success_once (cron : String → Int → Int) (q : Q) (c c' : Nat) (cat : Cat) (now : Int)
    (topics : List String) (m : Msg) (hinv : Inv q) (hbel : (c, m.id) ∈ q.believes)
    (hpoll : (pollTake q c' cat now topics).1 = some m) : False := by
  have hstep := inv_step cron q (.poll c' cat now topics) hinv ⟨by simp [introduces], trivial⟩
  have hk := poll_keeps q cat now topics
  simp only [step, pollTake] at hstep hpoll
  cases hr : poll q cat now topics with
  | mk r q' =>
    rw [hr] at hk
    cases r with
    | none => simp [hr] at hpoll
    | some m' =>
      simp [hr] at hpoll; subst hpoll
      simp only [hr] at hstep
      have hnd := hstep.2.1
      simp only [List.map_append, List.map_cons, List.map_nil] at hnd
      have := (List.nodup_append.mp hnd).2.2 m'.id (List.mem_map.mpr ⟨(c, m'.id), by rw [hk.2]; exact hbel, rfl⟩) m'.id (by simp)
      exact this rfl

end Repid.C14
