/-
C09 — Concurrency never exceeds tasks_limit and the worker never stalls.
Model: RepidModel/Worker/Runner.lean (slot bookkeeping of `_Runner`, asyncio.Semaphore 3.12).
-/
import RepidModel.Worker.Runner

namespace Repid.C09
open Repid Runner

/-- slots are conserved; a consumer is blocked only while no slot is free or a wake-up chain is in
    progress; every started execution is finished or in flight -/
def Inv (r : R) : Prop :=
  r.free + r.tasks + r.handed + r.holding + r.leaked = r.limit ∧
  (0 < r.waiting → r.free = 0 ∨ 0 < r.handed) ∧
  r.started = r.processed + r.tasks

theorem inv_init (limit : Nat) (m : Option Nat) : Inv (init limit m) := by
  simp [Inv, init]

@[simp] theorem afterDone_free (x : R) : (afterDone x).free = x.free := by unfold afterDone; split <;> rfl
@[simp] theorem afterDone_tasks (x : R) : (afterDone x).tasks = x.tasks := by unfold afterDone; split <;> rfl
@[simp] theorem afterDone_handed (x : R) : (afterDone x).handed = x.handed := by unfold afterDone; split <;> rfl
@[simp] theorem afterDone_holding (x : R) : (afterDone x).holding = x.holding := by unfold afterDone; split <;> rfl
@[simp] theorem afterDone_leaked (x : R) : (afterDone x).leaked = x.leaked := by unfold afterDone; split <;> rfl
@[simp] theorem afterDone_waiting (x : R) : (afterDone x).waiting = x.waiting := by unfold afterDone; split <;> rfl
@[simp] theorem afterDone_limit (x : R) : (afterDone x).limit = x.limit := by unfold afterDone; split <;> rfl
@[simp] theorem afterDone_maxTasks (x : R) : (afterDone x).maxTasks = x.maxTasks := by unfold afterDone; split <;> rfl
@[simp] theorem afterDone_started (x : R) : (afterDone x).started = x.started := by unfold afterDone; split <;> rfl
@[simp] theorem afterDone_processed (x : R) : (afterDone x).processed = x.processed + 1 := by
  unfold afterDone; split <;> rfl

theorem inv_step (r : R) (e : Ev) (h : Inv r) : Inv (step r e) := by
  obtain ⟨h1, h2, h3⟩ := h
  cases e with
  | deliver =>
    simp only [step]
    split
    · refine ⟨by simp; omega, by simp; omega, by simp; omega⟩
    · exact ⟨by simpa using h1, by simpa using h2, by simpa using h3⟩
  | enterAcquire =>
    simp only [step]
    split
    · exact ⟨h1, h2, h3⟩
    · split
      · next hp hc =>
        refine ⟨by simp; omega, ?_, by simpa using h3⟩
        intro hw; simp at hw; omega
      · next hp hc =>
        refine ⟨by simpa using h1, ?_, by simpa using h3⟩
        intro _
        simp only at *
        by_cases hf : r.free = 0
        · exact Or.inl hf
        · by_cases hw : 0 < r.waiting
          · exact h2 hw
          · right
            have : ¬(r.free > 0 ∧ r.waiting = 0 ∧ r.handed = 0) := hc
            omega
  | wake =>
    simp only [step]
    split
    · split
      · refine ⟨by simp; omega, ?_, by simpa using h3⟩
        intro hw; simp at hw ⊢; omega
      · next hc =>
        refine ⟨by simp; omega, ?_, by simpa using h3⟩
        intro hw
        simp only at hw ⊢
        have := h2 hw
        by_cases hf : r.free = 0
        · exact Or.inl hf
        · exfalso; apply hc; omega
    · exact ⟨h1, h2, h3⟩
  | spawn =>
    simp only [step]
    split
    · exact ⟨by simp; omega, by simpa using h2, by simp; omega⟩
    · exact ⟨h1, h2, h3⟩
  | cancelHeld =>
    simp only [step]
    split
    · exact ⟨by simp; omega, by simpa using h2, by simpa using h3⟩
    · exact ⟨h1, h2, h3⟩
  | done =>
    simp only [step]
    split
    · exact ⟨h1, h2, h3⟩
    · next ht =>
      split
      · refine ⟨by simp; omega, by simp, by simp; omega⟩
      · next hw =>
        refine ⟨by simp; omega, ?_, by simp; omega⟩
        intro hw'; simp at hw'; exact absurd hw' hw
  | cancelWaiter =>
    simp only [step]
    split
    · split
      · refine ⟨h1, ?_, h3⟩
        intro _; right; simp; omega
      · next hw =>
        refine ⟨by simp; omega, ?_, by simpa using h3⟩
        intro hw'; simp at hw'; exact absurd hw' hw
    · split
      · next hh hw =>
        refine ⟨h1, ?_, h3⟩
        intro hw'
        simp at hw'
        have := h2 hw
        omega
      · split
        · exact ⟨by simpa using h1, by simpa using h2, by simpa using h3⟩
        · exact ⟨h1, h2, h3⟩

theorem inv_run (r : R) (evs : List Ev) (h : Inv r) : Inv (run r evs) := by
  induction evs generalizing r with
  | nil => exact h
  | cons e rest ih => exact ih _ (inv_step r e h)

/-- `inflight_le_limit`: for every tasks_limit, every messages_limit and EVERY sequence of
    deliveries, completions, wake-ups and cancellations — any arrival pattern, any durations, any
    number of queues — at most `tasks_limit` processing tasks (hence actor invocations) are in
    progress. -/
theorem inflight_le_limit (limit : Nat) (m : Option Nat) (evs : List Ev) :
    (run (init limit m) evs).tasks ≤ limit := by
  have := (inv_run _ evs (inv_init limit m)).1
  simp only [run] at *
  have hl : ∀ (r : R) (e : Ev), (step r e).limit = r.limit := by
    intro r e; cases e <;> simp only [step] <;> (repeat' split) <;> simp
  have hlim : ∀ (evs : List Ev) (r : R), (evs.foldl step r).limit = r.limit := by
    intro evs; induction evs with
    | nil => intro r; rfl
    | cons e rest ih => intro r; simp [ih, hl]
  rw [hlim] at this
  simp only [init] at this ⊢
  omega

/-- `no_lost_wakeup`: in every reachable state a consumer loop is blocked in the semaphore's waiter
    list only if no slot is free, or a waiter has already been handed a slot and will pass a free one
    on when it resumes (`wake` is enabled) — a free slot with a blocked consumer and nobody to wake it
    cannot occur.  (A loop still inside `consumer.pause()` is not blocked: it calls acquire() itself —
    `enterAcquire` is enabled.) -/
theorem no_lost_wakeup (limit : Nat) (m : Option Nat) (evs : List Ev) :
    let r := run (init limit m) evs
    0 < r.waiting → r.free = 0 ∨ enabled r .wake = true := by
  intro r hw
  have := (inv_run _ evs (inv_init limit m)).2.1 hw
  simpa [enabled] using this

/-- `progress`: with a free slot and nobody queued, a delivered message starts at once;
    a completion with a blocked consumer hands it the slot in the same step (`pause_resume`). -/
theorem progress (r : R) :
    (r.free > 0 ∧ r.waiting = 0 ∧ r.handed = 0 → (step r .deliver).started = r.started + 1) ∧
    (0 < r.pausing → r.free > 0 ∧ r.waiting = 0 ∧ r.handed = 0 →
        (step r .enterAcquire).holding = r.holding + 1 ∧ enabled (step r .enterAcquire) .spawn = true) ∧
    (0 < r.holding → (step r .spawn).started = r.started + 1) ∧
    (0 < r.tasks → 0 < r.waiting → (step r .done).handed = r.handed + 1 ∧ (step r .done).waiting = r.waiting - 1) := by
  refine ⟨?_, ?_, ?_, ?_⟩
  · intro h; simp [step, h]
  · intro hp h
    have : ¬ r.pausing = 0 := by omega
    simp [step, this, h, enabled]
  · intro hh; simp [step, hh]
  · intro ht hw
    have : ¬ r.tasks = 0 := by omega
    simp [step, this, hw]

/-- every completion frees capacity: after `done` either a slot is free or a waiter holds one -/
theorem done_frees (r : R) (ht : 0 < r.tasks) :
    0 < (step r .done).free ∨ 0 < (step r .done).handed := by
  have : ¬ r.tasks = 0 := by omega
  simp only [step, this, if_false]
  by_cases hw : r.waiting > 0
  · right; simp [hw]
  · left; simp [hw]

-- Non-vacuity: limit 2, three deliveries, one completion, wake.
example : let r := run (init 2 none) [.deliver, .deliver, .deliver, .enterAcquire, .done, .wake, .spawn]
    r.tasks = 2 ∧ r.waiting = 0 ∧ r.started = 3 ∧ r.processed = 1 := by decide

end Repid.C09
