/-
Helper lemmas: every atom conserves the per-id total, `put` adds one.
-/
import RepidModel.Broker.MemHistory
import RepidProofs.Proofs.MemCount

namespace Repid.Mem
open List

@[simp] theorem heldMsgs_mk (s d dd p a l b) : heldMsgs ⟨s, d, dd, p, a, l, b⟩ = p.map (·.msg) := rfl

theorem total_put (cron) (i : String) (q : Q) (m : Msg) (now : Int) :
    total i (put q m now cron) = total i q + (if m.id = i then 1 else 0) := by
  unfold put
  split
  · simp [total, heldMsgs, cnt_dictAppend]; omega
  · simp [total, heldMsgs]; omega

theorem total_ackA (i : String) (q : Q) (id : String) : total i (ackA q id) = total i q := by
  unfold ackA findHeld
  split
  · next h hf =>
    have := cnt_held_find i q.processing id h hf
    simp [total, heldMsgs, dropHeld] at *; omega
  · rfl

theorem total_unholdA (i : String) (q : Q) (id : String) : total i (unholdA q id) = total i q := by
  unfold unholdA findHeld
  split
  · next h hf =>
    have := cnt_held_find i q.processing id h hf
    simp [total, heldMsgs, dropHeld] at *; omega
  · rfl

theorem total_reputA (cron) (i : String) (q : Q) (m : Msg) (now : Int) :
    total i (reputA q m now cron) + (if q.limbo.any (·.id == m.id) ∧ m.id = i then 1 else 0)
      = total i q + (if m.id = i then 1 else 0) := by
  have h1 := total_put cron i q m now
  have hl : (put q m now cron).limbo = q.limbo := by unfold put; split <;> rfl
  have h2 := cnt_eraseP_id i q.limbo m.id
  unfold reputA
  simp only [total, heldMsgs, hl] at *
  have e1 : (put q m now cron).processing = q.processing := by unfold put; split <;> rfl
  omega

theorem total_nackA (i : String) (q : Q) (id : String) : total i (nackA q id) = total i q := by
  unfold nackA findHeld
  split
  · next h hf =>
    have := cnt_held_find i q.processing id h hf
    simp [total, heldMsgs, dropHeld] at *; omega
  · rfl

theorem total_rejectA (i : String) (q : Q) (id : String) : total i (rejectA q id) = total i q := by
  unfold rejectA findHeld
  split
  · next h hf =>
    have := cnt_held_find i q.processing id h hf
    simp [total, heldMsgs, dropHeld] at *; omega
  · rfl

theorem total_updateDelayed (i : String) (q : Q) (now : Int) :
    total i (updateDelayed q now) = total i q := by
  have := cnt_filter_split i q.delayed (fun e => decide (e.1 < now))
  simp [updateDelayed, total, heldMsgs] at *; omega

/-- a poll moves at most the returned message out of the counted places -/
theorem total_poll (i : String) (q : Q) (cat : Cat) (now : Int) (topics : List String) :
    total i (poll q cat now topics).2
      + (match (poll q cat now topics).1 with | some m => (if m.id = i then 1 else 0) | none => 0)
      = total i q := by
  unfold poll
  cases cat with
  | normal =>
    simp only []
    unfold pollNormal
    cases hs : q.simple with
    | nil => simp
    | cons m rest =>
      simp only []
      by_cases h1 : m.params.isOverdue now = true
      · simp [h1, total, heldMsgs, hs, cnt_cons]; omega
      · by_cases h2 : (!wants topics m) = true
        · simp [h1, h2, total, heldMsgs, hs, cnt_cons]
        · simp [h1, h2, total, heldMsgs, hs, cnt_cons]; omega
  | delayed =>
    simp only []
    unfold pollDelayed
    cases hk : minKey q.delayed with
    | none => simp
    | some t =>
      have := cnt_popAt i q.delayed t
      simp only []
      cases hp : (popAt q.delayed t).1 with
      | none => simp [hp, total, heldMsgs] at *; omega
      | some m => simp [hp, total, heldMsgs] at *; omega
  | dead =>
    simp only []
    unfold pollDead
    cases hd : q.dead with
    | nil => simp
    | cons m rest => simp [total, heldMsgs, hd, cnt_cons]; omega

theorem total_pollTake (i : String) (q : Q) (c : Nat) (cat : Cat) (now : Int) (topics : List String) :
    total i (pollTake q c cat now topics).2 = total i q := by
  have := total_poll i q cat now topics
  unfold pollTake
  cases hp : poll q cat now topics with
  | mk r q' =>
    cases r with
    | none => simp [hp] at *; exact this
    | some m => simp [hp, total, heldMsgs] at *; omega

theorem total_finishA (i : String) (q : Q) (c : Nat) (perm : List Held) (h : perm.Perm q.processing) :
    total i (finishA q c perm) = total i q := by
  have := cnt_perm i (h.map (·.msg))
  simp [finishA, total, heldMsgs] at *; omega

theorem total_step (cron) (i : String) (q : Q) (op : Op) :
    total i (step cron q op) = total i q +
      (introduces q op).count i := by
  cases op with
  | put m now => simp [step, total_put, introduces, List.count_cons]
  | unhold id => simp [step, total_unholdA, introduces]
  | reput m now =>
    have h := total_reputA cron i q m now
    simp only [step, introduces]
    cases hl : q.limbo.any (·.id == m.id) with
    | true =>
      rw [hl] at h
      by_cases hi : m.id = i
      · simp only [hi, and_self, if_true, true_and] at h ⊢; simp; omega
      · simp only [hi, and_false, if_false] at h ⊢; simp; omega
    | false =>
      rw [hl] at h
      by_cases hi : m.id = i
      · simp [hi] at h ⊢; omega
      · simp [hi] at h ⊢; omega
  | ack id => simp [step, total_ackA, introduces]
  | nack id => simp [step, total_nackA, introduces]
  | reject id => simp [step, total_rejectA, introduces]
  | update now => simp [step, total_updateDelayed, introduces]
  | poll c cat now topics => simp [step, total_pollTake, introduces]
  | finish c perm =>
    simp only [step]
    split
    · next h => simp [total_finishA i q c perm (List.isPerm_iff.mp h), introduces]
    · simp [introduces]

theorem total_run (cron) (i : String) (ops : List Op) (q : Q) :
    total i (run cron q ops) = total i q + (introduced cron q ops).count i := by
  induction ops generalizing q with
  | nil => simp [run, introduced]
  | cons op rest ih =>
    have h1 := total_step cron i q op
    have h2 := ih (step cron q op)
    simp only [run, List.foldl_cons, introduced, List.count_append] at *
    rw [h2, h1]; omega

end Repid.Mem
