/-
Schedule arithmetic (code-model).  Anchors:
  repid/retry_policy.py:36-39            default_retry_policy_factory.inner
  repid/data/_parameters.py:116-152      is_overdue, compute_next_execution_time,
                                         _prepare_reschedule, _prepare_retry
  repid/connections/*/utils.py           wait_until (three copies), redis wait_timestamp

Time: `datetime` ↦ `Int` microseconds since the epoch, `timedelta` ↦ `Int` microseconds.
-/
namespace Repid

-- Times and durations are plain `Int` microseconds (no abbreviations: `omega` wants literal `Int`).

def usPerSec : Int := 1000000

/-- `default_retry_policy_factory(min_backoff, max_backoff, multiplier, max_exponent)(retry_number)`
    in whole seconds.  Mirrors
    `exponent = min(n, max_exponent); backoff = min(multiplier * 2**exponent, max_backoff);
     timedelta(seconds=max(min_backoff, backoff))`. -/
def Sched.backoff (minB maxB mult maxExp n : Nat) : Nat :=
  max minB (min (mult * 2 ^ (min n maxExp)) maxB)

/-- `(now - timestamp) // defer_by + 1` periods after `timestamp`
    (`timedelta // timedelta` is floor division; `Int./` is floor division for a positive divisor). -/
def Sched.nextDefer (ts now p : Int) : Int :=
  ts + p * ((now - ts) / p + 1)

structure Retries where
  maxAmount : Int := 0
  alreadyTried : Int := 0
  deriving Repr, DecidableEq, Inhabited

structure ResultProps where
  id : String
  ttl : Option Int
  deriving Repr, DecidableEq, Inhabited

structure Delay where
  delayUntil : Option Int := none
  deferBy : Option Int := none
  cron : Option String := none
  nextExecutionTime : Option Int := none
  deriving Repr, DecidableEq, Inhabited

structure Params where
  executionTimeout : Int := 600 * usPerSec
  result : Option ResultProps := none
  retries : Retries := {}
  delay : Delay := {}
  timestamp : Int := 0
  ttl : Option Int := none
  deriving Repr, DecidableEq, Inhabited

/-- `is_overdue` — one definition; the four code copies (Parameters, ArgsBucket, ResultBucket, Job)
    are each compared with it. -/
def Sched.overdue (now ts : Int) (ttl : Option Int) : Bool :=
  match ttl with
  | none => false
  | some t => decide (now > ts + t)

def Params.isOverdue (p : Params) (now : Int) : Bool := Sched.overdue now p.timestamp p.ttl

/-- `compute_next_execution_time`; `cronNext` stands for croniter (not installed in the sandbox). -/
def Params.computeNext (p : Params) (now : Int) (cronNext : String → Int → Int) : Option Int :=
  match p.delay.delayUntil with
  | some d => if d > now then some d else rest
  | none => rest
where
  rest : Option Int :=
    match p.delay.deferBy with
    | some per => some (Sched.nextDefer p.timestamp now per)
    | none =>
      match p.delay.cron with
      | some c => some (cronNext c now)
      | none => none

/-- `wait_until(params)` = `next_execution_time or compute_next_execution_time`
    (datetime objects are always truthy, so `or` is `Option.orElse`). -/
def Params.waitUntil (p : Params) (now : Int) (cronNext : String → Int → Int) : Option Int :=
  match p.delay.nextExecutionTime with
  | some t => some t
  | none => p.computeNext now cronNext

/-- `_prepare_retry(next_retry)`: copy, `already_tried + 1`, `next_execution_time = now + next_retry`;
    timestamp (the TTL clock) is left alone. -/
def Params.prepareRetry (p : Params) (now : Int) (nextRetry : Int) : Params :=
  { p with
    retries := { p.retries with alreadyTried := p.retries.alreadyTried + 1 }
    delay := { p.delay with nextExecutionTime := some (now + nextRetry) } }

/-- `_prepare_reschedule()`: copy, `already_tried = 0`,
    `next_execution_time = compute_next_execution_time`, `timestamp = now`. -/
def Params.prepareReschedule (p : Params) (now : Int) (cronNext : String → Int → Int) : Params :=
  { p with
    retries := { p.retries with alreadyTried := 0 }
    delay := { p.delay with nextExecutionTime := p.computeNext now cronNext }
    timestamp := now }

/-- Redis `wait_timestamp`: `int(t.timestamp())` — truncation toward zero of seconds
    (TZ=UTC, naive datetimes; for non-negative µs this is floor division). -/
def Sched.redisWaitTimestamp (t : Option Int) : Option Int :=
  t.map fun x => Int.tdiv x usPerSec

end Repid
