"""C16 — message handles are single-use and respect their category.

Tie: (i) ALL sequences of message-API calls of length ≤ 3 over {ack, nack, reject, reschedule,
retry(None), retry(2 s), force_retry(None), force_retry(3 s)} × three categories × three retry
states (quick: a PRNG-drawn third of them; thorough: exhaustive) on real `Message` objects against
a spying in-memory broker: per call the refusal kind / the broker call made (with the parameters
of a requeue) is compared with the Lean model `Worker.Handle.calls`; the property (at most one
call reaches the broker; after it everything is refused; refusals leave the handle usable) is
evaluated on the observation.  Random sequences up to length 12.
(ii) inside actors (`MessageDependency`): random set_result / set_exception / add_callback
prefixes followed by an eager response, run through the real Worker; the order of callback
executions and of the result store, and "the rest of the body does not run", are compared with the
model (`DepState.finalCallbacks`)."""
from __future__ import annotations

import implenv  # noqa: F401

import itertools

import vtime
import workrun
from common import NONE, A, Model, Result, Rng, parse_sx, sx
from memrun import S, mk_params, params_sx
from props import c02
from vtime import CLOCK, us_td

from repid import Connection, InMemoryMessageBroker, Message, MessageCategory
from repid.data._key import RoutingKey

RULE = ("(i) call sequences: exhaustive up to length 3 (thorough) / sampled third (quick) + random up to length 12; a case = "
        "one (category, retry state, sequence); (ii) eager prefixes: random Pre-lists of length 0…5 × six responses")
ASSUMPTIONS = ["sequential calls on one handle (concurrent calls on one handle are outside the quantifier)"]

CALLS = ["ack", "nack", "reject", "reschedule", ["retry", None], ["retry", 2 * S], ["forceRetry", None], ["forceRetry", 3 * S]]
CATS = ["NORMAL", "DELAYED", "DEAD"]
RETRY_STATES = [{"max": 0, "tried": 0}, {"max": 2, "tried": 1}, {"max": 2, "tried": 2},
                # the counter above the budget (a message that was force-retried before)
                {"max": 0, "tried": 1}, {"max": 2, "tried": 4}]


def err_kind(e: Exception) -> str:
    m = str(e)
    if "read only" in m:
        return "readOnly"
    if "Can not" in m:
        return "category"
    if "Max retry limit" in m:
        return "budget"
    return "other:" + m


async def run_sequences(cases: list[tuple]) -> list[dict]:
    out = []
    broker = InMemoryMessageBroker()
    conn = Connection(broker)
    await broker.queue_declare("default")
    log: list = []
    for name in ("ack", "nack", "reject", "requeue"):
        def mk(name=name):
            async def spy(key, payload="", params=None):
                log.append(A(name) if name != "requeue" else [A("requeue"), params_sx(params)])
            return spy
        setattr(broker, name, mk())
    for cat, rs, seq, now in cases:
        CLOCK.reset(now)
        pd = {"ts": now - 5 * S, "max": rs["max"], "tried": rs["tried"], "defer_by": rs.get("defer_by")}
        params = mk_params(pd)
        m = Message(key=RoutingKey(topic="t", id_="m1"), raw_payload="p", parameters=params, _connection=conn,
                    _category=MessageCategory[cat])
        obs = []
        for c in seq:
            del log[:]
            try:
                if isinstance(c, str):
                    await getattr(m, c)()
                else:
                    await getattr(m, {"retry": "retry", "forceRetry": "force_retry"}[c[0]])(
                        next_retry=None if c[1] is None else us_td(c[1]))
                obs.append([A("ok"), log[0]] if len(log) == 1 else [A("ok-but"), list(log)])
            except ValueError as e:
                obs.append([A("err"), A(err_kind(e))] if not log else [A("err-but-called"), list(log)])
        out.append({"cat": cat, "rs": rs, "seq": seq, "now": now, "params": params_sx(params), "obs": obs,
                    "read_only": m.read_only})
    return out


def seq_sx(seq):
    return [A(c) if isinstance(c, str) else [A(c[0]), NONE if c[1] is None else c[1]] for c in seq]


def check_sequences(results: list[dict], model: Model, res: Result) -> None:
    reqs = [sx([A("handle.calls"), A(r["cat"]), r["params"], r["now"], 0, seq_sx(r["seq"])]) for r in results]
    answers = model.ask(reqs)
    res.extra["model_requests"] = res.extra.get("model_requests", 0) + len(answers)
    for r, ans in zip(results, answers):
        obs = sx(r["obs"])
        case = {"category": r["cat"], "retry_state": r["rs"], "calls": r["seq"], "now_us": r["now"]}
        res.dist[f"len{len(r['seq'])}:{r['cat']}"] += 1
        res.note((r["cat"], r["rs"]["tried"], r["rs"]["max"], sx(seq_sx(r["seq"]))), sample=dict(case, observed=obs) if len(res.samples) < 3 else None)
        if " ".join(obs.split()) != " ".join(ans.split()):
            res.bad("corr", "Worker.Handle.calls model vs Message API (refusal kind / broker call per call)", case=case,
                    observed=obs, expected=ans)
        # the property on the observation
        oks = [i for i, o in enumerate(r["obs"]) if str(o[0]) == "ok"]
        weird = [o for o in r["obs"] if str(o[0]) not in ("ok", "err")]
        after_ok_all_refused = not oks or all(str(o[0]) == "err" for o in r["obs"][oks[0] + 1:])
        ok = len(oks) <= 1 and not weird and after_ok_all_refused and (r["read_only"] == bool(oks))
        # "retry is refused … once the retry budget is spent" (also when the counter is already above it)
        for i, c in enumerate(r["seq"]):
            name = c if isinstance(c, str) else c[0]
            if name == "retry" and r["cat"] == "NORMAL" and r["rs"]["tried"] >= r["rs"]["max"] and not [k for k in oks if k < i] \
                    and str(r["obs"][i][0]) == "ok":
                res.bad("impl", "retry() was accepted although the retry budget is spent", case=dict(case, call_index=i),
                        observed=obs, expected="refused (the message stays usable)")
                break
        if not ok:
            res.bad("impl", "handle is not single-use / a refused call touched the broker or consumed the handle", case=case,
                    observed=obs, expected="at most one broker call; every later call refused; read_only iff a call succeeded")


def eager_jobs(rng: Rng, n: int) -> list[dict]:
    jobs = []
    for i in range(n):
        pre = []
        cb = 0
        for _ in range(rng.randrange(0, 6)):
            r = rng.random()
            if r < 0.5:
                cb += 1
                pre.append(["cb", cb, rng.random() < 0.2])
            elif r < 0.8:
                pre.append("setResult")
            else:
                pre.append("setException")
        api = rng.choice(c02.APIS)
        retries, nfail = rng.choice([(0, 0), (2, 0), (2, 1), (2, 2)])
        jobs.append({"id": f"e{i}", "retries": retries, "store_result": rng.random() < 0.8, "timeout": 2 * S,
                     "plan": [{"k": "raise"}] * nfail + [{"k": "eager", "pre": pre, "api": api, "guard": rng.random() < 0.4}, {"k": "ret"}]})
    return jobs


def run(ctx) -> Result:
    tier, seed = ctx["tier"], ctx["seed"]
    res = Result("C16")
    model = Model()
    deep = tier == "thorough" or ctx.get("search")
    rng = Rng(seed, "c16")
    cases = []
    for cat in CATS:
        for rs in RETRY_STATES:
            for L in (1, 2, 3):
                for seq in itertools.product(CALLS, repeat=L):
                    if L == 3 and not deep and rng.random() > 0.2:
                        continue
                    cases.append((cat, dict(rs, defer_by=rng.choice([None, None, 10 * S])), list(seq), rng.randrange(0, 10**9)))
    for _ in range(2000 if deep else 300):
        cases.append((rng.choice(CATS), dict(rng.choice(RETRY_STATES), defer_by=rng.choice([None, 10 * S])),
                      [rng.choice(CALLS) for _ in range(rng.randrange(4, 13))], rng.randrange(0, 10**9)))
    results = vtime.run(lambda loop: run_sequences(cases), budget=50_000_000)
    check_sequences(results, model, res)
    res.exhaustive = deep
    # (ii) eager responses inside actors
    for conv in ("basic", "pydantic"):
        jobs = eager_jobs(Rng(seed, f"c16/eager/{conv}"), 400 if deep else 120)
        sc = {"jobs": jobs, "converter": conv, "policy": {"kind": "const", "us": 0}, "horizon_s": 6.0}
        r = vtime.run(lambda loop, s=sc: c02.run_scenario(s), budget=30_000_000)
        c02.check_run(r, model, res, f"eager-prefixes-{conv}")
    for kind in ("redis", "rabbit"):     # the same eager responses through the Redis / RabbitMQ brokers (fake servers)
        jobs = eager_jobs(Rng(seed, f"c16/eager/{kind}"), 120 if deep else 50)
        sc = {"jobs": jobs, "converter": "basic", "policy": {"kind": "const", "us": 0}, "horizon_s": 8.0, "broker": kind}
        r = vtime.run(lambda loop, s=sc: c02.run_scenario(s), budget=80_000_000)
        c02.check_run(r, model, res, f"eager-prefixes-{kind}")
        res.dist[f"broker:{kind}"] += len(jobs)
    # handles obtained by iterating a queue through the public API, on every broker kind
    import queueapi
    queueapi.part_c16(res)
    return res


def search(ctx) -> Result:
    return run(dict(ctx, tier="thorough"))
