import RepidModel.Driver.State
import RepidModel.Mw.Wrapper

namespace Repid.Driver
open Repid Sexp Mw

def mwKv : Sexp → Option (String × String)
  | .list [k, v] => do pure (← toStr? k, ← toStr? v)
  | _ => none

/-- (op name (params…) (args…) ((k v)…) (children…) raises result) — decoded with fuel (the tree is finite) -/
def opOf : Nat → Sexp → Option Op
  | 0, _ => none
  | fuel + 1, .list [.atom "op", n, ps, as, kws, cs, r, res] => do
    pure (.mk (← toStr? n) (← mapM? toStr? ps) (← mapM? toStr? as) (← mapM? mwKv kws)
      (← mapM? (opOf fuel) cs) (← toBool? r) (← toStr? res))
  | _, _ => none

def sigTo (s : Signal) : Sexp :=
  .list [.str s.name, ofList (fun e : String × String => .list [.str e.1, .str e.2])
    (s.kwargs.mergeSort (fun a b => a.1 ≤ b.1))]

/-- (mw.run emitter inside op) → the signals the wrapper emits for this call tree;
    (mw.sub (params…) ((k v)…)) → the keyword arguments a subscriber with these parameters receives -/
def mw : String → List Sexp → Option Sexp
  | "mw.run", [e, i, o] => do
    let op ← opOf 64 o
    pure (ofList sigTo (run (← toBool? e) (← toBool? i) op))
  | "mw.sub", [ps, kws] => do
    let r := subscriberKwargs (← mapM? toStr? ps) (← mapM? mwKv kws)
    pure (ofList (fun e : String × String => .list [.str e.1, .str e.2]) (r.mergeSort (fun a b => a.1 ≤ b.1)))
  | _, _ => none

end Repid.Driver
