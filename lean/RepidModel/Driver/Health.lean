import RepidModel.Driver.State
import RepidModel.Health.Server

namespace Repid.Driver
open Repid Sexp Health

def hexVal (c : Char) : Option Nat :=
  if '0' ≤ c ∧ c ≤ '9' then some (c.toNat - '0'.toNat)
  else if 'a' ≤ c ∧ c ≤ 'f' then some (c.toNat - 'a'.toNat + 10)
  else none

def unhex : List Char → Option (List UInt8)
  | [] => some []
  | a :: b :: rest => do
    let x ← hexVal a
    let y ← hexVal b
    let r ← unhex rest
    pure (UInt8.ofNat (x * 16 + y) :: r)
  | _ => none

/-- `data.decode()` (strict UTF-8) -/
def decodeHex (s : String) : Option (Option (List Char)) := do
  let bytes ← unhex s.toList
  pure ((String.fromUTF8? (ByteArray.mk bytes.toArray)).map (·.toList))

def statusOf : Sexp → Option Status
  | .atom "ok" => some .ok
  | .atom "unhealthy" => some .unhealthy
  | _ => none

def evOf : Sexp → Option Ev
  | .atom "start" => some .start
  | .atom "stop" => some .stop
  | .atom "fail" => some .consumerFailed
  | .list [.atom "req", h] => do
    match ← decodeHex (← toStr? h) with
    | some t => pure (.request t)
    | none => pure .garbage
  | _ => none

def outTo : Out → Sexp
  | .none => .atom "none"
  | .refused => .atom "refused"
  | .dropped => .atom "dropped"
  | .answered c => .list [.atom "answered", .str (String.ofList c), .str (String.ofList (response c))]

/-- (health.handle "endpoint" status "hex") ; (health.run "endpoint" (event…)) -/
def health : String → List Sexp → Option Sexp
  | "health.handle", [e, st, h] => do
    let ep := (← toStr? e).toList
    match ← decodeHex (← toStr? h) with
    | none => pure (outTo .dropped)
    | some t => pure (outTo (match handle ep (← statusOf st) t with | some c => .answered c | none => .dropped))
  | "health.run", [e, evs] => do
    let r := run { endpoint := (← toStr? e).toList } (← mapM? evOf evs)
    pure (ofList outTo r.2)
  | _, _ => none

end Repid.Driver
