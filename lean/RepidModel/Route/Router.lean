/-
Routers and the worker's per-queue topic sets (code-model).  Anchors:
  repid/router.py    Router.actors / topics_by_queue, _set_actor, actor(), include_router()
  repid/worker.py:40-42,94-103   Worker includes routers; one consumer per key of topics_by_queue with
                                 that queue's topic set
  repid/_runner.py:96            actor lookup by message topic
-/
namespace Repid.Route

structure Actor where
  name : String
  queue : String
  fn : Nat                -- identity of the registered function
  deriving Repr, DecidableEq, Inhabited

structure Router where
  actors : List Actor := []                       -- dict name → ActorData (one entry per name)
  tbq : List (String × List String) := []        -- topics_by_queue (one entry per queue, a set of names)
  deriving Repr, DecidableEq, Inhabited

def Router.find (r : Router) (name : String) : Option Actor := r.actors.find? (·.name == name)

def Router.topics (r : Router) (q : String) : List String :=
  match r.tbq.find? (·.1 == q) with
  | some e => e.2
  | none => []

def tbqDiscard (tbq : List (String × List String)) (q name : String) : List (String × List String) :=
  (tbq.map fun e => if e.1 == q then (e.1, e.2.filter (· != name)) else e).filter fun e => !e.2.isEmpty

def tbqAdd (tbq : List (String × List String)) (q name : String) : List (String × List String) :=
  if tbq.any (·.1 == q) then
    tbq.map fun e => if e.1 == q then (e.1, if e.2.contains name then e.2 else e.2 ++ [name]) else e
  else tbq ++ [(q, [name])]

/-- `_set_actor`: the last registration of a name wins and moves the name to its queue -/
def Router.setActor (r : Router) (a : Actor) : Router :=
  let tbq1 := match r.find a.name with
    | some prev => if prev.queue != a.queue then tbqDiscard r.tbq prev.queue a.name else r.tbq
    | none => r.tbq
  { actors := (r.actors.filter (·.name != a.name)) ++ [a], tbq := tbqAdd tbq1 a.queue a.name }

/-- `include_router` -/
def Router.include (w r : Router) : Router := r.actors.foldl Router.setActor w

/-- a router built by a sequence of registrations -/
def build (regs : List Actor) : Router := regs.foldl Router.setActor {}

/-- the worker: all routers included in order -/
def worker (routers : List Router) : Router := routers.foldl Router.include {}

/-- consumers the worker creates: (queue, topic set) per key of topics_by_queue -/
def Router.consumers (w : Router) : List (String × List String) := w.tbq

/-- does some consumer of the worker (one per entry of topics_by_queue; an EMPTY topic set accepts every
    topic) accept a message (topic, queue) -/
def Router.accepts (w : Router) (topic queue : String) : Bool :=
  w.tbq.any fun e => e.1 == queue && (e.2.isEmpty || e.2.contains topic)

/-- …and, if so, which function does it run (`actors[key.topic]`; `none` = KeyError) -/
def Router.route (w : Router) (topic queue : String) : Option Nat :=
  if w.accepts topic queue then (w.find topic).map (·.fn) else none

/-- SPEC: right-biased union of registrations: the last registration of each name -/
def lastReg (regs : List Actor) (name : String) : Option Actor := (regs.reverse.find? (·.name == name))

end Repid.Route
