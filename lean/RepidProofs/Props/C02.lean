/-
C02 — Every delivery ends in exactly one, correct disposition.
Model: RepidModel/Worker/Processor.lean (`actorRun`, `report`, `process`; spec `disposition`).
-/
import RepidModel.Worker.Processor

namespace Repid.C02
open Repid Worker Mem

/-- The ladder of `report_to_broker` implements the disposition table of the statement:
    ack on success, retry-requeue on failure while retries remain, nack on failure with none left,
    reschedule instead of ack/nack for recurring jobs — for every retry budget and attempt count. -/
theorem report_eq_disposition (p : Params) (success : Bool) (now : Int) (cron : String → Int → Int)
    (pn : Int) : report p success now cron pn = disposition p success now cron pn := by
  unfold report disposition
  cases success <;> cases h1 : decide (p.retries.alreadyTried < p.retries.maxAmount) <;>
    cases h2 : isRecurring p <;> simp_all

/-- what `actor_run` reports about broker calls made inside the actor: one call iff the actor
    answered eagerly and the answer was accepted; none otherwise -/
theorem actorRun_calls (p : Params) (now : Int) (cron : String → Int → Int) (pn : Int)
    (hb sf : Bool) (o : Outcome) :
    ((actorRun p now cron pn hb sf o).reportingDone = true →
        (actorRun p now cron pn hb sf o).calls.length = 1) ∧
    ((actorRun p now cron pn hb sf o).reportingDone = false →
        (actorRun p now cron pn hb sf o).calls = []) := by
  cases o with
  | ret => simp [actorRun]
  | raise => simp [actorRun]
  | timeout => simp [actorRun]
  | convFail => simp [actorRun]
  | depFail => simp [actorRun]
  | eager pre a =>
    simp only [actorRun]
    split
    · simp
    · split <;> simp

/-- `exactly_one_terminal`: whatever the actor does — return, raise, time out, fail argument
    conversion or dependency resolution, or answer eagerly (any of the six responses, accepted or
    refused, with any set_result / set_exception / add_callback prefix, callbacks and result store
    raising or not) — for EVERY retry budget, attempt count, recurrence and result setting, exactly
    one broker call is made for the message. -/
theorem exactly_one_terminal (p : Params) (now : Int) (cron : String → Int → Int) (pn : Int)
    (hb sf : Bool) (o : Outcome) :
    (process p now cron pn hb sf o).calls.length = 1 := by
  have h := actorRun_calls p now cron pn hb sf o
  simp only [process]
  cases hr : (actorRun p now cron pn hb sf o).reportingDone with
  | true => simp [h.1 hr]
  | false =>
    have := h.2 hr
    simp only [Bool.false_eq_true, if_false]
    split <;> simp [this]

/-- for the five non-eager outcomes the single call is the disposition of the table -/
theorem non_eager_disposition (p : Params) (now : Int) (cron : String → Int → Int) (pn : Int)
    (hb sf : Bool) (o : Outcome) (ho : ∀ pre a, o ≠ .eager pre a) :
    (process p now cron pn hb sf o).calls =
      [disposition p (decide (o = .ret)) now cron pn] := by
  rw [← report_eq_disposition]
  cases o with
  | eager pre a => exact absurd rfl (ho pre a)
  | ret => simp [process, actorRun]; split <;> simp
  | raise => simp [process, actorRun]; split <;> simp
  | timeout => simp [process, actorRun]; split <;> simp
  | convFail => simp [process, actorRun]; split <;> simp
  | depFail => simp [process, actorRun]; split <;> simp

/-- `nothing_after_eager`: once the actor has answered eagerly (reporting done), `process` makes no
    further broker call: the calls are exactly those made inside the actor. -/
theorem nothing_after_eager (p : Params) (now : Int) (cron : String → Int → Int) (pn : Int)
    (hb sf : Bool) (o : Outcome) (h : (actorRun p now cron pn hb sf o).reportingDone = true) :
    (process p now cron pn hb sf o).calls = (actorRun p now cron pn hb sf o).calls := by
  simp [process, h]

/-- the actor body never runs when argument conversion or dependency resolution fails -/
theorem body_not_run_on_conv_dep_failure (p : Params) (now : Int) (cron : String → Int → Int) (pn : Int)
    (hb sf : Bool) :
    (process p now cron pn hb sf .convFail).bodyRan = false ∧
    (process p now cron pn hb sf .depFail).bodyRan = false := by
  constructor <;> (simp [process, actorRun]; split <;> simp)

/-- Regression statement for the defect repaired by the `fix:` commit (F8): an eager `ack` with a
    result set, when the result store raises, is NOT followed by a second broker action. -/
theorem eager_callback_failure_fixed :
    let p : Params := { result := some { id := "r", ttl := none }, retries := { maxAmount := 2, alreadyTried := 0 } }
    (process p 0 (fun _ n => n) 5000000 true true (.eager [.setResult] .ack)).calls = [.ack] := by
  decide

/-- all registered callbacks run even when one of them raises -/
theorem callbacks_all_run (cbs : List Cb) (sf : Bool) : (runCallbacks cbs sf).1 = cbs := rfl

end Repid.C02
