/-
Worker-level property predicates (C04, C06, C13 …) on observed chains of executions — evaluated by
the driver on observations of the implementation, proved of the model in RepidProofs/Props/.
-/
import RepidModel.Worker.Chain
import RepidModel.Pred.C19

namespace Repid.Pred
open Repid Worker

namespace C04

/-- one observed execution of a job: the attempt counter carried by the delivered message, the
    virtual start time of the actor, the time of the broker call that answered it, whether it failed -/
structure Obs where
  tried : Int
  start : Int
  fin : Int
  failed : Bool
  deriving Repr, DecidableEq, Inhabited

/-- attempt counters are 0, 1, 2, … (grow by exactly one per retry) -/
def countersOk : Int → List Obs → Bool
  | _, [] => true
  | k, x :: rest => decide (x.tried = k) && countersOk (k + 1) rest

/-- every execution but the last failed (a success ends the chain) -/
def onlyLastMaySucceed : List Obs → Bool
  | [] => true
  | [_] => true
  | x :: rest => x.failed && onlyLastMaySucceed rest

/-- the k-th retry starts no earlier than the failure before it plus `pol k` (k = 1, 2, …) -/
def backoffOk (pol : Int → Int) : List Obs → Bool
  | [] => true
  | [_] => true
  | x :: y :: rest => decide (x.fin + pol (x.tried + 1) ≤ y.start) && backoffOk pol (y :: rest)

/-- final place of the message after the chain -/
inductive Final where
  | acked | dead | rescheduled | other
  deriving Repr, DecidableEq, Inhabited

/-- the whole statement of C04 for one scheduling of a job with `retries = maxN`:
    counters 0,1,2…; at most maxN+1 executions; if every execution failed there are exactly maxN+1
    and the message is dead-lettered (rescheduled when recurring); a success ends the chain with an
    ack (reschedule when recurring); back-off respected. -/
def chainOk (maxN : Int) (recurring : Bool) (pol : Int → Int) (xs : List Obs) (final : Final) : Bool :=
  countersOk 0 xs && onlyLastMaySucceed xs && backoffOk pol xs &&
  decide ((xs.length : Int) ≤ maxN + 1) &&
  (match xs.getLast? with
   | none => false
   | some l =>
     if l.failed then decide ((xs.length : Int) = maxN + 1) &&
        (if recurring then final == .rescheduled else final == .dead)
     else (if recurring then final == .rescheduled else final == .acked))

end C04

end Repid.Pred

namespace Repid.Pred.C16
open Repid Worker

def isSet : Pre → Option Bool
  | .setResult => some true
  | .setException => some false
  | .addCallback _ _ => none

def users : List Pre → List Cb
  | [] => []
  | .addCallback i r :: rest => .user i r :: users rest
  | _ :: rest => users rest

/-- position (in the list of declarations) and flag of the LAST set_result / set_exception -/
def lastSet : List Pre → Option (Nat × Bool)
  | [] => none
  | x :: rest =>
    match lastSet rest with
    | some (i, s) => some (i + 1, s)
    | none => (isSet x).map fun s => (0, s)

/-- SPEC of the execution order after an eager response: the registered callbacks in registration
    order, the result store taking the place of the latest set_result / set_exception call. -/
def specOrder (pre : List Pre) : List Cb :=
  match lastSet pre with
  | none => users pre
  | some (i, s) => users (pre.take i) ++ [.store s] ++ users (pre.drop (i + 1))

/-- observed execution order `ran` agrees with the spec (callback ids only; whether a callback
    raised is not observable in the order) -/
def sameOrder : List Cb → List Cb → Bool
  | [], [] => true
  | .user i _ :: a, .user j _ :: b => i == j && sameOrder a b
  | .store s :: a, .store t :: b => s == t && sameOrder a b
  | _, _ => false

def orderOk (pre : List Pre) (ran : List Cb) : Bool := sameOrder (specOrder pre) ran

end Repid.Pred.C16

namespace Repid.Pred.C06
open Repid

/-- successor parameters produced at `now` for a job with period `per` whose delivered message had
    time base `ts0` and `delay_until = du`: counter reset, TTL clock restarted, scheduled time strictly
    in the future, at most one period ahead and on the grid of the old time base (or `du` while ahead) -/
def successorOk (now per ts0 : Int) (du : Option Int) (succ : Params) : Bool :=
  succ.retries.alreadyTried == 0 && succ.timestamp == now &&
  Pred.C19.nextOk ts0 now per du succ.delay.nextExecutionTime

/-- scheduled times of consecutive iterations are at least one period apart -/
def spacingOk (tPrev tNext per : Int) : Bool := decide (tPrev + per ≤ tNext)

end Repid.Pred.C06
