/-
Dependency resolution (code-model).  Anchors:
  repid/dependencies/depends.py:24-30      Depends.__init__ / override
  repid/dependencies/depends.py:32-60      Depends.resolve (recursion into sub-dependencies, gather, call)
  repid/dependencies/depends.py:62-86      _update_subdependencies (declaration checks)
  repid/dependencies/message_dependency.py construct_as_dependency / resolve (the message dependency)
  repid/_processor.py:75-107               actor_run: converter.dependencies resolved, passed as keyword arguments
  repid/_utils/get_dependency.py           what counts as a dependency annotation
-/
import RepidModel.Conv.Bind

namespace Repid.Deps
open Repid

/-- what a dependency parameter refers to: the message dependency or a `Depends` object (by number) -/
inductive Ref where
  | msg
  | prov (k : Nat)
  deriving Repr, DecidableEq, Inhabited

/-- the provider a `Depends` object currently holds (`_fn`): its signature grouped by parameter kind (`P.isDep`
    marks parameters whose annotation is a dependency), the reference behind each such parameter, and whether
    calling it raises -/
structure Provider where
  fn : Nat
  sig : Conv.Sig
  refs : List (String × Ref)
  fails : Bool := false
  deriving Repr, DecidableEq, Inhabited

/-- `_update_subdependencies`: which declarations are accepted.  Positional-only dependency → ValueError;
    positional-or-keyword / keyword-only dependency → sub-dependency; anything else (also `*args`, `**kwargs`,
    whose `default` is `empty`) must have a default → else ValueError. -/
def declOk (s : Conv.Sig) : Bool :=
  s.posOnly.all (fun p => !p.isDep && p.hasDefault) &&
  (s.posOrKw ++ s.kwOnly).all (fun p => p.isDep || p.hasDefault) &&
  !s.varPos && !s.varKw

/-- `_subdependencies`: names of the dependency parameters, in signature order -/
def subNames (s : Conv.Sig) : List String := ((s.posOrKw ++ s.kwOnly).filter (·.isDep)).map (·.name)

/-- the `Depends` objects alive in the program (`override` replaces an entry) -/
abbrev Env := List (Nat × Provider)

def Env.get (e : Env) (k : Nat) : Option Provider := (e.find? (·.1 == k)).map (·.2)

/-- `Depends.override`: the object keeps its identity, its provider changes -/
def Env.override (e : Env) (k : Nat) (p : Provider) : Env :=
  e.map fun x => if x.1 == k then (k, p) else x

/-- a resolved value: the message dependency, or what provider `fn` returned for these keyword arguments -/
inductive Val where
  | msg
  | app (fn : Nat) (kw : List (String × Val))
  deriving Repr, Inhabited

inductive Err where
  | failed (fn : Nat)        -- the provider raised
  | unknown                  -- no such Depends object / reference (not constructible in Python)
  | fuel                     -- recursion budget exhausted (cyclic declarations)
  deriving Repr, DecidableEq, Inhabited

def refOf (refs : List (String × Ref)) (name : String) : Option Ref := (refs.find? (·.1 == name)).map (·.2)

/-- the sub-dependencies of one provider, each resolved by `f` (gathered; the value does not depend on the order) -/
def resolveList (f : Ref → Except Err Val) (refs : List (String × Ref)) : List String → Except Err (List (String × Val))
  | [] => .ok []
  | n :: rest =>
    match refOf refs n with
    | none => .error .unknown
    | some r =>
      match f r with
      | .error err => .error err
      | .ok v =>
        match resolveList f refs rest with
        | .error err => .error err
        | .ok vs => .ok ((n, v) :: vs)

/-- `Depends.resolve` / `MessageDependency.resolve` (fuel = recursion budget; see `resolve_terminates`) -/
def resolve (e : Env) : Nat → Ref → Except Err Val
  | _, .msg => .ok .msg
  | 0, .prov _ => .error .fuel
  | fuel + 1, .prov k =>
    match e.get k with
    | none => .error .unknown
    | some p =>
      match resolveList (resolve e fuel) p.refs (subNames p.sig) with
      | .error err => .error err
      | .ok kw => if p.fails then .error (.failed p.fn) else .ok (.app p.fn kw)

@[reducible] def resolveAll (e : Env) (fuel : Nat) : List (String × Ref) → List String → Except Err (List (String × Val)) :=
  resolveList (resolve e fuel)

mutual
/-- every provider function that was called to produce a value (with multiplicity: nothing is cached) -/
def Val.fns : Val → List Nat
  | .msg => []
  | .app fn kw => fn :: fnsAll kw
def fnsAll : List (String × Val) → List Nat
  | [] => []
  | (_, v) :: rest => v.fns ++ fnsAll rest
end

/-- the keyword arguments a provider is called with, as the binding model of C08 sees them -/
def callKwargs (s : Conv.Sig) : List (String × Conv.V) := (subNames s).map fun n => (n, Conv.V.dep n)

/-- `await self._fn(**dependency_kwargs)` through CPython's binding rules -/
def callProvider (s : Conv.Sig) : Except Conv.Err Conv.Bound := Conv.call s [] (callKwargs s)

/-- rank of a reference in an acyclic environment: `rank k` bounds the depth below `Depends` object `k` -/
def Acyclic (e : Env) (rank : Nat → Nat) : Prop :=
  ∀ k p, e.get k = some p → ∀ n j, refOf p.refs n = some (.prov j) → rank j < rank k

end Repid.Deps
