/-
S-expressions: the wire format of the line protocol between the Python harness and the model
driver.  One line = one S-expression.  Atoms are bare tokens (identifiers, integers) or
double-quoted strings with `\"`, `\\`, `\n` escapes.
-/
namespace Repid

inductive Sexp where
  | atom : String → Sexp
  | str  : String → Sexp
  | list : List Sexp → Sexp
  deriving Repr, Inhabited, BEq

namespace Sexp

private def isDelim (c : Char) : Bool :=
  c == ' ' || c == '\t' || c == '\n' || c == '\r' || c == '(' || c == ')' || c == '"'

inductive Tok where
  | lp | rp
  | a (s : String)
  | s (s : String)
  deriving Repr

/-- Tokeniser with fuel (the length of the input bounds the number of steps). -/
def tokenize (cs : List Char) : Option (List Tok) :=
  go cs.length cs []
where
  go : Nat → List Char → List Tok → Option (List Tok)
  | 0, [], acc => some acc.reverse
  | 0, _, _ => none
  | _ + 1, [], acc => some acc.reverse
  | n + 1, c :: rest, acc =>
    if c == ' ' || c == '\t' || c == '\n' || c == '\r' then go n rest acc
    else if c == '(' then go n rest (Tok.lp :: acc)
    else if c == ')' then go n rest (Tok.rp :: acc)
    else if c == '"' then
      match strLit rest [] with
      | some (s, rest') => go n rest' (Tok.s s :: acc)
      | none => none
    else
      let (tok, rest') := (c :: rest).span (fun x => !isDelim x)
      go n rest' (Tok.a (String.ofList tok) :: acc)
  strLit : List Char → List Char → Option (String × List Char)
  | [], _ => none
  | '"' :: rest, acc => some (String.ofList acc.reverse, rest)
  | '\\' :: 'n' :: rest, acc => strLit rest ('\n' :: acc)
  | '\\' :: 'r' :: rest, acc => strLit rest ('\r' :: acc)
  | '\\' :: c :: rest, acc => strLit rest (c :: acc)
  | c :: rest, acc => strLit rest (c :: acc)

/-- Parser over the token list using an explicit stack of open lists. -/
def parseToks : List Tok → List (List Sexp) → Option Sexp
  | [], [[x]] => some x
  | [], _ => none
  | Tok.lp :: ts, st => parseToks ts ([] :: st)
  | Tok.rp :: ts, cur :: parent :: st => parseToks ts ((Sexp.list cur.reverse :: parent) :: st)
  | Tok.rp :: _, _ => none
  | Tok.a s :: ts, cur :: st => parseToks ts ((Sexp.atom s :: cur) :: st)
  | Tok.s s :: ts, cur :: st => parseToks ts ((Sexp.str s :: cur) :: st)
  | _ :: _, [] => none

def parse (line : String) : Option Sexp :=
  match tokenize line.toList with
  | some ts => parseToks ts [[]]
  | none => none

private def escape (s : String) : String :=
  String.ofList (s.toList.flatMap fun c =>
    if c == '"' then ['\\', '"'] else if c == '\\' then ['\\', '\\']
    else if c == '\n' then ['\\', 'n'] else if c == '\r' then ['\\', 'r'] else [c])

partial def render : Sexp → String
  | atom s => s
  | str s => "\"" ++ escape s ++ "\""
  | list xs => "(" ++ " ".intercalate (xs.map render) ++ ")"

instance : ToString Sexp := ⟨render⟩

/-! Decoding helpers: every accessor is partial (`Option`); the driver answers `bad-op` on `none`
    and never substitutes a default. -/

def toInt? : Sexp → Option Int
  | atom s => s.toInt?
  | _ => none

def toNat? : Sexp → Option Nat
  | atom s => s.toNat?
  | _ => none

def toStr? : Sexp → Option String
  | str s => some s
  | atom s => some s
  | _ => none

def toBool? : Sexp → Option Bool
  | atom "true" => some true
  | atom "false" => some false
  | _ => none

def toList? : Sexp → Option (List Sexp)
  | list xs => some xs
  | _ => none

/-- `none` atom ↦ `some none`; anything else is decoded by `f`. -/
def toOpt? {α : Type} (f : Sexp → Option α) : Sexp → Option (Option α)
  | atom "none" => some none
  | x => (f x).map some

def mapM? {α : Type} (f : Sexp → Option α) : Sexp → Option (List α)
  | list xs => xs.mapM f
  | _ => none

def ofInt (i : Int) : Sexp := atom (toString i)
def ofNat (n : Nat) : Sexp := atom (toString n)
def ofBool (b : Bool) : Sexp := atom (if b then "true" else "false")
def ofOpt {α : Type} (f : α → Sexp) : Option α → Sexp
  | none => atom "none"
  | some a => f a
def ofList {α : Type} (f : α → Sexp) (xs : List α) : Sexp := list (xs.map f)

end Sexp
end Repid
