/-
Line-protocol driver: one S-expression `(cmd arg…)` per input line, one answer per line.
Imports model files only (no Mathlib) so that it links as an executable.
-/
import RepidModel

open Repid Sexp Driver

def handlers : List Handler := [pureHandler Driver.sched, Driver.mem, pureHandler Driver.worker, pureHandler Driver.codec, pureHandler Driver.conv, pureHandler Driver.route, pureHandler Driver.mw, pureHandler Driver.deps, pureHandler Driver.health, Driver.redis, Driver.rabbit]

def dispatch (st : DState) (cmd : String) (args : List Sexp) : Option (DState × Sexp) :=
  handlers.firstM fun h => h st cmd args

def answer (st : DState) (line : String) : DState × String :=
  match parse line with
  | some (.list (.atom cmd :: args)) =>
    match dispatch st cmd args with
    | some (st', r) => (st', render r)
    | none => (st, "bad-op")
  | _ => (st, "bad-op")

partial def loop (h : IO.FS.Stream) (out : IO.FS.Stream) (st : DState) : IO Unit := do
  let line ← h.getLine
  if line.isEmpty then return ()
  let (st', a) := answer st line
  out.putStrLn a
  loop h out st'

def main : IO Unit := do
  let out ← IO.getStdout
  loop (← IO.getStdin) out {}
  out.flush
