import RepidModel.Base.Wire
import RepidModel.Pred.C19

namespace Repid.Driver
open Repid Sexp Wire

def sched : String → List Sexp → Option Sexp
  | "backoff", [a, b, c, d, e] => do
    pure (ofNat (Sched.backoff (← toNat? a) (← toNat? b) (← toNat? c) (← toNat? d) (← toNat? e)))
  | "nextDefer", [ts, now, p] => do
    let p ← toInt? p
    if p ≤ 0 then none   -- Python raises ZeroDivisionError / is outside the validated domain
    pure (ofInt (Sched.nextDefer (← toInt? ts) (← toInt? now) p))
  | "overdue", [now, ts, ttl] => do
    pure (ofBool (Sched.overdue (← toInt? now) (← toInt? ts) (← toOpt? toInt? ttl)))
  | "computeNext", [p, now] => do
    let p ← paramsOf p; noCron p
    pure (ofOpt ofInt (p.computeNext (← toInt? now) cronStub))
  | "waitUntil", [p, now] => do
    let p ← paramsOf p; noCron p
    pure (ofOpt ofInt (p.waitUntil (← toInt? now) cronStub))
  | "redisWaitTimestamp", [p, now] => do
    let p ← paramsOf p; noCron p
    pure (ofOpt ofInt (Sched.redisWaitTimestamp (p.waitUntil (← toInt? now) cronStub)))
  | "prepareRetry", [p, now, d] => do
    let p ← paramsOf p
    pure (paramsTo (p.prepareRetry (← toInt? now) (← toInt? d)))
  | "prepareReschedule", [p, now] => do
    let p ← paramsOf p; noCron p
    pure (paramsTo (p.prepareReschedule (← toInt? now) cronStub))
  -- property predicates evaluated on implementation values
  | "c19.backoffOk", [a, b, v] => do
    pure (ofBool (Pred.C19.backoffOk (← toNat? a) (← toNat? b) (← toNat? v)))
  | "c19.monoOk", [a, b] => do pure (ofBool (Pred.C19.monoOk (← toNat? a) (← toNat? b)))
  | "c19.nextOk", [ts, now, p, du, nx] => do
    let p ← toInt? p
    if p ≤ 0 then none
    pure (ofBool (Pred.C19.nextOk (← toInt? ts) (← toInt? now) p (← toOpt? toInt? du) (← toOpt? toInt? nx)))
  | "c19.overdueOk", [now, ts, ttl, b] => do
    pure (ofBool (Pred.C19.overdueOk (← toInt? now) (← toInt? ts) (← toOpt? toInt? ttl) (← toBool? b)))
  | _, _ => none

end Repid.Driver
