/-
Histories of the in-memory broker: atoms as a datatype, API calls as atom lists, runs.
-/
import RepidModel.Broker.InMemory

namespace Repid.Mem

/-- One atom (maximal await-free block) of the in-memory broker / consumer code. -/
inductive Op where
  | put (m : Msg) (now : Int)
  | ack (id : String)
  | nack (id : String)
  | reject (id : String)
  | unhold (id : String)              -- `ack` half of a requeue
  | reput (m : Msg) (now : Int)       -- `enqueue` half of a requeue
  | update (now : Int)
  | poll (c : Nat) (cat : Cat) (now : Int) (topics : List String)
  | finish (c : Nat) (perm : List Held)
  deriving Repr, DecidableEq

def step (cron : String → Int → Int) (q : Q) : Op → Q
  | .put m now => put q m now cron
  | .ack i => ackA q i
  | .nack i => nackA q i
  | .reject i => rejectA q i
  | .unhold i => unholdA q i
  | .reput m now => reputA q m now cron
  | .update now => updateDelayed q now
  | .poll c cat now topics => (pollTake q c cat now topics).2
  | .finish c perm => if perm.isPerm q.processing then finishA q c perm else q

def run (cron : String → Int → Int) (q : Q) (ops : List Op) : Q := ops.foldl (step cron) q

/-- ids that an atom brings into the queue from outside: `put` always; the `enqueue` half of a
    requeue only when the message was not parked by the matching `ack` half (i.e. a requeue of a
    message the caller did not hold — not well-behaved). -/
def introduces (q : Q) : Op → List String
  | .put m _ => [m.id]
  | .reput m _ => if q.limbo.any (·.id == m.id) then [] else [m.id]
  | _ => []

/-- ids introduced along a history -/
def introduced (cron : String → Int → Int) : Q → List Op → List String
  | _, [] => []
  | q, op :: rest => introduces q op ++ introduced cron (step cron q op) rest

/-- Broker API calls and the atoms they consist of (`requeue` is `ack` then `enqueue`:
    message_broker.py:88-96).  `consume` is `update; poll` followed by further polls. -/
inductive Call where
  | enqueue (m : Msg) (now : Int)
  | ack (id : String)
  | nack (id : String)
  | reject (id : String)
  | requeue (m : Msg) (now : Int)
  | finish (c : Nat) (perm : List Held)
  deriving Repr, DecidableEq

def Call.atoms : Call → List Op
  | .enqueue m now => [.put m now]
  | .ack i => [.ack i]
  | .nack i => [.nack i]
  | .reject i => [.reject i]
  | .requeue m now => [.unhold m.id, .reput m now]
  | .finish c perm => [.finish c perm]

/-- the effect of a call cancelled after `k` of its atoms -/
def Call.cancelledAfter (c : Call) (k : Nat) : List Op := c.atoms.take k

end Repid.Mem
