"""C08 — arguments bind to the actor signature identically under every converter.

Tie: random *programs*: signatures over the five parameter kinds with defaults and dependency
parameters mixed in are compiled to real `async def`s and registered through `Router.actor` with
BasicConverter, PydanticConverter and the default selection; payloads empty / exact / missing keys /
extra keys / explicit nulls.  The real `_Processor.actor_run` is executed and what the function body
actually received (every named parameter, *args, **kwargs) is compared with the Lean code-models
`Conv.basicCall` / `Conv.pydanticCall`; the SPEC `Conv.spec` (the statement) is evaluated for the
same program and compared with the implementation's observation.  CPython's own call binding is
differentially tested against `Conv.call`.  `convert_outputs` is parsed back."""
# NOTE: no `from __future__ import annotations` here: repid inspects real annotation objects.

import implenv  # noqa: F401

import asyncio
import inspect
import json
import typing

import pydantic

import vtime
from common import NONE, A, Model, Result, Rng, parse_sx, sx

from repid import (BasicConverter, Config, Connection, DefaultConverter, Depends, InMemoryMessageBroker, PydanticConverter,
                   Router)
from repid._processor import _Processor
from repid.data._key import RoutingKey
from repid.data._parameters import Parameters

RULE = ("programs = signature (0–2 positional-only, 0–3 positional-or-keyword, optional *args, 0–2 keyword-only, optional "
        "**kwargs; each named parameter with/without default, some as dependencies) × payload (empty, exact, missing keys, "
        "extra keys, explicit nulls) × converter (basic, pydantic, default); a case is distinct by (signature shape, payload shape, converter)")
ASSUMPTIONS = ["payload values already have the annotated types (parameters are unannotated ⇒ pydantic validates as Any)",
               "dependency resolution itself is C18: dependency parameters receive a marker value from a trivial provider"]
F6B = "F6b-basic-varargs-positional-collision"


class Dflt:
    def __init__(self, name):
        self.name = name

    def __repr__(self):
        return f"Dflt({self.name})"


def gen_sig(rng: Rng) -> dict:
    names = iter("abcdefghijk")
    def mk(n, dep_ok):
        out = []
        for _ in range(n):
            out.append({"name": next(names), "default": rng.random() < 0.5, "dep": dep_ok and rng.random() < 0.2})
        return out
    po = mk(rng.choice([0, 0, 1, 2]), False)
    pk = mk(rng.choice([0, 1, 2, 3]), True)
    vp = rng.random() < 0.3
    ko = mk(rng.choice([0, 0, 1, 2]), True)
    vk = rng.random() < 0.3
    return fix_defaults({"posOnly": po, "posOrKw": pk, "varPos": vp, "kwOnly": ko, "varKw": vk})


def fix_defaults(sig: dict) -> dict:
    """python: a parameter without default may not follow one with a default among positional params"""
    seen_default = False
    for p in sig["posOnly"] + sig["posOrKw"]:
        if p["dep"]:
            p["default"] = False
        if seen_default and not p["default"] and not p["dep"]:
            p["default"] = True
        if p["default"]:
            seen_default = True
    for p in sig["kwOnly"]:
        if p["dep"]:
            p["default"] = False
    return sig


CALLS: list = []
DFLTS: dict = {}


async def _provider_template():
    return None


def compile_fn(sig: dict, idx: int):
    """build `async def f<idx>(…)` with the given signature; the body records what it received"""
    parts = []
    seen_default = False
    env = {"CALLS": CALLS, "Depends": Depends, "typing": typing, "DF": DFLTS, "Field": pydantic.Field}
    # Pydantic's own way of declaring a parameter (converter = pydantic only): `= Field(default=…)` for a default,
    # `= Field()` / `= Field(description=…)` for a required one — every such parameter has a *Python* default (the FieldInfo)
    field_style = bool(sig.get("field_style"))

    def param_src(p):
        nonlocal seen_default
        if p["dep"]:
            async def prov(_n=p["name"]):
                return ("dep", _n)
            env[f"prov_{p['name']}"] = prov
            ann = f": typing.Annotated[typing.Any, Depends(prov_{p['name']})]"
            # a dependency parameter after defaulted ones needs a default syntactically
            return f"{p['name']}{ann}" + (" = None" if seen_default else "")
        if p["default"]:
            seen_default = True
            DFLTS[p["name"]] = DFLTS.get(p["name"]) or Dflt(p["name"])
            if field_style:
                how = f"default=DF['{p['name']}']" if ord(p["name"]) % 2 else f"default_factory=lambda: DF['{p['name']}']"
                return f"{p['name']}: typing.Any = Field({how})"
            return f"{p['name']}=DF['{p['name']}']"
        if field_style:
            seen_default = True
            return f"{p['name']}: typing.Any = Field(" + ("" if ord(p["name"]) % 2 else "description='required'") + ")"
        return p["name"]
    for p in sig["posOnly"]:
        parts.append(param_src(p))
    if sig["posOnly"]:
        parts.append("/")
    for p in sig["posOrKw"]:
        parts.append(param_src(p))
    if sig["varPos"]:
        parts.append("*args")
    elif sig["kwOnly"]:
        parts.append("*")
    seen_default = False
    for p in sig["kwOnly"]:
        parts.append(param_src(p))
    if sig["varKw"]:
        parts.append("**kwargs")
    named = [p["name"] for p in sig["posOnly"] + sig["posOrKw"] + sig["kwOnly"]]
    body = "    CALLS.append(({" + ", ".join(f"'{n}': {n}" for n in named) + "}, " + \
           ("list(args)" if sig["varPos"] else "[]") + ", " + ("dict(kwargs)" if sig["varKw"] else "{}") + "))\n    return None\n"
    src = f"async def f{idx}({', '.join(parts)}):\n{body}"
    exec(src, env)  # noqa: S102
    return env[f"f{idx}"], src


def sig_sx(sig: dict):
    def ps(l):
        return [[A("p"), p["name"], bool(p["default"]), bool(p["dep"])] for p in l]
    return [A("sig"), ps(sig["posOnly"]), ps(sig["posOrKw"]), bool(sig["varPos"]), ps(sig["kwOnly"]), bool(sig["varKw"])]


def gen_payload(rng: Rng, sig: dict):
    named = [p for p in sig["posOnly"] + sig["posOrKw"] + sig["kwOnly"] if not p["dep"]]
    kind = rng.choice(["empty", "exact", "exact", "missing", "extra", "extra+missing", "nulls"])
    deps = [p["name"] for p in sig["posOrKw"] + sig["kwOnly"] if p["dep"]]
    if deps and rng.random() < 0.25:
        kind = "depkey"          # a payload entry named like a dependency parameter
    if kind == "empty":
        return kind, None
    vals = [1, "s", [1, 2], {"k": 1}, 0, False, None, 2.5, ""]
    fields = {}
    for p in named:
        if kind in ("missing", "extra+missing") and rng.random() < 0.4:
            continue
        fields[p["name"]] = None if kind == "nulls" and rng.random() < 0.6 else rng.choice(vals)
    if kind in ("extra", "extra+missing"):
        for x in rng.sample(["x", "y", "zz"], rng.choice([1, 2])):
            fields[x] = rng.choice(vals)
    if kind == "depkey":
        fields[rng.choice(deps)] = rng.choice(["from-payload", 7])
    items = list(fields.items())
    rng.shuffle(items)
    return kind, dict(items)


def val_sx(v):
    if isinstance(v, Dflt):
        return [A("dflt"), v.name]
    if isinstance(v, tuple) and len(v) == 2 and v[0] == "dep":
        return [A("dep"), v[1]]
    try:
        return [A("json"), json.dumps(v, sort_keys=True)]
    except TypeError:
        return [A("object"), type(v).__name__]      # nothing a payload or a declared default can produce


def observed_sx(call, sig):
    named, star, dstar = call
    order = [p["name"] for p in sig["posOnly"] + sig["posOrKw"] + sig["kwOnly"]]
    return [A("bound"), [[n, val_sx(named[n])] for n in order], [val_sx(v) for v in star], [[k, val_sx(v)] for k, v in dstar.items()]]


async def run_programs(programs: list) -> list:
    conn = Connection(InMemoryMessageBroker())
    proc = _Processor(conn)
    out = []
    for i, (sig, conv, payload_kind, payload) in enumerate(programs):
        fn, src = compile_fn(sig, i)
        router = Router()
        rec = {"i": i, "sig": sig, "src": src, "converter": conv, "payload_kind": payload_kind, "payload": payload}
        try:
            if conv == "default":
                saved = Config.CONVERTER
                Config.CONVERTER = DefaultConverter
                try:
                    from repid.router import RouterDefaults
                    router = Router(defaults=RouterDefaults())
                    router.actor(fn, name="act")
                finally:
                    Config.CONVERTER = saved
            else:
                cls = {"basic": BasicConverter, "pydantic": PydanticConverter}[conv]
                if i % 2:
                    router.actor(fn, name="act", converter=cls)
                else:
                    # the decorator-with-options form; the router's own default is the OTHER converter
                    from repid.router import RouterDefaults
                    router = Router(defaults=RouterDefaults(converter=PydanticConverter if cls is BasicConverter else BasicConverter))
                    router.actor(name="act", converter=cls)(fn)
        except Exception as e:  # noqa: BLE001
            rec["declared"] = False
            rec["decl_error"] = f"{type(e).__name__}: {e}"
            out.append(rec)
            continue
        rec["declared"] = True
        actor = router.actors["act"]
        rec["converter_class"] = type(actor.converter).__name__
        del CALLS[:]
        text = "" if payload is None else json.dumps(payload)
        res = await proc.actor_run(actor, RoutingKey(topic="act", id_="m1"), Parameters(), text, conn)
        rec["success"] = res.success
        rec["exception"] = None if res.exception is None else f"{type(res.exception).__name__}: {res.exception}"
        rec["calls"] = list(CALLS)
        out.append(rec)
    return out


def payload_sx(payload):
    if payload is None:
        return NONE
    return [[k, [A("json"), json.dumps(v, sort_keys=True)]] for k, v in payload.items()]


def f6b_trigger(sig: dict, payload) -> bool:
    if payload is None or not sig["varPos"] or sig["varKw"] or not sig["posOrKw"]:
        return False
    names = {p["name"] for p in sig["posOnly"] + sig["posOrKw"] + sig["kwOnly"] if not p["dep"]}
    return any(k not in names for k in payload)


def check_programs(recs: list, model: Model, res: Result) -> None:
    reqs = []
    for r in recs:
        cmd = "conv.pydantic" if r["converter"] in ("pydantic", "default") else "conv.basic"
        r["model_cmd"] = cmd
        reqs.append(sx([A(cmd), sig_sx(r["sig"]), payload_sx(r["payload"])]))
        reqs.append(sx([A("conv.spec"), sig_sx(r["sig"]), payload_sx(r["payload"])]))
    answers = model.ask(reqs)
    res.extra["model_requests"] = res.extra.get("model_requests", 0) + len(answers)
    for n, r in enumerate(recs):
        mod, spec = answers[2 * n], answers[2 * n + 1]
        sig = r["sig"]
        shape = (len(sig["posOnly"]), len(sig["posOrKw"]), sig["varPos"], len(sig["kwOnly"]), sig["varKw"],
                 sum(p["dep"] for p in sig["posOrKw"] + sig["kwOnly"]), sum(p["default"] for p in sig["posOnly"] + sig["posOrKw"] + sig["kwOnly"]),
                 bool(sig.get("field_style")))
        res.dist[f"{r['converter']}:{r['payload_kind']}"] += 1
        res.dist["declaration-style:" + ("pydantic-Field" if sig.get("field_style") else "plain")] += 1
        case = {"signature": r["src"].split("\n")[0], "converter": r["converter"], "payload": r["payload"]}
        res.note((shape, r["payload_kind"], r["converter"], json.dumps(r["payload"], sort_keys=True)),
                 sample=case if len(res.samples) < 5 else None)
        if r["converter"] == "default" and r.get("declared") and r.get("converter_class") != "PydanticConverter":
            res.bad("impl", "default converter selection is not PydanticConverter although pydantic 2 is installed", case=case,
                    observed=r.get("converter_class"))
        want = {"basic": "BasicConverter", "pydantic": "PydanticConverter"}.get(r["converter"])
        if want and r.get("declared") and r.get("converter_class") != want:
            res.bad("impl", "the actor was declared with one converter but another one binds its arguments", case=case,
                    observed=r.get("converter_class"), expected=want)
        # what the implementation did
        if not r["declared"]:
            obs = "(err unsupported)"
        elif r["success"] and len(r["calls"]) == 1:
            obs = sx(observed_sx(r["calls"][0], sig))
        elif r["success"]:
            obs = f"(weird success with {len(r['calls'])} calls)"
        else:
            obs = "(err)"
        def norm(s):
            s = " ".join(s.split())
            return "(err)" if s.startswith("(err") and not s.startswith("(err unsupported") else s
        if norm(obs) != norm(mod):
            res.bad("corr", f"Conv model ({r['model_cmd']}) vs what the actor body received", case=case,
                    observed=dict(observed=obs, exception=r.get("exception") or r.get("decl_error")), expected=mod)
        # the statement (SPEC) on the implementation's observation
        spec_n, obs_n = norm(spec), norm(obs)
        if obs_n == "(err unsupported)":
            continue         # the converter does not support this signature (declared so at declaration time)
        deps = {p["name"] for p in sig["posOrKw"] + sig["kwOnly"] if p["dep"]}
        if r["model_cmd"] == "conv.basic" and sig["varKw"] and r["payload"] and deps & set(r["payload"]):
            # the point the main theorem excludes (NoDepKeys): an entry named like a dependency parameter cannot be handed to
            # **kwargs — Python rejects the repeated keyword, the execution must fail (C08.dep_key_collision_fails), and in no
            # case may the actor body see payload data in a dependency parameter
            res.dist["dep-named-payload-key"] += 1
            spec_n = spec = "(err)"
        if obs_n != spec_n:
            trig = F6B if (r["model_cmd"] == "conv.basic" and f6b_trigger(sig, r["payload"])) else None
            res.bad("impl", "arguments received by the actor differ from the specification (entry of its name, else default; "
                            "extras only to a catch-all; missing required ⇒ failed execution)", case=case,
                    observed=dict(observed=obs, exception=r.get("exception")), expected=spec, finding=trig)


# ------------------------------------------------------------------ CPython binding vs Conv.call
def part_pycall(rng: Rng, model: Model, res: Result, n: int) -> None:
    reqs, meta = [], []
    loop = asyncio.new_event_loop()
    try:
        for i in range(n):
            sig = gen_sig(rng)
            for p in sig["posOnly"] + sig["posOrKw"] + sig["kwOnly"]:
                p["dep"] = False
            fix_defaults(sig)
            fn, src = compile_fn(sig, 10_000 + i)
            names = [p["name"] for p in sig["posOnly"] + sig["posOrKw"] + sig["kwOnly"]]
            args = [rng.randrange(100) for _ in range(rng.choice([0, 0, 1, 2, 3, 4]))]
            kwn = rng.sample(names + ["x", "y"], rng.randrange(0, min(4, len(names) + 2) + 1))
            kwargs = {k: rng.randrange(100, 200) for k in kwn}
            del CALLS[:]
            try:
                loop.run_until_complete(fn(*args, **kwargs))
                obs = sx(observed_sx(CALLS[0], sig))
            except TypeError as e:
                obs = "(err)"
            reqs.append(sx([A("conv.call"), sig_sx(sig), [[A("json"), json.dumps(a)] for a in args],
                            [[k, [A("json"), json.dumps(v)]] for k, v in kwargs.items()]]))
            meta.append(({"signature": src.split("\n")[0], "args": args, "kwargs": kwargs}, obs))
            res.dist["pycall"] += 1
    finally:
        loop.close()
    answers = model.ask(reqs)
    res.extra["model_requests"] = res.extra.get("model_requests", 0) + len(answers)
    for (case, obs), ans in zip(meta, answers):
        a = "(err)" if ans.startswith("(err") else " ".join(ans.split())
        if a != " ".join(obs.split()):
            res.bad("corr", "Conv.call (model of CPython call binding) vs CPython", case=case, observed=obs, expected=ans)


async def no_args_jobs(kind: str) -> dict:
    """a job enqueued without arguments (and one with `{}`) travels through the given broker to a real Worker whose actors have
    defaults for all their parameters — under the Basic, the Pydantic and the default converter"""
    import fake_amqp
    import fake_redis
    fake_redis.install()
    fake_amqp.install()
    fake_redis.reset_servers()
    fake_amqp.reset_servers()
    from repid import Job, RabbitMessageBroker, RedisMessageBroker, Worker
    broker = {"mem": InMemoryMessageBroker, "redis": lambda: RedisMessageBroker("redis://c08"),
              "rabbit": lambda: RabbitMessageBroker("amqp://c08")}[kind]()
    conn = Connection(broker)
    await conn.connect()
    seen: list = []
    router = Router()

    def mk(tag):
        async def f(a="dflt-a", *, b=("dflt", "b")):
            seen.append((tag, a, b))
        f.__name__ = "f_" + tag
        return f
    router.actor(mk("basic"), name="f_basic", converter=BasicConverter)
    router.actor(mk("pydantic"), name="f_pydantic", converter=PydanticConverter)
    saved = Config.CONVERTER
    Config.CONVERTER = DefaultConverter
    try:
        from repid.router import RouterDefaults
        r2 = Router(defaults=RouterDefaults())
        r2.actor(mk("default"), name="f_default")
    finally:
        Config.CONVERTER = saved
    await broker.queue_declare("default")
    n = 0
    for name in ("f_basic", "f_pydantic", "f_default"):
        for args in (None, {}):
            n += 1
            await Job(name, args=args, id_=f"na{n}", _connection=conn).enqueue()

    # arguments given as a pydantic model whose fields are partly left at the model's defaults: every entry of the model is an
    # argument — the actor's own (different) defaults apply to none of them
    class ArgsModel(pydantic.BaseModel):
        a: int
        b: str = "model-default"

    for name in ("f_basic", "f_pydantic", "f_default"):
        n += 1
        await Job(name, args=ArgsModel(a=7), id_=f"na{n}", _connection=conn).enqueue()
    w = Worker(routers=[router, r2], handle_signals=[], messages_limit=n, _connection=conn)
    try:
        await asyncio.wait_for(w.run(), 30)
        finished = True
    except asyncio.TimeoutError:
        finished = False
    await conn.disconnect()
    return {"broker": kind, "enqueued": n, "seen": sorted(seen, key=repr), "finished": finished}


def part_no_args(res: Result) -> None:
    for kind in ("mem", "redis", "rabbit"):
        o = vtime.run(lambda loop, k=kind: no_args_jobs(k), budget=20_000_000)
        res.dist["no-args-jobs:" + kind] += o["enqueued"]
        res.note(("no-args", kind))
        want = sorted([(t, "dflt-a", ("dflt", "b")) for t in ("basic", "pydantic", "default")] * 2 +
                      [(t, 7, "model-default") for t in ("basic", "pydantic", "default")], key=repr)
        o["seen"] = sorted(o["seen"], key=repr)
        got = [(t, a, tuple(b) if isinstance(b, (list, tuple)) else b) for t, a, b in o["seen"]]
        if got != want:
            res.bad("impl", "a job enqueued without arguments did not run the actor whose parameters all have defaults, with those "
                            "defaults (through the broker and a real Worker)", case={"label": "no-args-jobs", "broker": kind},
                    observed={"executions": o["seen"], "worker_finished": o["finished"]}, expected=want)


ANNOTATED_SRC = """
async def ann(a: int = None, b: str = None, c: list = (), d: int = 5, *, e: float = 1, f: dict = None, g: typing.Optional[int] = None):
    CALLS.append(dict(a=a, b=b, c=c, d=d, e=e, f=f, g=g))
"""


async def annotated_defaults() -> list:
    """annotated parameters whose declared default is not an instance of the annotation (`x: int = None`, `c: list = ()`): a
    parameter missing from the payload receives the DECLARED default — the very object — under every converter"""
    env = {"CALLS": CALLS, "typing": typing}
    exec(ANNOTATED_SRC, env)  # noqa: S102
    conn = Connection(InMemoryMessageBroker())
    proc = _Processor(conn)
    out = []
    for conv in ("basic", "pydantic", "default"):
        router = Router()
        if conv == "default":
            saved = Config.CONVERTER
            Config.CONVERTER = DefaultConverter
            try:
                from repid.router import RouterDefaults
                router = Router(defaults=RouterDefaults())
                router.actor(env["ann"], name="ann")
            finally:
                Config.CONVERTER = saved
        else:
            router.actor(env["ann"], name="ann", converter={"basic": BasicConverter, "pydantic": PydanticConverter}[conv])
        actor = router.actors["ann"]
        for payload in (None, {}, {"d": 7}, {"a": 3, "g": 4}):
            del CALLS[:]
            text = "" if payload is None else json.dumps(payload)
            r = await proc.actor_run(actor, RoutingKey(topic="ann", id_="m1"), Parameters(), text, conn)
            out.append({"converter": conv, "payload": payload, "success": r.success,
                        "exception": None if r.exception is None else f"{type(r.exception).__name__}: {str(r.exception)[:200]}",
                        "received": [{k: repr(v) for k, v in c.items()} for c in CALLS]})
    return out


def part_annotated(res: Result) -> None:
    rows = vtime.run(lambda loop: annotated_defaults(), budget=5_000_000)
    declared = {"a": None, "b": None, "c": (), "d": 5, "e": 1, "f": None, "g": None}
    for r in rows:
        res.dist["annotated-defaults:" + r["converter"]] += 1
        res.note(("annotated", r["converter"], json.dumps(r["payload"])))
        want = {k: repr((r["payload"] or {}).get(k, v)) for k, v in declared.items()}
        if not r["success"] or r["received"] != [want]:
            res.bad("impl", "a parameter missing from the payload did not receive its declared default (annotated parameter whose "
                            "default is not an instance of the annotation)", case={"signature": ANNOTATED_SRC.strip().split("\n")[0],
                                                                                      "converter": r["converter"], "payload": r["payload"]},
                    observed={"received": r["received"], "exception": r["exception"]}, expected=want)


def part_outputs(rng: Rng, res: Result) -> None:
    """the encoded return value decodes to the value the actor returned"""
    async def f1():
        return None
    vals = [0, 1.5, "x", "", None, True, [1, {"a": [None]}], {"k": {"z": 1}}]
    for conv in (BasicConverter, PydanticConverter):
        c = conv(f1)
        for v in vals:
            enc = c.convert_outputs(v)
            res.dist["outputs"] += 1
            res.note(("out", conv.__name__, json.dumps(v)))
            if json.loads(enc) != v:
                res.bad("impl", "convert_outputs(value) does not decode to the value", case={"converter": conv.__name__, "value": v}, observed=enc)


def run(ctx) -> Result:
    tier, seed = ctx["tier"], ctx["seed"]
    res = Result("C08")
    model = Model()
    deep = tier == "thorough" or ctx.get("search")
    rng = Rng(seed, "c08")
    programs = []
    # corpus first: the recorded finding F6b and the two repaired defects (regressions)
    fixed = [({"posOnly": [], "posOrKw": [{"name": "a", "default": False, "dep": False}], "varPos": True, "kwOnly": [], "varKw": False},
              "basic", "extra", {"a": 1, "x": 9}),
             ({"posOnly": [], "posOrKw": [{"name": "a", "default": False, "dep": False}, {"name": "b", "default": True, "dep": False}],
               "varPos": False, "kwOnly": [], "varKw": False}, "basic", "missing", {"b": 2}),
             ({"posOnly": [], "posOrKw": [{"name": "a", "default": True, "dep": False}], "varPos": False, "kwOnly": [], "varKw": False},
              "pydantic", "empty", None),
             ({"posOnly": [], "posOrKw": [{"name": "a", "default": True, "dep": False}], "varPos": False, "kwOnly": [], "varKw": False},
              "default", "empty", None)]
    programs.extend(fixed)
    for i in range(3000 if deep else 500):
        sig = gen_sig(rng)
        kind, payload = gen_payload(rng, sig)
        conv = rng.choice(["basic", "basic", "pydantic", "default"])
        if conv != "basic" and rng.random() < 0.35:
            sig["field_style"] = True
        programs.append((sig, conv, kind, payload))
    recs = vtime.run(lambda loop: run_programs(programs), budget=50_000_000)
    check_programs(recs, model, res)
    part_pycall(rng, model, res, 6000 if deep else 1200)
    part_outputs(rng, res)
    part_no_args(res)
    part_annotated(res)
    return res


def search(ctx) -> Result:
    return run(dict(ctx, tier="thorough"))
