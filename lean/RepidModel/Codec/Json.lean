/-
Wire encodings of repid's own data (code-model at the level of JSON *trees*).  Anchors:
  repid/data/_parameters.py   RetriesProperties / ResultProperties / DelayProperties / Parameters .encode/.decode
  repid/data/_buckets.py      ArgsBucket / ResultBucket .encode/.decode
  repid/_utils/json_encoder.py   datetime → isoformat string, timedelta → total_seconds() float
`json.dumps/loads`, `isoformat/fromisoformat` and the float ↔ text conversion are library behaviour
(trusted, sampled by the correspondence check); what is modelled is WHICH fields are emitted and HOW
each one is converted back.  A duration travels as `J.dur n` (n µs; the float round trip is
`TdFloat.roundtrip`), a timestamp as `J.time t`.
-/
import RepidModel.Sched

namespace Repid.Codec

inductive J where
  | null
  | bool (b : Bool)
  | int (i : Int)
  | dur (us : Int)          -- JSON number: seconds as float, carries a duration
  | time (us : Int)         -- JSON string: ISO-8601 timestamp
  | str (s : String)
  | obj (fields : List (String × J))
  deriving Repr, Inhabited

def J.get (j : J) (k : String) : Option J :=
  match j with
  | .obj fs => (fs.find? (·.1 == k)).map (·.2)
  | _ => none

def optJ {α : Type} (f : α → J) : Option α → J
  | none => .null
  | some a => f a

/-! ### encode (`asdict` + JSON encoder) -/

def encRetries (r : Retries) : J :=
  .obj [("max_amount", .int r.maxAmount), ("already_tried", .int r.alreadyTried)]

def encResult (r : ResultProps) : J :=
  .obj [("id_", .str r.id), ("ttl", optJ .dur r.ttl)]

def encDelay (d : Delay) : J :=
  .obj [("delay_until", optJ .time d.delayUntil), ("defer_by", optJ .dur d.deferBy),
        ("cron", optJ .str d.cron), ("next_execution_time", optJ .time d.nextExecutionTime)]

def encParams (p : Params) : J :=
  .obj [("execution_timeout", .dur p.executionTimeout), ("result", optJ encResult p.result),
        ("retries", encRetries p.retries), ("delay", encDelay p.delay),
        ("timestamp", .time p.timestamp), ("ttl", optJ .dur p.ttl)]

/-! ### decode (field by field, as in the code: `None` stays `None`) -/

def asInt : J → Option Int | .int i => some i | _ => none
def asStr : J → Option String | .str s => some s | _ => none
/-- `timedelta(seconds=float(v))` -/
def asDur : J → Option Int | .dur n => some n | .int i => some (i * 1000000) | _ => none
/-- `datetime.fromisoformat(v)` -/
def asTime : J → Option Int | .time t => some t | _ => none

def optField {α : Type} (j : J) (k : String) (f : J → Option α) : Option (Option α) :=
  match j.get k with
  | none => none                      -- the constructor requires the field (encode always emits it)
  | some .null => some none
  | some v => (f v).map some

def decRetries (j : J) : Option Retries := do
  let mx ← (j.get "max_amount").bind asInt
  let tr ← (j.get "already_tried").bind asInt
  pure { maxAmount := mx, alreadyTried := tr }

def decResult (j : J) : Option ResultProps := do
  let id ← (j.get "id_").bind asStr
  let ttl ← optField j "ttl" asDur
  pure { id, ttl }

def decDelay (j : J) : Option Delay := do
  let du ← optField j "delay_until" asTime
  let db ← optField j "defer_by" asDur
  let cr ← optField j "cron" asStr
  let nx ← optField j "next_execution_time" asTime
  pure { delayUntil := du, deferBy := db, cron := cr, nextExecutionTime := nx }

def decParams (j : J) : Option Params := do
  let to ← (j.get "execution_timeout").bind asDur
  let res ← optField j "result" decResult
  let re ← (j.get "retries").bind decRetries
  let de ← (j.get "delay").bind decDelay
  let ts ← (j.get "timestamp").bind asTime
  let ttl ← optField j "ttl" asDur
  pure { executionTimeout := to, result := res, retries := re, delay := de, timestamp := ts, ttl := ttl }

/-! ### buckets -/

structure ArgsBucket where
  data : String
  timestamp : Int
  ttl : Option Int
  deriving Repr, DecidableEq, Inhabited

structure ResultBucket where
  data : String
  startedWhen : Int
  finishedWhen : Int
  success : Bool
  exception : Option String
  timestamp : Int
  ttl : Option Int
  deriving Repr, DecidableEq, Inhabited

def encArgsBucket (b : ArgsBucket) : J :=
  .obj [("data", .str b.data), ("timestamp", .time b.timestamp), ("ttl", optJ .dur b.ttl)]

def encResultBucket (b : ResultBucket) : J :=
  .obj [("data", .str b.data), ("started_when", .int b.startedWhen), ("finished_when", .int b.finishedWhen),
        ("success", .bool b.success), ("exception", optJ .str b.exception),
        ("timestamp", .time b.timestamp), ("ttl", optJ .dur b.ttl)]

/-- `ArgsBucket.decode`: also accepts an encoded result bucket (drops its extra keys) -/
def decArgsBucket (j : J) : Option ArgsBucket := do
  let data ← (j.get "data").bind asStr
  let ts ← (j.get "timestamp").bind asTime
  let ttl ← optField j "ttl" asDur
  pure { data, timestamp := ts, ttl }

def asBool : J → Option Bool | .bool b => some b | _ => none

def decResultBucket (j : J) : Option ResultBucket := do
  let data ← (j.get "data").bind asStr
  let st ← (j.get "started_when").bind asInt
  let fi ← (j.get "finished_when").bind asInt
  let su ← (j.get "success").bind asBool
  let ex ← optField j "exception" asStr
  let ts ← (j.get "timestamp").bind asTime
  let ttl ← optField j "ttl" asDur
  pure { data, startedWhen := st, finishedWhen := fi, success := su, exception := ex, timestamp := ts, ttl }

end Repid.Codec
