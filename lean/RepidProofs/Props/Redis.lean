/-
Redis broker — the Redis clauses of C01, C03, C05, C12, C14, C15.
Model: RepidModel/Broker/Redis.lean (one queue name; every round trip / MULTI…EXEC an atom).
The per-property files import this file and re-export the theorems under their own names.
-/
import RepidModel.Broker.Redis

namespace Repid.RedisProofs
open Repid Redis

/-! ### projections through the hash updates -/

@[simp] theorem setHash_normal (r : R) (k : Nat × String) (h : Hash) : (setHash r k h).normal = r.normal := by
  unfold setHash; split <;> rfl
@[simp] theorem setHash_delayed (r : R) (k : Nat × String) (h : Hash) : (setHash r k h).delayed = r.delayed := by
  unfold setHash; split <;> rfl
@[simp] theorem setHash_dead (r : R) (k : Nat × String) (h : Hash) : (setHash r k h).dead = r.dead := by
  unfold setHash; split <;> rfl
@[simp] theorem setHash_processing (r : R) (k : Nat × String) (h : Hash) : (setHash r k h).processing = r.processing := by
  unfold setHash; split <;> rfl
@[simp] theorem normHash_normal (r : R) : (normHash r).normal = r.normal := rfl
@[simp] theorem normHash_delayed (r : R) : (normHash r).delayed = r.delayed := rfl
@[simp] theorem normHash_dead (r : R) : (normHash r).dead = r.dead := rfl
@[simp] theorem normHash_processing (r : R) : (normHash r).processing = r.processing := rfl

/-! ### C15 — the oldest matching waiting message is taken first -/

/-- the fetch window is not empty (`PREFETCH_AMOUNT`, extracted from the live class on every run: with 0 the consumer's
    window loop would never advance) -/
theorem prefetch_pos : 0 < prefetch := by decide

theorem fetchList_oldest (topics : List String) : ∀ (fuel : Nat) (rev : List String), rev.length < fuel →
    fetchList topics fuel rev = rev.find? (matchesTopics topics) := by
  intro fuel
  induction fuel with
  | zero => intro rev h; omega
  | succ fuel ih =>
    intro rev h
    cases rev with
    | nil => simp [fetchList]
    | cons x rest =>
      simp only [fetchList, windowOrder]
      have hsplit : x :: rest = (x :: rest).take prefetch ++ (x :: rest).drop prefetch := (List.take_append_drop _ _).symm
      cases hf : ((x :: rest).take prefetch).find? (matchesTopics topics) with
      | some y =>
        rw [hsplit, List.find?_append, hf]; rfl
      | none =>
        have hlen : ((x :: rest).drop prefetch).length < fuel := by
          have hp := prefetch_pos
          simp only [List.length_drop, List.length_cons] at h ⊢
          omega
        simp only []
        rw [ih _ hlen]
        conv => rhs; rw [hsplit, List.find?_append, hf]
        rfl

/-- `redis_fifo`: a normal (or dead-letter) consumer takes the OLDEST waiting name of the priority that matches its
    topics — for every list length (shorter or longer than the fetch window) and every mix of matching and foreign
    names -/
theorem redis_fifo (r : R) (prio : Nat) (topics : List String) :
    fetchNormal r .n prio topics = (view r.normal prio).reverse.find? (matchesTopics topics) := by
  simp only [fetchNormal]
  apply fetchList_oldest
  simp

theorem view_cons (l : List (Nat × String)) (p : Nat) (k : Nat × String) :
    view (k :: l) p = if k.1 = p then k.2 :: view l p else view l p := by
  simp only [view, List.filter_cons, beq_iff_eq]
  split <;> simp

theorem view_append (a b : List (Nat × String)) (p : Nat) : view (a ++ b) p = view a p ++ view b p := by
  simp [view]

/-- later arrivals (LPUSH) never overtake: whatever is enqueued, the name that would be taken stays the same -/
theorem enqueue_does_not_overtake (r : R) (k : Key) (prio : Nat) (topics : List String) (x : String)
    (h : fetchNormal r .n prio topics = some x) :
    fetchNormal (put r k none false) .n prio topics = some x := by
  rw [redis_fifo] at h ⊢
  simp only [put, Bool.false_eq_true, if_false, view_cons]
  split
  · simp only [List.reverse_cons, List.find?_append, h]; rfl
  · exact h

/-- a returned message (reject / requeue: RPUSH at the consuming end) is taken before everything that waits -/
theorem returned_is_next (r : R) (k : Key) (topics : List String) (hm : matchesTopics topics k.short = true) :
    fetchNormal (put r k none true) .n k.prio topics = some k.short := by
  rw [redis_fifo]
  simp [put, view_append, view, hm]

/-! ### C05 — never early -/

theorem ceilSecs_le_secs (t now : Int) (h : ceilSecs t ≤ secs now) : t ≤ now := by
  simp only [ceilSecs, secs, usPerSec] at h
  omega

theorem mem_zinsert (e x : String × Int) (l : List (String × Int)) : x ∈ zinsert e l → x = e ∨ x ∈ l := by
  induction l with
  | nil => simp [zinsert]
  | cons y rest ih =>
    simp only [zinsert]
    split
    · intro h; simp only [List.mem_cons] at h ⊢; rcases h with h | h | h <;> simp [h]
    · intro h
      simp only [List.mem_cons] at h ⊢
      rcases h with h | h
      · exact Or.inr (Or.inl h)
      · rcases ih h with h | h
        · exact Or.inl h
        · exact Or.inr (Or.inr h)

theorem mem_zsorted (x : String × Int) (z : List (String × Int)) : x ∈ zsorted z → x ∈ z := by
  induction z with
  | nil => simp [zsorted]
  | cons y rest ih =>
    simp only [zsorted, List.foldr_cons]
    intro h
    rcases mem_zinsert _ _ _ h with h | h
    · simp [h]
    · exact List.mem_cons_of_mem _ (ih h)

/-- what a NORMAL-category consumer takes out of the delayed set has a score that is not in the future -/
theorem fetchDelayed_due (r : R) (prio : Nat) (topics : List String) (nowSec : Int) (x : String)
    (h : fetchDelayed r prio topics nowSec false = some x) :
    ∃ s, ((prio, x), s) ∈ r.delayed ∧ s ≤ nowSec := by
  simp only [fetchDelayed, Bool.false_or] at h
  have hx := List.mem_of_find?_eq_some h
  simp only [List.mem_map, List.mem_filter, decide_eq_true_eq] at hx
  obtain ⟨⟨n, s⟩, ⟨hmem, hs⟩, rfl⟩ := hx
  have := mem_zsorted _ _ hmem
  simp only [zview, List.mem_map, List.mem_filter, beq_iff_eq] at this
  obtain ⟨⟨⟨p, n'⟩, s'⟩, ⟨hd, hp⟩, heq⟩ := this
  simp only [Prod.mk.injEq] at heq
  obtain ⟨rfl, rfl⟩ := heq
  simp only at hp
  subst hp
  exact ⟨s', hd, hs⟩

/-- `redis_never_early`: a message stored with the score of its due time (what `enqueue`, `requeue` and `reject` do:
    `waitScore`) is never handed to a normal consumer before that time — whatever the position of the due time and of
    the current time inside their clock seconds -/
theorem redis_never_early (r : R) (prio : Nat) (topics : List String) (now due : Int) (x : String)
    (h : fetchDelayed r prio topics (secs now) false = some x)
    (hscore : ∀ s, ((prio, x), s) ∈ r.delayed → s = ceilSecs due) : due ≤ now := by
  obtain ⟨s, hm, hs⟩ := fetchDelayed_due r prio topics (secs now) x h
  rw [hscore s hm] at hs
  exact ceilSecs_le_secs _ _ hs

theorem mem_zinsert_self (e : String × Int) (l : List (String × Int)) : e ∈ zinsert e l := by
  induction l with
  | nil => simp [zinsert]
  | cons y rest ih =>
    simp only [zinsert]
    split
    · simp
    · exact List.mem_cons_of_mem _ ih

theorem mem_zinsert_of_mem (e x : String × Int) (l : List (String × Int)) (h : x ∈ l) : x ∈ zinsert e l := by
  induction l with
  | nil => simp at h
  | cons y rest ih =>
    simp only [zinsert]
    split
    · exact List.mem_cons_of_mem _ h
    · rcases List.mem_cons.mp h with h | h
      · simp [h]
      · exact List.mem_cons_of_mem _ (ih h)

theorem mem_zsorted_of_mem (x : String × Int) (z : List (String × Int)) (h : x ∈ z) : x ∈ zsorted z := by
  induction z with
  | nil => simp at h
  | cons y rest ih =>
    simp only [zsorted, List.foldr_cons]
    rcases List.mem_cons.mp h with h | h
    · subst h; exact mem_zinsert_self _ _
    · exact mem_zinsert_of_mem _ _ _ (ih h)

/-- `redis_due_is_fetched` ("never forgotten", one poll): if a delayed message of the polled priority is due (its score is
    not in the future) and matches the consumer's topics, a poll of a NORMAL-category consumer takes some delayed message
    — the delayed set is looked at before the normal list, and nothing due is skipped over for ever -/
theorem redis_due_is_fetched (r : R) (prio : Nat) (topics : List String) (nowSec : Int) (x : String) (s : Int)
    (hm : ((prio, x), s) ∈ r.delayed) (hs : s ≤ nowSec) (ht : matchesTopics topics x = true) :
    (fetchDelayed r prio topics nowSec false).isSome = true := by
  simp only [fetchDelayed, Bool.false_or]
  rw [List.find?_isSome]
  refine ⟨x, ?_, ht⟩
  simp only [List.mem_map, List.mem_filter, decide_eq_true_eq]
  refine ⟨(x, s), ⟨?_, hs⟩, rfl⟩
  apply mem_zsorted_of_mem
  simp only [zview, List.mem_map, List.mem_filter, beq_iff_eq]
  exact ⟨((prio, x), s), ⟨hm, rfl⟩, rfl⟩

/-- the score `enqueue` stores is the rounded-up due time -/
theorem enqueue_score (p : Params) (now due : Int) (cronNext : String → Int → Int)
    (h : p.waitUntil now cronNext = some due) : waitScore p now cronNext = some (ceilSecs due) := by
  simp [waitScore, h]

/-- a message without due time goes to the normal list, one with a due time only to the delayed set -/
theorem delayed_only_visible_in_delayed (r : R) (k : Key) (s : Int) (inFront : Bool) :
    (put r k (some s) inFront).normal = r.normal ∧ (put r k (some s) inFront).dead = r.dead := by
  simp [put]

/-- the witness of the repaired defect: with truncated scores a message due at 10.4 s was taken at 10.0 s -/
theorem truncated_score_early_witness : secs 10400000 ≤ secs 10000000 ∧ ¬ (10400000 : Int) ≤ 10000000 ∧
    ¬ ceilSecs 10400000 ≤ secs 10000000 := by decide

/-! ### C12 — expired messages are never delivered; dead letters stay retrievable -/

/-- `redis_no_expired_delivery`: whatever the state, the priority order and the category (other than DEAD), the
    message a consume pass returns is not overdue -/
theorem redis_no_expired_delivery (cat : Marker) (topics : List String) (now : Int) (hcat : cat ≠ .dead) :
    ∀ (order : List Nat) (r r' : R) (d : Delivery),
      consumeOrNone cat topics now order r = (r', some d) → d.params.isOverdue now = false := by
  intro order
  induction order with
  | nil => intro r r' d h; simp [consumeOrNone] at h
  | cons p rest ih =>
    intro r r' d h
    simp only [consumeOrNone] at h
    split at h
    · exact ih _ _ _ h
    · rename_i r1 d1 _
      have hc : (cat != Marker.dead) = true := by simp [bne_iff_ne, hcat]
      cases ho : d1.params.isOverdue now with
      | true =>
        simp only [ho, hc, Bool.and_self, if_true] at h
        exact ih _ _ _ h
      | false =>
        simp only [ho, Bool.false_and, Bool.false_eq_true, if_false, Prod.mk.injEq, Option.some.injEq] at h
        rw [← h.2]; exact ho

/-- an expired message met by a consume pass is dead-lettered in the list of its own priority -/
theorem nack_dead_letters_own_priority (r : R) (k : Key) : (k.prio, k.short) ∈ (nackTx r k).dead := by
  simp [nackTx, unmark, markDead]

/-- `dead_letters_retrievable`: a consumer of the DEAD category returns what it takes, overdue or not -/
theorem dead_letters_retrievable (topics : List String) (now : Int) (p : Nat) (rest : List Nat) (r r1 : R) (d : Delivery)
    (h : getMessage .dead topics (secs now) (r.normal.length + r.delayed.length + r.dead.length + 1) r p = (r1, some d)) :
    consumeOrNone .dead topics now (p :: rest) r = (r1, some d) := by
  simp [consumeOrNone, h]

/-! ### C14 — the take transaction; the race of two consumers -/

/-- the recorded defect F12: two consumers that both read before either takes are both handed the message -/
theorem redis_take_race_witness :
    let r0 : R := { normal := [(5, "t:a")], hashes := [((5, "t:a"), { payload := some "{}", params := some {} })] }
    fetchNormal r0 .n 5 [] = some "t:a" ∧                       -- consumer 1 reads
    fetchNormal r0 .n 5 [] = some "t:a" ∧                       -- consumer 2 reads (nothing has changed yet)
    (details (takeTx r0 .n 5 "t:a" 0) 5 "t:a").2.isSome ∧       -- consumer 1 takes and gets the message
    (details (takeTx (takeTx r0 .n 5 "t:a" 0) .n 5 "t:a" 0) 5 "t:a").2.isSome ∧   -- so does consumer 2
    (takeTx (takeTx r0 .n 5 "t:a" 0) .n 5 "t:a" 0).processing.length = 1 := by decide

theorem lremLast_go_not_mem {α : Type} [BEq α] [LawfulBEq α] (l : List α) (v : α) (h : l.count v = 1) :
    v ∉ lremLast.go v l := by
  induction l with
  | nil => simp at h
  | cons x rest ih =>
    simp only [lremLast.go]
    by_cases hx : x = v
    · subst hx
      simp only [beq_self_eq_true, if_true]
      simp only [List.count_cons_self] at h
      have : rest.count x = 0 := by omega
      exact List.count_eq_zero.mp this
    · have hb : (x == v) = false := by simpa using hx
      simp only [hb, Bool.false_eq_true, if_false, List.mem_cons, not_or]
      refine ⟨fun e => hx e.symm, ih ?_⟩
      rw [List.count_cons] at h
      simpa [hb] using h

/-- `redis_take_removes_partial`: when the take transactions of different consumers do not interleave with each
    other's reads (hypothesis: each consumer's read and take happen back to back), a name that waits once is gone
    from the list after the take — a second consumer cannot read it -/
theorem redis_take_removes_partial (r : R) (prio : Nat) (short : String) (nowSec : Int)
    (h : r.normal.count (prio, short) = 1) : (prio, short) ∉ (takeTx r .n prio short nowSec).normal := by
  have : (prio, short) ∉ lremLast r.normal (prio, short) := by
    simp only [lremLast, List.mem_reverse]
    apply lremLast_go_not_mem
    simpa using h
  simpa [takeTx] using this

theorem zadd_mem {α : Type} [BEq α] [LawfulBEq α] (z : List (α × Int)) (m : α) (s : Int) :
    (m, s) ∈ zadd z m s := by
  simp only [zadd]
  split
  · rename_i h
    simp only [List.any_eq_true, beq_iff_eq] at h
    obtain ⟨e, he, hm⟩ := h
    simp only [List.mem_map]
    exact ⟨e, he, by simp [hm]⟩
  · simp

/-- the take marks the message as held (processing) with the time of the take -/
theorem take_marks_processing (r : R) (cat : Marker) (prio : Nat) (short : String) (nowSec : Int) :
    (short, nowSec) ∈ (takeTx r cat prio short nowSec).processing := by
  cases cat <;> simp only [takeTx, setHash_processing] <;> exact zadd_mem _ _ _

/-! ### C01 — what each terminal call does with a held message -/

theorem zrem_not_mem {α : Type} [BEq α] [LawfulBEq α] (z : List (α × Int)) (m : α) (s : Int) : (m, s) ∉ zrem z m := by
  simp [zrem]

/-- ack: the message is in no queue and not held any more, its data is deleted -/
theorem redis_ack_removes (r : R) (k : Key) :
    (∀ s, (k.short, s) ∉ (ackTx r k).processing) ∧ (ackTx r k).normal = r.normal ∧ (ackTx r k).delayed = r.delayed ∧
    (ackTx r k).dead = r.dead ∧ getHash (ackTx r k) (k.prio, k.short) = {} := by
  refine ⟨fun s => zrem_not_mem _ _ _, rfl, rfl, rfl, ?_⟩
  simp only [ackTx, getHash]
  rw [List.find?_eq_none.mpr]
  · rfl
  · intro e he
    simp only [List.mem_filter, Bool.not_eq_true', beq_eq_false_iff_ne] at he
    simpa using he.2

theorem unmark_lists (r : R) (k : Key) :
    (unmark r k).normal = r.normal ∧ (unmark r k).delayed = r.delayed ∧ (unmark r k).dead = r.dead ∧
    (∀ s, (k.short, s) ∉ (unmark r k).processing) := by
  simp only [unmark, normHash_normal, normHash_delayed, normHash_dead, normHash_processing, setHash_normal, setHash_delayed,
    setHash_dead, setHash_processing]
  exact ⟨trivial, trivial, trivial, fun s => zrem_not_mem _ _ _⟩

/-- nack: dead-lettered (list of its priority), no longer held -/
theorem redis_nack_dead_letters (r : R) (k : Key) :
    (nackTx r k).dead = (k.prio, k.short) :: r.dead ∧ (nackTx r k).normal = r.normal ∧
    (nackTx r k).delayed = r.delayed ∧ (∀ s, (k.short, s) ∉ (nackTx r k).processing) := by
  have := unmark_lists (markDead r k) k
  simp only [nackTx]
  exact ⟨this.2.2.1, this.1, this.2.1, this.2.2.2⟩

/-- `redis_reject_origin`: reject returns the message to the category it was taken from (FULL clause — unlike the
    in-memory broker, finding F1): taken from the dead letters → dead letters; otherwise → by its due time to the
    delayed set or, without one, to the consuming end of the normal list; in every case it is no longer held -/
theorem redis_reject_origin (r : R) (k : Key) (p : Params) (rejectTo : Option Marker) (now : Int)
    (cronNext : String → Int → Int) :
    (rejectTo = some .dead → (rejectTx r k p rejectTo now cronNext).dead = (k.prio, k.short) :: r.dead ∧
        (rejectTx r k p rejectTo now cronNext).normal = r.normal ∧ (rejectTx r k p rejectTo now cronNext).delayed = r.delayed) ∧
    (rejectTo ≠ some .dead → waitScore p now cronNext = none →
        (rejectTx r k p rejectTo now cronNext).normal = r.normal ++ [(k.prio, k.short)] ∧
        (rejectTx r k p rejectTo now cronNext).dead = r.dead ∧ (rejectTx r k p rejectTo now cronNext).delayed = r.delayed) ∧
    (rejectTo ≠ some .dead → ∀ s, waitScore p now cronNext = some s →
        (rejectTx r k p rejectTo now cronNext).delayed = zadd r.delayed (k.prio, k.short) s ∧
        (rejectTx r k p rejectTo now cronNext).normal = r.normal ∧ (rejectTx r k p rejectTo now cronNext).dead = r.dead) ∧
    (∀ s, (k.short, s) ∉ (rejectTx r k p rejectTo now cronNext).processing) := by
  refine ⟨?_, ?_, ?_, ?_⟩
  · intro h
    have := unmark_lists (markDead r k) k
    simp only [rejectTx, h, if_true]
    exact ⟨this.2.2.1, this.1, this.2.1⟩
  · intro h hs
    have := unmark_lists (put r k none true) k
    simp only [rejectTx, h, if_false, hs]
    exact ⟨this.1, this.2.2.1, this.2.1⟩
  · intro h s hs
    have := unmark_lists (put r k (some s) true) k
    simp only [rejectTx, h, if_false, hs]
    exact ⟨this.2.1, this.1, this.2.2.1⟩
  · intro s
    simp only [rejectTx]
    split
    · exact (unmark_lists _ k).2.2.2 s
    · exact (unmark_lists _ k).2.2.2 s

/-- requeue is ONE transaction (there is no intermediate state in which the message is in no place — unlike the
    in-memory broker, finding F2): afterwards the message waits again (normal list or delayed set) and is not held -/
theorem redis_requeue_atomic (r : R) (k : Key) (payload : String) (p : Params) (now : Int) (cronNext : String → Int → Int) :
    (∀ s, (k.short, s) ∉ (requeueTx r k payload p now cronNext).processing) ∧
    (waitScore p now cronNext = none → (requeueTx r k payload p now cronNext).normal = r.normal ++ [(k.prio, k.short)]) ∧
    (∀ s, waitScore p now cronNext = some s → (requeueTx r k payload p now cronNext).delayed = zadd r.delayed (k.prio, k.short) s) := by
  refine ⟨fun s => ?_, ?_, ?_⟩
  · simp only [requeueTx]; exact (unmark_lists _ k).2.2.2 s
  · intro hs
    simp only [requeueTx, hs]
    rw [(unmark_lists _ k).1]
    simp [put]
  · intro s hs
    simp only [requeueTx, hs]
    rw [(unmark_lists _ k).2.1]
    simp [put]

/-! ### C03 — crash recovery by maintenance -/

/-- one held message, seen by maintenance: it is rejected (returned to where it was taken from) iff its execution
    timeout has elapsed since the second in which it was taken; otherwise it stays held -/
theorem maintenance_single (k : Key) (h : Hash) (p : Params) (start now : Int) (cronNext : String → Int → Int)
    (hp : h.params = some p) (hk : k.short.splitOn ":" = [k.topic, k.id]) :
    let r : R := { processing := [(k.short, start)], hashes := [((k.prio, k.short), h)] }
    maintenance r now cronNext =
      if now - start * usPerSec > p.executionTimeout then reject r k now cronNext else r := by
  simp only [maintenance, List.foldl_cons, List.foldl_nil, List.filter_cons, beq_self_eq_true, if_true, List.filter_nil, hp, hk]

/-- "and not before": while the timeout has not elapsed (counted from the second of the take) nothing changes -/
theorem maintenance_not_before (k : Key) (h : Hash) (p : Params) (start now : Int) (cronNext : String → Int → Int)
    (hp : h.params = some p) (hk : k.short.splitOn ":" = [k.topic, k.id])
    (hnot : now - start * usPerSec ≤ p.executionTimeout) :
    maintenance { processing := [(k.short, start)], hashes := [((k.prio, k.short), h)] } now cronNext =
      { processing := [(k.short, start)], hashes := [((k.prio, k.short), h)] } := by
  have := maintenance_single k h p start now cronNext hp hk
  simp only at this
  rw [this, if_neg (by omega)]

/-- recorded finding F24: a consumer that is stopped right after its take transaction (before it has queued the message
    locally) leaves the message in `processing` only — no list holds it and the client has forgotten it; by
    `maintenance_not_before` it is not returned before its execution timeout has elapsed -/
theorem redis_cancelled_fetch_witness :
    let r0 : R := { normal := [(5, "t:a")], hashes := [((5, "t:a"), { payload := some "{}", params := some {} })] }
    let r1 := takeTx r0 .n 5 "t:a" 0
    r1.normal = [] ∧ r1.delayed = [] ∧ r1.dead = [] ∧ r1.processing = [("t:a", 0)] := by decide

end Repid.RedisProofs
