#!/bin/bash
# tools/run_all.sh [quick|thorough] [seed…] — every registered check on /repo, one line per check
cd "$(dirname "$0")/.."
TIER=${1:-quick}; shift
SEEDS=${@:-0}
for seed in $SEEDS; do
  for i in $(seq -w 1 20); do
    out=$(VERIF_SEED=$seed ./check C$i --tier $TIER --no-lean 2>&1)
    rc=$?
    echo "seed=$seed C$i rc=$rc $(echo "$out" | grep -c '^KNOWN-FINDING') known; $(echo "$out" | grep '^VIOLATION' | head -1) $(echo "$out" | tail -1 | cut -c1-110)"
  done
done
