/-
Line-protocol driver: one S-expression `(cmd arg…)` per input line, one answer per line.
Imports model files only (no Mathlib) so that it links as an executable.
-/
import RepidModel

open Repid Sexp

def dispatch (cmd : String) (args : List Sexp) : Option Sexp :=
  (Driver.sched cmd args)

def answer (line : String) : String :=
  match parse line with
  | some (.list (.atom cmd :: args)) =>
    match dispatch cmd args with
    | some r => render r
    | none => "bad-op"
  | _ => "bad-op"

partial def loop (h : IO.FS.Stream) (out : IO.FS.Stream) : IO Unit := do
  let line ← h.getLine
  if line.isEmpty then return ()
  out.putStrLn (answer line)
  loop h out

def main : IO Unit := do
  let out ← IO.getStdout
  loop (← IO.getStdin) out
  out.flush
