/-
Round trip of durations through a float number of seconds:
  encode: `timedelta.total_seconds()`            = rn (n / 10^6)            (n = microseconds)
  decode: `timedelta(seconds=float(v))`          = ⌊f⌋·10^6 + nearest (rn ((f − ⌊f⌋) · 10^6))
`rn` is ANY rounding to a representable number with relative error ≤ 2^-53 (IEEE-754 binary64
round-to-nearest satisfies this in the normal range), `nearest` ANY rounding to an integer at
distance ≤ 1/2 (CPython rounds half to even).  For every duration up to 100 years the decoded value
is the original number of microseconds.
-/
import Mathlib.Algebra.Order.Floor.Ring
import Mathlib.Algebra.Order.Round
import Mathlib.Tactic.Linarith
import Mathlib.Data.Rat.Floor

namespace Repid.TdFloat

/-- 100 years in microseconds (100 · 365.25 · 86400 · 10^6) -/
def hundredYearsUs : ℤ := 3155760000000000

theorem roundtrip (rn rn' : ℚ → ℚ) (nearest : ℚ → ℤ)
    (hrn : ∀ q : ℚ, |rn q - q| ≤ |q| / 2 ^ 53)
    (hrn' : ∀ q : ℚ, |rn' q - q| ≤ |q| / 2 ^ 53)
    (hnear : ∀ q : ℚ, |(nearest q : ℚ) - q| ≤ 1 / 2)
    (n : ℤ) (h0 : 0 ≤ n) (hmax : n ≤ hundredYearsUs) :
    ⌊rn ((n : ℚ) / 10 ^ 6)⌋ * 10 ^ 6
      + nearest (rn' ((rn ((n : ℚ) / 10 ^ 6) - ⌊rn ((n : ℚ) / 10 ^ 6)⌋) * 10 ^ 6)) = n := by
  set f : ℚ := rn ((n : ℚ) / 10 ^ 6) with hf
  set k : ℤ := ⌊f⌋ with hk
  set x : ℚ := (f - k) * 10 ^ 6 with hx
  have hnq : (0 : ℚ) ≤ (n : ℚ) := by exact_mod_cast h0
  have hnmax : (n : ℚ) ≤ 3155760000000000 := by
    have : (n : ℚ) ≤ ((hundredYearsUs : ℤ) : ℚ) := by exact_mod_cast hmax
    simpa [hundredYearsUs] using this
  -- error of the encoded float
  have he := hrn ((n : ℚ) / 10 ^ 6)
  have habs : |(n : ℚ) / 10 ^ 6| = (n : ℚ) / 10 ^ 6 := abs_of_nonneg (by positivity)
  rw [habs] at he
  have hpow : (2 : ℚ) ^ 53 = 9007199254740992 := by norm_num
  have he' : |f - (n : ℚ) / 10 ^ 6| ≤ 3155760000000000 / 10 ^ 6 / 9007199254740992 := by
    calc |f - (n : ℚ) / 10 ^ 6| ≤ (n : ℚ) / 10 ^ 6 / 2 ^ 53 := he
      _ ≤ 3155760000000000 / 10 ^ 6 / 9007199254740992 := by
        rw [hpow]; gcongr
  -- k ≤ f < k + 1
  have hk1 : (k : ℚ) ≤ f := Int.floor_le f
  have hk2 : f < k + 1 := Int.lt_floor_add_one f
  have hx0 : 0 ≤ x := by rw [hx]; nlinarith
  have hx1 : x ≤ 10 ^ 6 := by rw [hx]; nlinarith
  -- true remainder m' = n − k·10^6 (an integer) and its distance to x
  have hdist : |x - ((n : ℚ) - k * 10 ^ 6)| ≤ 3155760000000000 / 9007199254740992 := by
    have : x - ((n : ℚ) - k * 10 ^ 6) = (f - (n : ℚ) / 10 ^ 6) * 10 ^ 6 := by rw [hx]; ring
    rw [this, abs_mul]
    have h6 : |(10 : ℚ) ^ 6| = 10 ^ 6 := abs_of_pos (by positivity)
    rw [h6]
    calc |f - (n : ℚ) / 10 ^ 6| * 10 ^ 6
        ≤ (3155760000000000 / 10 ^ 6 / 9007199254740992) * 10 ^ 6 := by gcongr
      _ = 3155760000000000 / 9007199254740992 := by ring
  -- error of the product rounding
  have hp := hrn' x
  rw [abs_of_nonneg hx0, hpow] at hp
  have hp' : |rn' x - x| ≤ 10 ^ 6 / 9007199254740992 := by
    calc |rn' x - x| ≤ x / 9007199254740992 := hp
      _ ≤ 10 ^ 6 / 9007199254740992 := by gcongr
  have hn := hnear (rn' x)
  -- nearest (rn' x) is an integer within < 1 of the integer n − k·10^6
  have hlt : |((nearest (rn' x) : ℤ) : ℚ) - ((n - k * 10 ^ 6 : ℤ) : ℚ)| < 1 := by
    have e : ((n - k * 10 ^ 6 : ℤ) : ℚ) = (n : ℚ) - k * 10 ^ 6 := by push_cast; ring
    rw [e]
    have t : ((nearest (rn' x) : ℤ) : ℚ) - ((n : ℚ) - k * 10 ^ 6)
        = ((nearest (rn' x) : ℚ) - rn' x) + (rn' x - x) + (x - ((n : ℚ) - k * 10 ^ 6)) := by ring
    rw [t]
    calc |((nearest (rn' x) : ℚ) - rn' x) + (rn' x - x) + (x - ((n : ℚ) - k * 10 ^ 6))|
        ≤ |(nearest (rn' x) : ℚ) - rn' x| + |rn' x - x| + |x - ((n : ℚ) - k * 10 ^ 6)| := abs_add_three _ _ _
      _ ≤ 1 / 2 + 10 ^ 6 / 9007199254740992 + 3155760000000000 / 9007199254740992 := by
        gcongr
      _ < 1 := by norm_num
  have heq : nearest (rn' x) = n - k * 10 ^ 6 := by
    have : |(((nearest (rn' x)) - (n - k * 10 ^ 6) : ℤ) : ℚ)| < 1 := by push_cast at hlt ⊢; exact hlt
    have hz : |(nearest (rn' x)) - (n - k * 10 ^ 6)| < 1 := by exact_mod_cast this
    have := Int.abs_lt_one_iff.mp hz
    omega
  rw [heq]; ring

end Repid.TdFloat
