import RepidModel.Driver.State
import RepidModel.Broker.MemHistory
import RepidModel.Pred.C01
import RepidModel.Pred.Broker

namespace Repid.Driver
open Repid Sexp Wire Mem

def catOf : Sexp → Option Cat
  | .atom "NORMAL" => some .normal
  | .atom "DELAYED" => some .delayed
  | .atom "DEAD" => some .dead
  | _ => none

def catTo : Cat → Sexp
  | .normal => .atom "NORMAL" | .delayed => .atom "DELAYED" | .dead => .atom "DEAD"

/-- `(M id topic payload params)` -/
def msgOf : Sexp → Option Msg
  | .list [.atom "M", i, t, pl, p] => do
    pure { id := ← toStr? i, topic := ← toStr? t, payload := ← toStr? pl, params := ← paramsOf p }
  | _ => none

def msgTo (m : Msg) : Sexp := .list [.atom "M", .str m.id, .str m.topic, .str m.payload, paramsTo m.params]

def sortById (ms : List Msg) : List Msg := ms.mergeSort (fun a b => a.id ≤ b.id)

/-- canonical snapshot: `(Q (simple…) ((t m…)…) (dead…) (processing sorted by id…))` — ghosts erased -/
def qTo (q : Q) : Sexp :=
  .list [.atom "Q", ofList msgTo q.simple,
         ofList (fun e => .list (ofInt e.1 :: e.2.map msgTo)) q.delayed,
         ofList msgTo q.dead,
         ofList msgTo (sortById (heldMsgs q))]

def qOf : Sexp → Option Q
  | .list [.atom "Q", s, d, dd, p] => do
    let simple ← mapM? msgOf s
    let delayed ← mapM? (fun | .list (t :: ms) => do pure ((← toInt? t), (← ms.mapM msgOf)) | _ => none) d
    let dead ← mapM? msgOf dd
    let proc ← mapM? msgOf p
    pure { simple, delayed := delayed.map (fun e => (e.1, e.2.map fun m => { m with due := some e.1 })),
           dead, processing := proc.map (fun m => { msg := m, who := 0, frm := .normal }) }
  | _ => none

def getQ (st : DState) (name : String) : Option Q := (st.mem.find? (·.1 == name)).map (·.2)

def setQ (st : DState) (name : String) (q : Q) : DState :=
  if st.mem.any (·.1 == name) then
    { st with mem := st.mem.map fun e => if e.1 == name then (name, q) else e }
  else { st with mem := st.mem ++ [(name, q)] }

/-- reorder `held` so that the ids come out as in `order` (must be a permutation). -/
def permOf (held : List Held) (order : List String) : Option (List Held) :=
  if order.length != held.length then none else
  order.mapM fun i => held.find? (·.msg.id == i)

/-- prefix states of a call's atom list -/
def prefixRun (q : Q) (ops : List Op) : List Q :=
  (List.range (ops.length + 1)).map fun k => run cronStub q (ops.take k)

def callPrefixStates (q : Q) : Sexp → Option (List Q)
  | .list [.atom "enqueue", m, now] => do
    let m ← msgOf m; noCron m.params
    pure (prefixRun q (Call.enqueue m (← toInt? now)).atoms)
  | .list [.atom "requeue", m, now] => do
    let m ← msgOf m; noCron m.params
    pure (prefixRun q (Call.requeue m (← toInt? now)).atoms)
  | .list [.atom "ack", i] => do pure (prefixRun q (Call.ack (← toStr? i)).atoms)
  | .list [.atom "nack", i] => do pure (prefixRun q (Call.nack (← toStr? i)).atoms)
  | .list [.atom "reject", i] => do pure (prefixRun q (Call.reject (← toStr? i)).atoms)
  | .list [.atom "consume", c, cat, topics, now, polls] => do
    let polls ← toNat? polls
    if polls ≥ 1000 then none
    let c ← toNat? c; let cat ← catOf cat; let topics ← mapM? toStr? topics; let now ← toInt? now
    -- state after 0, 1, …, polls polls (a delivered message stays held)
    pure ((List.range (polls + 1)).map fun k => (consumeLoop c cat topics (fun _ => false) k 0 q now).2.1)
  | _ => none

def mem : Handler := fun st cmd args =>
  match cmd, args with
  | "mem.reset", [] => some ({ st with mem := [] }, .atom "ok")
  | "mem.declare", [n] => do
    let n ← toStr? n
    match getQ st n with
    | some _ => pure (st, .atom "ok")
    | none => pure (setQ st n {}, .atom "ok")
  | "mem.snapshot", [n] => do let q ← getQ st (← toStr? n); pure (st, qTo q)
  | "mem.enqueue", [n, m, now] => do
    let n ← toStr? n; let q ← getQ st n; let m ← msgOf m; noCron m.params
    let q' := put q m (← toInt? now) cronStub
    pure (setQ st n q', qTo q')
  | "mem.requeue", [n, m, now] => do
    let n ← toStr? n; let q ← getQ st n; let m ← msgOf m; noCron m.params
    let q' := reputA (unholdA q m.id) m (← toInt? now) cronStub
    pure (setQ st n q', qTo q')
  | "mem.ack", [n, i] => do
    let n ← toStr? n; let q ← getQ st n; let q' := ackA q (← toStr? i); pure (setQ st n q', qTo q')
  | "mem.nack", [n, i] => do
    let n ← toStr? n; let q ← getQ st n; let q' := nackA q (← toStr? i); pure (setQ st n q', qTo q')
  | "mem.reject", [n, i] => do
    let n ← toStr? n; let q ← getQ st n; let q' := rejectA q (← toStr? i); pure (setQ st n q', qTo q')
  | "mem.update", [n, now] => do
    let n ← toStr? n; let q ← getQ st n; let q' := updateDelayed q (← toInt? now); pure (setQ st n q', qTo q')
  | "mem.consume", [n, c, cat, topics, now, polls] => do
    -- polls < 1000: no periodic __update_delayed inside one call
    let n ← toStr? n; let q ← getQ st n
    let polls ← toNat? polls
    if polls ≥ 1000 then none
    let r := consumeLoop (← toNat? c) (← catOf cat) (← mapM? toStr? topics) (fun _ => false) polls 0 q (← toInt? now)
    pure (setQ st n r.2.1, .list [.atom "res", ofOpt msgTo r.1, ofNat r.2.2, qTo r.2.1])
  | "mem.finish", [n, c, order] => do
    let n ← toStr? n; let q ← getQ st n
    let perm ← permOf q.processing (← mapM? toStr? order)
    let q' := finishA q (← toNat? c) perm
    pure (setQ st n q', qTo q')
  | "mem.set", [n, qs] => do
    let n ← toStr? n; let q ← qOf qs; pure (setQ st n q, .atom "ok")
  -- states reachable by cancelling a call after k = 0, 1, … of its atoms (state is not changed)
  | "mem.prefixStates", [n, call] => do
    let n ← toStr? n; let q ← getQ st n
    let states ← callPrefixStates q call
    pure (st, ofList qTo states)
  -- C01 predicates on (implementation) snapshots
  | "c01.onePlace", [qs, enq, acked] => do
    pure (st, ofBool (Pred.C01.onePlace (← qOf qs) (← mapM? toStr? enq) (← mapM? toStr? acked)))
  | "c01.ackOk", [qs, i] => do pure (st, ofBool (Pred.C01.ackOk (← qOf qs) (← toStr? i)))
  | "c01.nackOk", [qs, i] => do pure (st, ofBool (Pred.C01.nackOk (← qOf qs) (← toStr? i)))
  | "c01.rejectOk", [qs, i, c] => do
    pure (st, ofBool (Pred.C01.rejectOk (← qOf qs) (← toStr? i) (← catOf c)))
  | "c01.requeueOk", [qs, m] => do
    let m ← msgOf m
    pure (st, ofBool (Pred.C01.requeueOk (← qOf qs) m))
  | "c05.notEarlyMs", [due, at_] => do
    pure (st, ofBool (Pred.C05.notEarlyMs (← toOpt? toInt? due) (← toInt? at_)))
  | "c05.latencyOk", [due, lf, at_, b] => do
    pure (st, ofBool (Pred.C05.latencyOk (← toInt? due) (← toInt? lf) (← toInt? at_) (← toInt? b)))
  | "c12.notExpiredAt", [at_, ts, ttl] => do
    pure (st, ofBool (Pred.C12.notExpiredAt (← toInt? at_) (← toInt? ts) (← toOpt? toInt? ttl)))
  | "c14.singleHolder", [bs] => do
    let bs ← mapM? (fun | .list [c, i] => do pure ((← toNat? c), (← toStr? i)) | _ => none) bs
    pure (st, ofBool (Pred.C14.singleHolder bs))
  | "c15.inOrder", [e, d] => do
    pure (st, ofBool (Pred.C15.inOrder (← mapM? toStr? e) (← mapM? toStr? d)))
  | _, _ => none

end Repid.Driver
