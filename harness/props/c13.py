"""C13 — the stored result is the outcome of the latest execution.

Tie: real Worker + in-memory result bucket broker under virtual time.  Jobs with generated return
values / exceptions, retry chains (each attempt overwrites), eager responses with set_result /
set_exception, result storing on/off, result ids reused across jobs, and every `store_bucket` call
made to raise in turn (fault enumeration).  After EVERY execution (not only at the end) the bucket
read back through `Job.result` — on a fresh Job object and on a long-lived one — is compared with
that execution's outcome; per delivery the stores are compared with the Lean model (`process.stores`);
with results disabled no store call may happen; a failing store must not change the disposition."""
from __future__ import annotations

import implenv  # noqa: F401

import asyncio
import os
import json

import vtime
import workrun
from common import A, Model, Result, Rng, sx
from props import c02
from workrun import S, WorkerRun, deliveries

from repid import Job

RULE = ("jobs = value kind (int, str, nested JSON, None) | exception kind × retry chain pattern × eager variants × result on/off "
        "× result ttl; fault enumeration over the index of the failing store_bucket call; a case = one execution whose bucket "
        "is read back, distinct by (outcome kind, attempt index, store faulty?, result enabled?)")
ASSUMPTIONS = ["time_ns is monotone (virtual clock)", "in-memory result bucket broker"]

VALUES = [0, 1.5, "text", "", [1, 2, {"a": None}], {"k": [True, False]}, None]


def make_jobs(rng: Rng, n: int) -> list[dict]:
    jobs = []
    for i in range(n):
        kind = rng.choice(["ret", "chain", "chain-ok", "eager", "disabled", "exc", "recurring", "badret"])
        j = {"id": f"r{i}", "retries": 0, "store_result": kind != "disabled", "timeout": 2 * S,
             "result_ttl": rng.choice([S, 60 * S, 86400 * S])}
        v = rng.choice(VALUES)
        if kind in ("ret", "disabled"):
            j["plan"] = [{"k": "ret", "value": v}]
        elif kind == "exc":
            j["plan"] = [{"k": "raise", "msg": f"bad {i}"}]
        elif kind == "badret":
            j["plan"] = [{"k": "badret"}]            # the actor returns something the converter cannot encode
        elif kind == "recurring":
            # a recurring job: every iteration is an execution of its own and overwrites the bucket of the one before
            j["defer_by"] = rng.choice([1 * S, 2 * S])
            j["plan"] = [({"k": "ret", "value": f"it{k}-{i}"} if rng.random() < 0.7 else {"k": "raise", "msg": f"it{k}-{i} failed"})
                         for k in range(12)]
        elif kind == "chain":
            j["retries"] = rng.choice([1, 2, 3])
            j["plan"] = [{"k": "raise", "msg": f"e{k}"} for k in range(j["retries"] + 1)]
        elif kind == "chain-ok":
            j["retries"] = rng.choice([1, 2, 3])
            nf = rng.randrange(1, j["retries"] + 1)
            j["plan"] = [{"k": "raise", "msg": f"e{k}"} for k in range(nf)] + [{"k": "ret", "value": v}]
        else:
            j["retries"] = 2
            pre1 = rng.choice([["setResult"], ["setException"], ["setResult", "setException"], ["setException", ["cb", 1, False], "setResult"]])
            pre2 = rng.choice([["setResult"], ["setException", "setResult"], ["setResult", "setException"]])
            j["plan"] = [{"k": "eager", "pre": pre1, "api": rng.choice([["retry", None], ["forceRetry", None]]), "value": f"first{i}", "msg": f"firstexc{i}"},
                         {"k": "eager", "pre": pre2, "api": rng.choice(["ack", "nack", "reject"]), "value": f"second{i}", "msg": f"secondexc{i}"},
                         {"k": "ret", "value": "third"}]
        jobs.append(j)
    # a result id used by two jobs (the second execution overwrites the first one's bucket)
    jobs.append({"id": "shared1", "result_id": "res-shared", "retries": 0, "store_result": True, "timeout": 2 * S, "plan": [{"k": "ret", "value": "one"}]})
    jobs.append({"id": "shared2", "result_id": "res-shared", "retries": 0, "store_result": True, "timeout": 2 * S, "at": 2 * S,
                 "plan": [{"k": "raise", "msg": "two"}]})
    return jobs


def expected_bucket(st: dict, k: int) -> dict | None:
    """What the statement says the bucket holds after an execution with planned behaviour `st`."""
    kind = st["k"]
    if kind == "ret":
        return {"success": True, "data": json.dumps(st.get("value", k), separators=(",", ":")), "exception": None}
    if kind == "raise":
        return {"success": False, "data": st.get("msg", f"boom{k}"), "exception": "PlannedError"}
    if kind == "badret":
        return {"success": False, "data": None, "exception": "TypeError"}      # (text of the encoder's error: not compared)
    if kind == "eager":
        last = [p for p in st.get("pre", []) if isinstance(p, str)]
        if not last:
            return None
        if last[-1] == "setResult":
            return {"success": True, "data": json.dumps(st.get("value", f"r{k}"), separators=(",", ":")), "exception": None}
        return {"success": False, "data": st.get("msg", f"exc{k}"), "exception": "PlannedError"}
    return None


async def scenario(sc: dict) -> dict:
    run = WorkerRun(sc)
    reads: list[dict] = []
    long_lived: dict[str, Job] = {}

    async def reader():
        """After every execution: read the bucket back through Job.result."""
        seen = 0
        while True:
            await asyncio.sleep(0.05)
            ends = [e for e in run.events if e["kind"] in ("bret",) and e["op"] in ("ack", "nack", "reject", "requeue")]
            if len(ends) == seen:
                continue
            await asyncio.sleep(0.01)     # let the store that follows the report finish
            for e in ends[seen:]:
                j = next(x for x in sc["jobs"] if x["id"] == e["id"])
                rid = j.get("result_id", "res-" + j["id"])
                fresh = Job("act", result_id=rid, _connection=run.conn)
                ll = long_lived.setdefault(rid, Job("act", result_id=rid, _connection=run.conn))
                b1, b2 = await fresh.result, await ll.result
                def dump(b):
                    return None if b is None else {"success": b.success, "data": b.data, "exception": b.exception,
                                                   "started": b.started_when, "finished": b.finished_when,
                                                   "ttl": vtime.td_us(b.ttl)}
                reads.append({"id": e["id"], "t": vtime.CLOCK.us, "answered_at": e["t"], "fresh": dump(b1), "long_lived": dump(b2),
                              "stores_so_far": sum(1 for x in run.events if x["kind"] == "store" and x["t"] <= e["t"] + 10_000)})
            seen = len(ends)

    await run.enqueue_all()
    rt = asyncio.ensure_future(reader())

    async def late():
        for j in sc["jobs"]:
            if j.get("at"):
                await asyncio.sleep(j["at"] / 1e6)
                await run.enqueue_job(j)
    lt = asyncio.ensure_future(late())
    await run.run_worker(horizon_s=sc.get("horizon_s", 9.0), signals=False, tasks_limit=sc.get("tasks_limit", 1000))
    await asyncio.sleep(0.2)
    rt.cancel()
    lt.cancel()
    await asyncio.gather(rt, lt, return_exceptions=True)
    return {"run": run, "reads": reads}


def check(o: dict, model: Model, res: Result, label: str) -> None:
    run: WorkerRun = o["run"]
    sc = run.sc
    c02.check_run(run, model, res, label)        # per-delivery correspondence incl. stores, and disposition under store faults
    jobs = {j["id"]: j for j in sc["jobs"]}
    ds = deliveries(run)
    by_id: dict[str, list] = {}
    for d in ds:
        by_id.setdefault(d["id"], []).append(d)
    fail_at = set(sc.get("store_fail_calls", []))
    for r in o["reads"]:
        j = jobs[r["id"]]
        # the execution this read follows = the latest delivery of that id answered before the read
        done = [d for d in by_id.get(r["id"], []) if d["call_t"] is not None and d["call_t"] <= r["t"]]
        if not done:
            continue
        d = done[-1]
        rid = j.get("result_id", "res-" + j["id"])
        sharers = [x for x in sc["jobs"] if x.get("result_id", "res-" + x["id"]) == rid and x["id"] != j["id"]]
        if sharers:
            # several jobs write the same result id: "the latest execution" is the one whose store came last before the read
            cands = [dd for x in [j] + sharers for dd in by_id.get(x["id"], []) if dd["call_t"] is not None and dd["call_t"] <= r["t"]
                     and dd.get("store_events")]
            if cands:
                pos = {id(e): i for i, e in enumerate(run.events)}
                d = max(cands, key=lambda dd: max(pos.get(id(e), -1) for e in dd["store_events"]))
                j = jobs[d["id"]]
        st = j["plan"][min(d["n"], len(j["plan"]) - 1)]
        faulty = any(e.get("fails") for e in d.get("store_events", []))
        cls = (st["k"], min(d["n"], 3), faulty, j["store_result"])
        res.dist["read:%s%s" % (st["k"], ":faulty-store" if faulty else "")] += 1
        res.note(cls, sample={"job": j, "read": r} if len(res.samples) < 4 else None)
        case = {"label": label, "job": j, "execution": d["n"], "read": r, "store_fail_calls": sorted(fail_at)}
        if not j["store_result"]:
            if r["fresh"] is not None or any(True for e in run.events if e["kind"] == "store" and e["id"] == j.get("result_id", "res-" + j["id"])):
                res.bad("impl", "results disabled but something was written", case=case, observed=r["fresh"], expected=None)
            continue
        if faulty or j.get("result_id") == "res-shared" and False:
            continue       # the store for this execution was made to fail: the bucket keeps whatever it had
        exp = expected_bucket(st, d["n"])
        if exp is None:
            continue
        for who in ("fresh", "long_lived"):
            b = r[who]
            ok = b is not None and b["success"] == exp["success"] and (exp["data"] is None or b["data"] == exp["data"]) \
                and b["exception"] == exp["exception"] \
                and b["started"] <= b["finished"] and b["ttl"] == j.get("result_ttl", 86400 * S)
            if not ok:
                res.bad("impl", f"Job.result ({who} Job object) does not hold the outcome of the latest execution", case=case,
                        observed=b, expected=dict(exp, ttl=j.get("result_ttl", 86400 * S)))
                break


def run(ctx) -> Result:
    tier, seed = ctx["tier"], ctx["seed"]
    res = Result("C13")
    model = Model()
    deep = tier == "thorough" or ctx.get("search")
    for conv in ("basic", "pydantic"):
        rng = Rng(seed, f"c13/{conv}")
        jobs = make_jobs(rng, 80 if deep else 30)
        sc = {"jobs": jobs, "converter": conv, "policy": {"kind": "const", "us": 200_000}, "horizon_s": 9.0}
        o = vtime.run(lambda loop, s=sc: scenario(s), budget=40_000_000)
        check(o, model, res, f"results-{conv}")
    # the same with the Redis message broker and the Redis bucket broker (in-process fake server), and on RabbitMQ
    for kind, rk in (("redis", "redis"), ("rabbit", None)):
        rng = Rng(seed, f"c13/{kind}")
        jobs = make_jobs(rng, 40 if deep else 20)
        sc = {"jobs": jobs, "converter": "basic", "policy": {"kind": "const", "us": 200_000}, "horizon_s": 12.0, "broker": kind,
              "results_kind": rk}
        # the Redis run in a process whose local time zone is five hours west of UTC (the bucket's expiry is an absolute
        # instant computed from local wall-clock values)
        if kind == "redis":
            vtime.set_tz("XXX+5")
        try:
            o = vtime.run(lambda loop, s=sc: scenario(s), budget=80_000_000)
        finally:
            vtime.set_tz(os.environ.get("VERIF_TZ", "UTC"))
        check(o, model, res, f"results-{kind}")
        res.dist[f"broker:{kind}"] += len(jobs)
    # fault enumeration: the k-th store_bucket call raises
    rng = Rng(seed, "c13/faults")
    jobs = make_jobs(rng, 6)
    nstores = 0
    for k in range(0, 40 if deep else 12):
        sc = {"jobs": jobs, "converter": "basic", "policy": {"kind": "const", "us": 200_000}, "horizon_s": 7.0,
              "store_fail_calls": [k]}
        o = vtime.run(lambda loop, s=sc: scenario(s), budget=40_000_000)
        check(o, model, res, f"store-fault-{k}")
        res.extra["crash_points_enumerated"] = res.extra.get("crash_points_enumerated", 0) + 1
        nstores = o["run"].store_calls
        if k >= nstores:
            break
    # "never stops the worker": every store fails while the worker has only one or two slots — every job is executed all the same
    for tl in (1, 2):
        jobs = [{"id": f"w{i}", "retries": 0, "store_result": True, "timeout": 2 * S, "result_ttl": 60 * S,
                 "plan": [{"k": "ret", "value": i} if i % 3 else {"k": "raise", "msg": f"w{i}"}]} for i in range(7)]
        sc = {"jobs": jobs, "converter": "basic", "policy": {"kind": "const", "us": 200_000}, "horizon_s": 7.0, "store_fail_all": True,
              "tasks_limit": tl}
        o = vtime.run(lambda loop, s=sc: scenario(s), budget=40_000_000)
        check(o, model, res, f"store-fails-always-limit{tl}")
        executed = {e["id"] for e in o["run"].events if e["kind"] == "actor_start"}
        res.dist[f"store-fails-always:limit{tl}"] += len(jobs)
        missing = [j["id"] for j in jobs if j["id"] not in executed]
        if missing:
            res.bad("impl", "a failure to store a result stopped the worker: jobs waiting behind it were never executed",
                    case={"label": f"store-fails-always-limit{tl}", "tasks_limit": tl, "jobs": len(jobs)},
                    observed={"never_executed": missing}, expected="all executed")
    return res


def search(ctx) -> Result:
    return run(dict(ctx, tier="thorough"))
