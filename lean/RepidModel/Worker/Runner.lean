/-
The runner's slot bookkeeping (code-model).  Anchors:
  repid/_runner.py:44-51    max_tasks_hit = max_tasks − _tasks_processed − (limit − _limiter._value) ≤ 0
  repid/_runner.py:65-70    _task_callback: discard task, release slot, processed += 1, maybe set stop
  repid/_runner.py:90-105   _run_consumer: per delivered message acquire a slot (pause/unpause around a
                            blocked acquire), create the processing task
  asyncio.Semaphore (3.12)  release() with a waiter hands the slot over directly (_value stays 0)

One `R` is the state of one `_Runner`; all queues of a worker share it.
-/
namespace Repid.Runner

structure R where
  limit : Nat                 -- tasks_concurrency_limit
  maxTasks : Option Nat       -- messages_limit (none = unbounded)
  free : Nat                  -- _limiter._value
  tasks : Nat := 0            -- len(_tasks): processing tasks created and not yet called back
  pausing : Nat := 0          -- consumer loops inside `await consumer.pause()` (found the limiter locked), each holding a fetched message
  waiting : Nat := 0          -- consumer loops blocked in acquire() (in the semaphore's waiter list), each holding a fetched message
  handed : Nat := 0           -- waiters that were handed a slot by release() and have not resumed yet (still in the waiter list)
  holding : Nat := 0          -- loops that own a slot and are inside `await consumer.unpause()`, about to create their task
  leaked : Nat := 0           -- slots owned by loops cancelled inside unpause() (only at shutdown)
  processed : Nat := 0        -- _tasks_processed
  stop : Bool := false        -- stop_consume_event
  started : Nat := 0          -- ghost: processing tasks ever created
  deriving Repr, DecidableEq, Inhabited

def init (limit : Nat) (maxTasks : Option Nat) : R := { limit, maxTasks, free := limit }

/-- `limit − _limiter._value`: slots in use (running tasks + slots already handed to waiters) -/
def busy (r : R) : Nat := r.limit - r.free

/-- `max_tasks_hit` -/
def maxTasksHit (r : R) : Bool :=
  match r.maxTasks with
  | none => false
  | some m => decide (m ≤ r.processed + busy r)

/-- second half of the done-callback: `_tasks_processed += 1; if self.max_tasks_hit: stop.set()` -/
def afterDone (r1 : R) : R :=
  if maxTasksHit { r1 with processed := r1.processed + 1 } then
    { r1 with processed := r1.processed + 1, stop := true }
  else { r1 with processed := r1.processed + 1 }

inductive Ev where
  | deliver      -- a consumer loop received a message from consume()
  | enterAcquire -- a loop that found the limiter locked returns from pause() and calls acquire()
  | wake         -- a waiter that was handed a slot resumes (leaves the waiter list, passes a free slot on)
  | spawn        -- a loop that owns a slot returns from unpause() and creates its task
  | cancelHeld   -- a loop that owns a slot is cancelled inside unpause() (shutdown): the slot is not given back
  | done         -- a processing task finished: its done-callback runs
  | cancelWaiter -- a consumer loop blocked in acquire() is cancelled (stop): a handed slot is given back
  deriving Repr, DecidableEq, Inhabited

/-- enabledness (what the code can do in this state) -/
def enabled (r : R) : Ev → Bool
  | .deliver => true
  | .enterAcquire => decide (0 < r.pausing)
  | .wake => decide (0 < r.handed)
  | .spawn => decide (0 < r.holding)
  | .cancelHeld => decide (0 < r.holding)
  | .done => decide (0 < r.tasks)
  | .cancelWaiter => decide (0 < r.waiting + r.handed + r.pausing)

def step (r : R) : Ev → R
  | .deliver =>
    -- `if self._limiter.locked(): pause; acquire; unpause  else: acquire` then create_task
    if r.free > 0 ∧ r.waiting = 0 ∧ r.handed = 0 then
      { r with free := r.free - 1, tasks := r.tasks + 1, started := r.started + 1 }
    else { r with pausing := r.pausing + 1 }
  | .enterAcquire =>
    if r.pausing = 0 then r
    else if r.free > 0 ∧ r.waiting = 0 ∧ r.handed = 0 then
      -- not locked any more: the slot is taken at once; unpause() and create_task follow (`spawn`)
      { r with pausing := r.pausing - 1, free := r.free - 1, holding := r.holding + 1 }
    else { r with pausing := r.pausing - 1, waiting := r.waiting + 1 }
  | .wake =>
    if r.handed > 0 then
      -- the resumed waiter leaves the waiter list; `if self._value > 0: self._wake_up_next()`
      -- passes a free slot on to the next waiter; unpause() and create_task follow (`spawn`)
      if r.free > 0 ∧ r.waiting > 0 then
        { r with free := r.free - 1, waiting := r.waiting - 1, holding := r.holding + 1 }
      else
        { r with handed := r.handed - 1, holding := r.holding + 1 }
    else r
  | .spawn =>
    if r.holding > 0 then { r with holding := r.holding - 1, tasks := r.tasks + 1, started := r.started + 1 }
    else r
  | .cancelHeld =>
    if r.holding > 0 then { r with holding := r.holding - 1, leaked := r.leaked + 1 } else r
  | .done =>
    if r.tasks = 0 then r else
    -- release(): with a waiter the slot is handed over (value stays as it is), else value += 1
    if r.waiting > 0 then
      afterDone { r with tasks := r.tasks - 1, waiting := r.waiting - 1, handed := r.handed + 1 }
    else afterDone { r with tasks := r.tasks - 1, free := r.free + 1 }
  | .cancelWaiter =>
    if r.handed > 0 then
      -- acquire(): `except CancelledError: if not fut.cancelled(): self._value += 1; wake next`
      if r.waiting > 0 then { r with waiting := r.waiting - 1 }      -- slot goes to the next waiter
      else { r with handed := r.handed - 1, free := r.free + 1 }
    else if r.waiting > 0 then { r with waiting := r.waiting - 1 }
    else if r.pausing > 0 then { r with pausing := r.pausing - 1 }
    else r

def run (r : R) (evs : List Ev) : R := evs.foldl step r

/-- observable counters of the implementation after an event-loop callback -/
structure Snap where
  free : Nat        -- _limiter._value
  tasks : Nat       -- len(_tasks)
  processed : Nat   -- _tasks_processed
  stop : Bool       -- stop_consume_event.is_set()
  deriving Repr, DecidableEq, Inhabited

def snap (r : R) : Snap := { free := r.free, tasks := r.tasks, processed := r.processed, stop := r.stop }

/-- all model states reachable from `r` by a short burst of events (≤ 3) whose observable part is
    the snapshot `s`; the stop flag may additionally be raised from outside (signal) -/
def explain (r : R) (s : Snap) : List R :=
  let alph : List Ev := [.deliver, .enterAcquire, .done, .wake, .spawn, .cancelWaiter, .cancelHeld]
  let seq1 := alph.map fun a => [a]
  let seq2 := alph.flatMap fun a => alph.map fun b => [a, b]
  let seq3 := alph.flatMap fun a => alph.flatMap fun b => alph.map fun c => [a, b, c]
  let cands : List (List Ev) := [[]] ++ seq1 ++ seq2 ++ seq3
  ((cands.map (run r)).filterMap fun r' =>
    if snap r' = s then some r'
    else if s.stop ∧ snap { r' with stop := true } = s then some { r' with stop := true }
    else none).eraseDups

/-- acceptor (subset construction over the hidden components `pausing`/`waiting`/`handed`): the set
    of model states compatible with the snapshots seen so far must never become empty; returns the
    index of the first snapshot that no model behaviour explains -/
def accept (states : List R) : List Snap → Nat → Option Nat
  | [], _ => none
  | s :: rest, i =>
    let next := (states.flatMap fun r => explain r s).eraseDups
    if next.isEmpty then some i else accept (next.take 64) rest (i + 1)

end Repid.Runner
