/-
C06 — Recurring jobs: exactly one successor per run, on a steady cadence.
-/
import RepidModel.Worker.Chain
import RepidProofs.Props.C19
import RepidModel.Pred.Worker

namespace Repid.C06
open Repid Worker Sched

/-- `one_successor`: after a COMPLETED iteration of a recurring job — success, or failure with the
    retries exhausted — the ladder answers with exactly one requeue carrying the rescheduled
    parameters (never an ack/nack, never two calls: C02.exactly_one_terminal). -/
theorem one_successor (p : Params) (success : Bool) (now : Int) (cron : String → Int → Int) (pn : Int)
    (hrec : isRecurring p = true)
    (hdone : success = true ∨ ¬ p.retries.alreadyTried < p.retries.maxAmount) :
    report p success now cron pn = .requeue (p.prepareReschedule now cron) := by
  unfold report
  rcases hdone with h | h
  · simp [h, hrec]
  · cases success <;> simp [h, hrec]

/-- `reset`: the successor has its retry counter reset to zero and its time-to-live clock restarted -/
theorem reset (p : Params) (now : Int) (cron : String → Int → Int) :
    (p.prepareReschedule now cron).retries.alreadyTried = 0 ∧
    (p.prepareReschedule now cron).timestamp = now ∧
    (p.prepareReschedule now cron).retries.maxAmount = p.retries.maxAmount ∧
    (p.prepareReschedule now cron).ttl = p.ttl := by
  simp [Params.prepareReschedule]

/-- `window`: the successor's scheduled time lies strictly in the future and at most one period
    ahead (or equals `deferred_until` while that is still ahead). -/
theorem window (p : Params) (now per : Int) (cron : String → Int → Int)
    (hper : usPerSec ≤ per) (hp : p.delay.deferBy = some per) :
    ∃ t, (p.prepareReschedule now cron).delay.nextExecutionTime = some t ∧ now < t ∧
      (t ≤ now + per ∨ p.delay.delayUntil = some t) := by
  have := C19.periodic_next_window p now per cron hper hp
  simpa [Params.prepareReschedule] using this

/-- the three clauses above through the predicate evaluated on the implementation's requeue calls -/
theorem successorOk_model (p : Params) (now per : Int) (cron : String → Int → Int)
    (hper : usPerSec ≤ per) (hp : p.delay.deferBy = some per) :
    Pred.C06.successorOk now per p.timestamp p.delay.delayUntil (p.prepareReschedule now cron) = true := by
  have := C19.nextOk_model p now per cron hper hp
  simp [Pred.C06.successorOk, Params.prepareReschedule, this]

/-- `first_run_honours_deferred_until`: the first enqueue of a job deferred until `d` (still ahead)
    is filed under `d`. -/
theorem first_run_honours_deferred_until (p : Params) (now d : Int) (cron : String → Int → Int)
    (hn : p.delay.nextExecutionTime = none) (hd : p.delay.delayUntil = some d) (h : d > now) :
    p.waitUntil now cron = some d := by
  simp [Params.waitUntil, hn, C19.deferred_until_first p now d cron hd h]

/-- `spacing_partial`: the next scheduled time is at least one full period after the scheduled time
    `T` of the iteration that just ran — PARTIAL: proved when that iteration completed at least one
    period after the previous completion (`ts + per ≤ now`; `ts` = time base carried by the message,
    `ts < T ≤ ts + per` by `window`). -/
theorem spacing_partial (ts T now per : Int) (hper : 0 < per) (hT : T ≤ ts + per) (hnow : ts + per ≤ now) :
    T + per ≤ nextDefer ts now per := by
  unfold nextDefer
  have h1 := Int.emod_add_mul_ediv (now - ts) per
  have h2 := Int.emod_nonneg (now - ts) (Int.ne_of_gt hper)
  have h3 := Int.emod_lt_of_pos (now - ts) hper
  have hq : 1 ≤ (now - ts) / per := by
    have : per ≤ now - ts := by omega
    exact Int.le_ediv_of_mul_le hper (by omega)
  have : per * 1 ≤ per * ((now - ts) / per) := Int.mul_le_mul_of_nonneg_left hq (Int.le_of_lt hper)
  simp only [Int.mul_add, Int.mul_one] at *
  omega

/-- Refutation of the full clause on the current code: period 10 s; an iteration scheduled for
    T = 20.0 s (time base 10.5 s) that completes at 20.1 s gets its successor scheduled for 20.5 s —
    half a second after the slot that just ran instead of a full period. -/
theorem spacing_witness :
    let per := 10000000
    let ts := 10500000         -- previous completion (time base of the message)
    let T := nextDefer 0 ts per              -- = 20.0 s: scheduled time of the iteration that runs now
    let now := T + 100000                    -- it completes at 20.1 s
    T = 20000000 ∧ nextDefer ts now per = 20500000 ∧ ¬ (T + per ≤ nextDefer ts now per) := by
  decide

end Repid.C06
