"""Sessions on the real RedisMessageBroker / _RedisConsumer against the in-process fake server, compared call by
call with the Lean model `Redis.R` (driver commands `redis.*`), plus the property predicates of C01, C03, C05, C12,
C14 and C15 evaluated on what the implementation did (impl-only, straight from the statements).

Used by props/c01.py, c03.py, c05.py, c12.py, c14.py, c15.py: `part(ctx, "C15")` returns a Result whose problems
belong to that property only (the correspondence problems are reported by every property that calls it)."""
import implenv  # noqa: F401

import asyncio
import os

import fake_redis
import vtime
from common import NONE, A, Model, Result, Rng, parse_sx, pmap, sx
from memrun import S, mk_params, params_sx
from vtime import CLOCK, to_us

fake_redis.install()

import repid.connections.redis.consumer as rcons  # noqa: E402
from repid import MessageCategory  # noqa: E402
from repid.connections.redis.consumer import _RedisConsumer  # noqa: E402
from repid.connections.redis.message_broker import RedisMessageBroker  # noqa: E402
from repid.data import PrioritiesT  # noqa: E402
from repid.data._key import RoutingKey  # noqa: E402
from repid.data._parameters import Parameters  # noqa: E402

BASE_S = vtime.BASE_UNIX_US // 1_000_000
CATS = {"NORMAL": MessageCategory.NORMAL, "DELAYED": MessageCategory.DELAYED, "DEAD": MessageCategory.DEAD}
PRIOS = [9, 5, 0]
ORDERS = [[9, 5, 0], [5, 9, 0], [0, 9, 5]]
QUEUE = "rq"
F12 = "F12-redis-take-race"

ASSUMPTIONS = ["Redis server = in-process fake implementing the documented command semantics (assumption set R)",
               "_RedisConsumer.POLLING_WAIT set to 0 (the pause between priorities is not modelled); priority order drawn by the harness",
               "one queue name; priorities HIGH/MEDIUM/LOW"]


def key_sx(k) -> list:
    return [A("K"), k.priority, k.topic, k.id_]


def snapshot(srv) -> list:
    """the fake server's keyspace in the shape of the model's `rTo`"""
    snap = srv.snapshot()
    normal, dead, delayed, hashes = {}, {}, [], []
    for name, vals in snap["lists"].items():
        _, q, prio, kind = name.split(":")
        (normal if kind == "n" else dead)[int(prio)] = vals
    for name, items in snap["zsets"].items():
        if name == "processing":
            continue
        _, q, prio, kind = name.split(":")
        for m, s in items:
            delayed.append([int(prio), m, int(s) - BASE_S])
    proc = sorted([[m, int(s) - BASE_S] for m, s in snap["zsets"].get("processing", [])])
    for name, h in snap["hashes"].items():
        _, q, prio, short = name.split(":", 3)
        p = h.get("parameters")
        hashes.append([int(prio), short, h["payload"] if "payload" in h else NONE,
                       NONE if p is None else params_sx(Parameters.decode(p)),
                       NONE if "_reject_to" not in h else A(h["_reject_to"])])
    return [A("R"), [[p, v] for p, v in sorted(normal.items())], sorted(delayed, key=lambda e: (e[0], e[1])),
            [[p, v] for p, v in sorted(dead.items())], proc, sorted(hashes, key=lambda e: (e[0], e[1]))]


class Session:
    def __init__(self, dsn: str) -> None:
        fake_redis.reset_servers()
        _RedisConsumer.POLLING_WAIT = 0
        self.broker = RedisMessageBroker(dsn)
        self.srv = fake_redis.server_for(dsn)
        self.consumers: dict = {}
        self.reqs: list = [sx([A("redis.reset")])]
        self.obs: list = ["ok"]
        self.ops: list = [{"op": "reset"}]
        # bookkeeping for the predicates
        self.msgs: dict = {}          # id -> {"key", "prio", "topic", "due", "enq_seq", "params", "payload"}
        self.held: dict = {}          # id -> consumer
        self.acked: set = set()
        self.deliveries: list = []
        self.returned: set = set()
        self.seq = 0

    def rec(self, op: dict, req: list, obs) -> None:
        self.ops.append(op)
        self.reqs.append(sx(req))
        self.obs.append(sx(obs))

    def places(self, mid: str) -> list:
        m = self.msgs[mid]
        short = f"{m['topic']}:{mid}"
        out = []
        snap = self.srv.snapshot()
        for name, vals in snap["lists"].items():
            for v in vals:
                if v == short:
                    out.append(name)
        for name, items in snap["zsets"].items():
            for mm, _ in items:
                if mm == short:
                    out.append(name)
        return out

    def consumer(self, c: int, cat: str, topics):
        if c not in self.consumers:
            self.consumers[c] = (_RedisConsumer(self.broker, QUEUE, topics, category=CATS[cat]), cat, topics)
        return self.consumers[c][0]

    async def enqueue(self, mid: str, topic: str, prio: int, payload: str, pd: dict) -> None:
        key = RoutingKey(id_=mid, topic=topic, queue=QUEUE, priority=prio)
        params = mk_params(pd)
        now = CLOCK.us
        await self.broker.enqueue(key, payload, params)
        from repid.connections.in_memory.utils import wait_until
        due = wait_until(params)
        self.seq += 1
        self.msgs[mid] = {"key": key, "prio": prio, "topic": topic, "due": to_us(due) if due is not None else None, "enq_seq": self.seq,
                          "params": params, "payload": payload, "enq_at": now}
        self.rec({"op": "enqueue", "id": mid, "topic": topic, "prio": prio, "payload": payload, "params": pd, "now": now},
                 [A("redis.enqueue"), key_sx(key), payload, params_sx(params), now], snapshot(self.srv))

    async def consume(self, c: int, order: list) -> dict | None:
        cons, cat, topics = self.consumers[c]
        rcons.get_priorities_order = lambda _ch, order=order: [PrioritiesT(p) for p in order]
        now = CLOCK.us
        before_dead = {mid: [p for p in self.places(mid) if p.endswith(":dead")] for mid in self.msgs}
        got = await cons.consume_or_none()
        d = None
        if got is not None:
            key, payload, params = got
            d = {"id": key.id_, "c": c, "cat": cat, "at": now, "prio": key.priority, "payload": payload,
                 "overdue": bool(params.is_overdue), "seq": len(self.ops), "held_by_other": self.held.get(key.id_),
                 "params": params_sx(params)}
            self.deliveries.append(d)
            self.held[key.id_] = c
        after_dead = {mid: [p for p in self.places(mid) if p.endswith(":dead")] for mid in self.msgs}
        newly_dead = [mid for mid in self.msgs if after_dead[mid] and not before_dead[mid]]
        obs = [A("res"), NONE if got is None else [A("D"), got[0].priority, f"{got[0].topic}:{got[0].id_}", got[1], params_sx(got[2])],
               snapshot(self.srv)]
        self.rec({"op": "consume", "c": c, "cat": cat, "topics": topics, "order": order, "now": now, "got": d and d["id"],
                  "newly_dead": newly_dead},
                 [A("redis.consume"), A(cat), list(topics or []), now, order], obs)
        return d

    async def terminal(self, kind: str, mid: str, pd: dict | None = None, payload: str = "") -> None:
        m = self.msgs[mid]
        now = CLOCK.us
        fn = getattr(self.broker, kind)
        if kind == "requeue":
            params = mk_params(pd)
            await fn(m["key"], payload, params)
            from repid.connections.in_memory.utils import wait_until
            due = wait_until(params)
            self.seq += 1
            m.update(due=to_us(due) if due is not None else None, params=params, payload=payload, enq_seq=self.seq, enq_at=now)
            req = [A("redis.requeue"), key_sx(m["key"]), payload, params_sx(params), now]
        else:
            await fn(m["key"])
            req = [A("redis." + kind), key_sx(m["key"])] + ([now] if kind == "reject" else [])
        holder = self.held.pop(mid, None)
        if kind == "ack":
            self.acked.add(mid)
        if kind == "reject":
            self.returned.add(mid)
        self.rec({"op": kind, "id": mid, "now": now, "params": pd, "payload": payload, "holder": holder}, req, snapshot(self.srv))

    async def advance(self, us: int) -> None:
        await asyncio.sleep(us / 1e6)
        self.ops.append({"op": "advance", "us": us})
        self.reqs.append(sx([A("redis.snapshot")]))
        self.obs.append(sx(snapshot(self.srv)))

    async def maintenance(self) -> None:
        now = CLOCK.us
        before = set(self.held)
        await self.broker.maintenance()
        back, premature = [], []
        for mid in before:
            if not any(p == "processing" for p in self.places(mid)):
                back.append(mid)
                took = max((d["at"] for d in self.deliveries if d["id"] == mid), default=now)
                tmo = vtime.td_us(self.msgs[mid]["params"].execution_timeout)
                if now - took + S >= tmo:
                    self.held.pop(mid, None)       # timed out: the holder's claim has lapsed
                    self.returned.add(mid)
                else:
                    premature.append(mid)          # given back although its holder's time has not run out: still held
        self.rec({"op": "maintenance", "now": now, "returned": back, "premature": premature}, [A("redis.maintenance"), now],
                 snapshot(self.srv))
        return back


# ------------------------------------------------------------------------------ generators
def gen_pd(rng: Rng, now: int, profile: str) -> dict:
    pd: dict = {"ts": now - rng.choice([0, 0, 1, S, 3 * S])}
    r = rng.random()
    if profile == "fifo":
        return pd
    if r < 0.5:
        pass
    elif r < 0.8:
        pd["next"] = now + rng.choice([-3600 * S, -1, 0, 1, 400_000, 999_999, S, S + 900_000, 2 * S + 500_000, 5 * S, 86400 * S])
    elif r < 0.9:
        pd["delay_until"] = now + rng.choice([-S, 0, 1, 500_000, 2 * S + 250_000, 3600 * S])
    else:
        pd["defer_by"] = rng.choice([S, 2 * S, 10 * S])
    if rng.random() < (0.5 if profile == "ttl" else 0.2):
        pd["ttl"] = rng.choice([S, 2 * S, 5 * S, 3600 * S, 0, 1])
    if rng.random() < 0.3:
        pd["timeout"] = rng.choice([S, 5 * S, 600 * S, 86400 * S, 2 * 86400 * S + 5 * S])
    return pd


async def random_session(rng: Rng, n_ops: int, profile: str, box: list | None = None) -> Session:
    s = Session(f"redis://s{rng.random()}")
    if box is not None:
        box.append(s)
    await asyncio.sleep(rng.choice([0, 0.25, 0.9, 0.999]))      # position inside a clock second
    if profile == "backlog":
        return await backlog_session(rng, s)
    if profile == "dup":
        return await dup_session(rng, s)
    if profile == "poll":
        return await poll_session(rng, s)
    ncons = {"fifo": 1, "race": 2}.get(profile, rng.choice([1, 2, 3]))
    topics_pool = ["ta", "tb", "tab"]       # "tab": foreign to every filter used, but "ta" is a prefix of it
    for c in range(ncons):
        cat = "NORMAL" if c == 0 or profile in ("fifo", "race") else rng.choice(["NORMAL", "DELAYED", "DEAD", "DEAD"])
        tp = None if profile == "race" else rng.choice([None, None, ["ta"], ["ta", "tb"]])
        s.consumer(c, cat, tp)
    nid = 0
    for _ in range(n_ops):
        r = rng.random()
        if r < 0.38 or not s.msgs:
            nid += 1
            prio = 5 if profile in ("fifo",) else rng.choice(PRIOS + [5, 5])
            await s.enqueue(f"m{nid}", rng.choice(topics_pool if profile != "race" else ["ta"]), prio,
                            rng.choice(["", "{}", '{"x": 1}']), gen_pd(rng, CLOCK.us, profile))
        elif r < 0.68:
            c = rng.randrange(ncons)
            await s.consume(c, rng.choice(ORDERS))
        elif r < 0.86 and s.held:
            mid = rng.choice(sorted(s.held))
            kind = rng.choice(["ack", "nack", "reject", "reject", "requeue"])
            if kind == "requeue":
                await s.terminal("requeue", mid, gen_pd(rng, CLOCK.us, profile), rng.choice(["", '{"y": 2}']))
            else:
                await s.terminal(kind, mid)
        elif r < 0.95:
            await s.advance(rng.choice([1, 100_000, 400_000, S, S + 300_000, 3 * S, 10 * S, 3600 * S, 86400 * S]))
        else:
            if await s.maintenance():
                # whatever maintenance gave back is deliverable again: let every consumer look
                for c in range(ncons):
                    await s.consume(c, ORDERS[0])
    if profile in ("ttl", "mixed"):
        await drain_dead(s)
    return s


async def poll_session(rng: Rng, s: Session) -> Session:
    """C05: a listening consumer polls every 100 ms while messages with due times at every position inside a clock second
    come due — none may be handed over before its time, each within a second after it"""
    s.consumer(0, "NORMAL", None)
    t0 = CLOCK.us
    n = rng.randint(2, 4)
    for i in range(n):
        off = rng.choice([1, 2]) * S + rng.choice([50_000, 300_000, 500_000, 550_000, 700_000, 800_000, 950_000, 999_000])
        await s.enqueue(f"p{i}", "ta", 5, "{}", {"ts": t0, "next": t0 + off} if rng.random() < 0.6 else {"ts": t0, "delay_until": t0 + off})
    for _ in range(45):
        await s.consume(0, [9, 5, 0])
        await s.advance(100_000)
    return s


async def dup_session(rng: Rng, s: Session) -> Session:
    """C15 with names that occur more than once in the list (a job with a fixed id enqueued again while its earlier instance
    still waits): the consumer takes the occurrence at the consuming end"""
    s.consumer(0, "NORMAL", None)
    s.dup_order = []
    pool = ["d1", "d2", "d3"]
    nid = 0
    for _ in range(rng.randint(6, 16)):
        if rng.random() < 0.45:
            mid = rng.choice(pool)
        else:
            nid += 1
            mid = f"u{nid}"
        await s.enqueue(mid, "ta", 5, "{}", {"ts": CLOCK.us})
        s.dup_order.append(mid)
        if rng.random() < 0.25:
            await s.consume(0, [9, 5, 0])
    for _ in range(len(s.dup_order) + 1):
        await s.consume(0, [9, 5, 0])
    return s


async def backlog_session(rng: Rng, s: Session) -> Session:
    """C15: a consumer with a topic filter in front of backlogs shorter and longer than the fetch window (10), with runs of
    foreign-topic names of every length around the window size at the consuming end"""
    s.consumer(0, "NORMAL", ["ta"])
    nid = 0
    for _round in range(rng.randint(2, 4)):
        for _ in range(rng.choice([8, 9, 10, 11, 12, 19, 20, 21, 22, 25])):
            nid += 1
            await s.enqueue(f"m{nid}", "tb", 5, "", {"ts": CLOCK.us})
        for _ in range(rng.randint(1, 4)):
            nid += 1
            await s.enqueue(f"m{nid}", "ta", 5, "", {"ts": CLOCK.us})
            if rng.random() < 0.4:
                nid += 1
                await s.enqueue(f"m{nid}", "tb", 5, "", {"ts": CLOCK.us})
        for _ in range(rng.randint(1, 3)):
            d = await s.consume(0, [9, 5, 0])
            if d is not None and rng.random() < 0.5:
                await s.terminal(rng.choice(["ack", "reject"]), d["id"])
    for _ in range(6):
        await s.consume(0, [9, 5, 0])
    return s


async def drain_dead(s: Session) -> None:
    """C12 'stays retrievable': a dead-letter consumer without topic filter must be able to take every dead letter"""
    dead_before = sorted(mid for mid in s.msgs if any(p.endswith(":dead") for p in s.places(mid)))
    s.consumer(99, "DEAD", None)
    got = []
    for i in range(3 * len(dead_before) + 3):
        d = await s.consume(99, ORDERS[i % 3])
        if d is not None:
            got.append(d["id"])
    s.ops.append({"op": "drain-dead", "dead_before": dead_before, "retrieved": got})
    s.reqs.append(sx([A("redis.snapshot")]))
    s.obs.append(sx(snapshot(s.srv)))


async def crash_session(rng: Rng, box: list | None = None) -> Session:
    """C03 (Redis): a worker that dies without cleanup — its messages come back after their execution timeout and a
    maintenance run (by any other process), and not before"""
    s = Session(f"redis://crash{rng.random()}")
    if box is not None:
        box.append(s)
    await asyncio.sleep(rng.choice([0, 0.3, 0.95]))
    s.consumer(0, "NORMAL", None)
    n = rng.randint(2, 5)
    for i in range(n):
        pd = {"ts": CLOCK.us, "timeout": rng.choice([S, 2 * S, 5 * S, 600 * S, 86400 * S, 86400 * S + 5 * S, 3 * 86400 * S + 2 * S])}
        if rng.random() < 0.3:
            pd["next"] = CLOCK.us - S
        await s.enqueue(f"k{i}", "ta", rng.choice(PRIOS), "{}", pd)
    taken = {}
    for i in range(n + 2):
        d = await s.consume(0, rng.choice(ORDERS))
        if d is not None:
            taken[d["id"]] = CLOCK.us
        await s.advance(rng.choice([1, 200_000, 700_000]))
    # the worker dies here: nothing is called on its behalf any more
    s.ops.append({"op": "crash", "taken": dict(taken)})
    s.reqs.append(sx([A("redis.snapshot")]))
    s.obs.append(sx(snapshot(s.srv)))
    for _ in range(rng.randint(6, 10)):
        await s.advance(rng.choice([300_000, S, 2 * S, 4 * S, 5 * S + 1, 595 * S, 86400 * S - 10 * S, 86400 * S, 2 * 86400 * S]))
        await s.maintenance()
    return s


async def finish_at(k: int, n: int = 3) -> dict:
    """C03: the consumer's background fetch loop is stopped (`finish()`, as the worker does at shutdown) after k further
    event-loop steps; afterwards no message may stay marked in-flight"""
    s = Session(f"redis://fin{k}")
    _RedisConsumer.POLLING_WAIT = 0.1
    try:
        for i in range(n):
            await s.enqueue(f"f{i}", "ta", 5, "{}", {"ts": CLOCK.us})
        cons = _RedisConsumer(s.broker, QUEUE, None, category=CATS["NORMAL"])
        rcons.get_priorities_order = lambda _ch: [PrioritiesT(p) for p in (9, 5, 0)]
        await cons.start()
        await asyncio.sleep(0.1)
        for _ in range(k):
            await asyncio.sleep(0)
        await cons.finish()
        for _ in range(30):
            await asyncio.sleep(0)
        snap = s.srv.snapshot()
        return {"k": k, "processing": [m for m, _ in snap["zsets"].get("processing", [])],
                "waiting": snap["lists"].get(f"q:{QUEUE}:5:n", [])}
    finally:
        _RedisConsumer.POLLING_WAIT = 0


async def race_session(rng: Rng) -> Session:
    """C14: two consumers (two connections) polling the same queue at the same time"""
    s = Session(f"redis://race{rng.random()}")
    b2 = RedisMessageBroker(s.broker.dsn)
    c0 = _RedisConsumer(s.broker, QUEUE, None, category=CATS["NORMAL"])
    c1 = _RedisConsumer(b2, QUEUE, None, category=CATS["NORMAL"])
    n = rng.randint(1, 4)
    for i in range(n):
        await s.enqueue(f"r{i}", "ta", 5, "{}", {"ts": CLOCK.us})
    rcons.get_priorities_order = lambda _ch: [PrioritiesT(p) for p in (9, 5, 0)]
    i0 = len(s.srv.log)
    got = await asyncio.gather(c0.consume_or_none(), c1.consume_or_none())
    log = [(cid, op, args) for cid, op, args in s.srv.log[i0:]]
    s.ops.append({"op": "race", "n": n, "got": [None if g is None else g[0].id_ for g in got], "round_trips": [[c, o] for c, o, _ in log]})
    # the same atoms on the model, in the order the server saw them
    now_s = CLOCK.us // S
    reqs = []
    pend = {}
    for cid, op, args in log:
        if op == "lrange" and args and str(args[0]).endswith(":5:n"):
            reqs.append(("fetch", cid))
        elif op == "multi" and "lrem" in (args or []):
            reqs.append(("take", cid))
    s.race = {"atoms": reqs, "now_s": now_s, "got": s.ops[-1]["got"]}
    s.final = snapshot(s.srv)
    return s


# ------------------------------------------------------------------------------ judging
def compare(s: Session, model: Model, res: Result, label: str) -> bool:
    ans = model.ask(s.reqs)
    res.extra["model_requests"] = res.extra.get("model_requests", 0) + len(ans)
    for i, (a, o) in enumerate(zip(ans, s.obs)):
        if a != o:
            res.bad("corr", "Redis.R model vs RedisMessageBroker/_RedisConsumer on the fake server (state after the call / delivery)",
                    case={"label": label, "ops": s.ops[: i + 1]}, observed=o[:1500], expected=a[:1500])
            return False
    return True


def predicates(s: Session, res: Result, label: str, only: str | None) -> None:
    """the statements, on the implementation's own behaviour"""
    ops = s.ops

    def bad(prop, what, **kw):
        if only is None or only == prop:
            res.bad("impl", what, case=dict(label=label, ops=ops, **kw.pop("case", {})), **kw)
    # C05 — never early (ms resolution), to NORMAL-category consumers
    for d in s.deliveries:
        hist = [op for op in ops[: d["seq"] + 1] if op.get("op") in ("enqueue", "requeue") and op.get("id") == d["id"]]
        due = hist[-1].get("_due") if hist else None
        if d["cat"] == "NORMAL" and due is not None and d["at"] // 1000 < due // 1000:
            bad("C05", "a message was handed to a normal consumer before its next execution time (millisecond resolution)",
                case={"delivery": d, "due": due}, observed={"delivered_at_us": d["at"]}, expected={"not_before_us": due})
        if d["cat"] != "DEAD" and d["overdue"]:
            bad("C12", "a message whose time-to-live had run out was delivered", case={"delivery": d}, observed=d)
        if d["held_by_other"] is not None and d["held_by_other"] != d["c"]:
            bad("C14", "a message held by one consumer was delivered to another", case={"delivery": d}, observed=d)
    # C15 — FIFO for a single NORMAL consumer among immediately deliverable, never returned messages of equal priority
    by = {}
    for d in s.deliveries:
        if d["cat"] == "NORMAL":
            by.setdefault((d["c"], d["prio"]), []).append(d)
    for (c, prio), ds in by.items():
        topics = s.consumers[c][2]
        for d in ds:
            m = s.msgs[d["id"]]
            if d["id"] in s.returned:
                continue
            first = [op for op in ops if op.get("op") == "enqueue" and op.get("id") == d["id"]][0]
            if first.get("_due") is not None:
                continue
            # any older, still waiting, matching, immediate, never-returned message of the same priority overtaken?
            for op in ops[: d["seq"]]:
                if op.get("op") != "enqueue" or op["prio"] != prio or op.get("_due") is not None or op["id"] == d["id"]:
                    continue
                if topics and op["topic"] not in topics:
                    continue
                if op["_seq"] < first["_seq"] and op["id"] not in s.returned:
                    # was it still waiting at that moment?
                    taken = [x for x in s.deliveries if x["id"] == op["id"] and x["seq"] < d["seq"]]
                    dead = any(op["id"] in (o.get("newly_dead") or []) for o in ops[: d["seq"] + 1])
                    if not taken and not dead:
                        bad("C15", "a waiting message was overtaken by one enqueued after it (same priority, matching topics, never returned)",
                            case={"delivered": d["id"], "overtaken": op["id"]}, observed=[x["id"] for x in ds])
                        break
    # C01 — exactly one place, after the session; C12 — dead letters
    snap_places = {mid: s.places(mid) for mid in s.msgs}
    for mid, pl in snap_places.items():
        n = len(pl) + (1 if mid in s.acked else 0)
        if n != 1:
            bad("C01", "a message is not in exactly one place (waiting, delayed, held, dead-lettered or acknowledged)",
                case={"id": mid}, observed={"places": pl, "acked": mid in s.acked})
    for i, op in enumerate(ops):
        for mid in op.get("newly_dead") or []:
            # dead-lettered by a consume pass: only because its TTL had run out
            m_ops = [o for o in ops[:i] if o.get("op") in ("enqueue", "requeue") and o.get("id") == mid]
            p = mk_params(m_ops[-1]["params"])
            ts, ttl = to_us(p.timestamp), p.ttl
            if ttl is None or not (op["now"] > ts + int(ttl.total_seconds() * 1e6)):
                bad("C12", "a message within its time-to-live (or without one) was dead-lettered by a consumer", case={"id": mid, "op": i},
                    observed={"timestamp": ts, "ttl": None if ttl is None else ttl.total_seconds(), "now": op["now"]})


def extra_predicates(s: Session, res: Result, label: str, only: str | None) -> None:
    ops = s.ops

    def bad(prop, what, **kw):
        if only is None or only == prop:
            res.bad("impl", what, case=dict(label=label, ops=ops, **kw.pop("case", {})), **kw)
    for op in ops:
        if op.get("op") == "drain-dead":
            missing = [m for m in op["dead_before"] if m not in op["retrieved"]]
            if missing:
                bad("C12", "a dead-lettered message could not be retrieved by a dead-letter consumer", case={"missing": missing},
                    observed=op["retrieved"], expected=op["dead_before"])
    crash = [op for op in ops if op.get("op") == "crash"]
    if crash:
        taken = crash[0]["taken"]
        timeouts = {op["id"]: op["params"]["timeout"] for op in ops if op.get("op") == "enqueue"}
        back_at = {}
        last_maint = None
        for op in ops:
            if op.get("op") == "maintenance":
                last_maint = op["now"]
                for mid in op["returned"]:
                    back_at.setdefault(mid, op["now"])
        for mid, t_take in taken.items():
            to = timeouts[mid]
            if mid in back_at and back_at[mid] - t_take <= to - S:
                bad("C03", "a message of a dead worker became deliverable again before its execution timeout had elapsed",
                    case={"id": mid}, observed={"taken_at": t_take, "returned_at": back_at[mid], "timeout_us": to})
            if mid not in back_at and last_maint is not None and last_maint - t_take > to + S:
                bad("C03", "a message of a dead worker was not made deliverable again by maintenance after its execution timeout",
                    case={"id": mid}, observed={"taken_at": t_take, "last_maintenance": last_maint, "timeout_us": to})
        for mid in back_at:
            pl = s.places(mid)
            if len(pl) != 1 or pl[0] == "processing":
                bad("C03", "a recovered message is not back in exactly one queue", case={"id": mid}, observed=pl)


def annotate(s: Session) -> None:
    """due time and sequence number of every (re)enqueue, computed by the library's own wait_until at that time"""
    # (recorded during the session in s.msgs for the latest scheduling only: recompute per op with the clock of the op)
    from repid.connections.in_memory.utils import wait_until
    seq = 0
    for op in s.ops:
        if op.get("op") in ("enqueue", "requeue"):
            seq += 1
            saved = CLOCK.us
            CLOCK.us = op["now"]
            try:
                w = wait_until(mk_params(op["params"]))
            finally:
                CLOCK.us = saved
            op["_due"] = None if w is None else to_us(w)
            op["_seq"] = seq


def one_session(arg) -> Result:
    seed, i, profile, only, n_ops = arg
    # sessions alternate between processes in UTC, five hours west and five and a half hours east of it
    vtime.set_tz(["UTC", "XXX+5", "XXX-5:30"][i % 3] if not os.environ.get("VERIF_TZ") else os.environ["VERIF_TZ"])
    res = Result(only or "redis")
    model = Model()
    rng = Rng(seed, f"redis/{profile}/{i}")
    label = f"redis-{profile}-{seed}-{i}"
    box: list = []
    try:
        s = vtime.run(lambda loop: random_session(rng, n_ops, profile, box), budget=3_000_000)
    except vtime.BudgetExhausted:
        res.bad("impl", "a broker / consumer call did not return: the real code loops for ever on this history", 
                case={"label": label, "ops": box[0].ops if box else []})
        return res
    annotate(s)
    res.note(("redis", profile, seed, i), sample={"label": label, "ops": s.ops[:6]} if i == 0 else None)
    for op in s.ops:
        res.dist["redis-op:" + op["op"]] += 1
    res.dist["redis-deliveries"] += len(s.deliveries)
    compare(s, model, res, label)
    if profile == "dup":
        got = [d["id"] for d in s.deliveries]
        if only in (None, "C15") and (got != s.dup_order[: len(got)] or len(got) != len(s.dup_order)):
            res.bad("impl", "a waiting message was overtaken by one enqueued after it (names that occur more than once in the list)",
                    case={"label": label, "enqueued": s.dup_order}, observed=got, expected=s.dup_order)
        return res
    predicates(s, res, label, only)
    extra_predicates(s, res, label, only)
    return res


def one_crash(arg) -> Result:
    seed, i, only = arg
    # sessions alternate between processes in UTC, five hours west and five and a half hours east of it
    vtime.set_tz(["UTC", "XXX+5", "XXX-5:30"][i % 3] if not os.environ.get("VERIF_TZ") else os.environ["VERIF_TZ"])
    res = Result(only or "redis")
    model = Model()
    rng = Rng(seed, f"redis/crash/{i}")
    label = f"redis-crash-{seed}-{i}"
    box: list = []
    try:
        s = vtime.run(lambda loop: crash_session(rng, box), budget=3_000_000)
    except vtime.BudgetExhausted:
        res.bad("impl", "a broker / consumer call did not return: the real code loops for ever on this history",
                case={"label": label, "ops": box[0].ops if box else []})
        return res
    annotate(s)
    res.note(("redis-crash", seed, i))
    res.dist["redis-crash"] += 1
    compare(s, model, res, label)
    predicates(s, res, label, only)
    extra_predicates(s, res, label, only)
    return res


def one_race(arg) -> Result:
    seed, i, only = arg
    res = Result(only or "redis")
    model = Model()
    rng = Rng(seed, f"redis/race2/{i}")
    s = vtime.run(lambda loop: race_session(rng), budget=2_000_000)
    label = f"redis-race-{seed}-{i}"
    res.note(("redis-race", seed, i))
    res.dist["redis-race"] += 1
    # model: the setup, then the consumers' atoms in the order the server saw them
    reqs = list(s.reqs)
    holder = {}
    n_setup = len(reqs)
    pend = {}
    for kind, cid in s.race["atoms"]:
        if kind == "fetch":
            reqs.append(sx([A("redis.fetch"), A("n"), 5, [], s.race["now_s"]]))
            pend[cid] = len(reqs) - 1
        else:
            reqs.append(None)      # filled below from the fetch answer
            pend[("take", cid)] = len(reqs) - 1
    # two passes: first get the fetch answers
    ans = model.ask([r for r in reqs if r is not None])
    fetch_ans = {}
    j = 0
    idx_map = {}
    for i2, r in enumerate(reqs):
        if r is not None:
            idx_map[i2] = j
            j += 1
    model_got = []
    final_reqs = list(s.reqs)
    for kind, cid in s.race["atoms"]:
        if kind == "fetch":
            final_reqs.append(sx([A("redis.fetch"), A("n"), 5, [], s.race["now_s"]]))
        else:
            name = parse_sx(ans[idx_map[pend[cid]]])
            model_got.append(None if name == "none" else str(name).split(":")[1])
            if name != "none":
                final_reqs.append(sx([A("redis.take"), A("n"), 5, str(name), s.race["now_s"]]))
    final_reqs.append(sx([A("redis.snapshot")]))
    ans2 = model.ask(final_reqs)
    res.extra["model_requests"] = len(ans) + len(ans2)
    case = {"label": label, "ops": s.ops}
    if ans2[-1] != sx(s.final):
        res.bad("corr", "Redis.R atoms (fetch/take in server order) vs two real consumers polling concurrently", case=case,
                observed=sx(s.final)[:800], expected=ans2[-1][:800])
    got = [g for g in s.race["got"] if g is not None]
    if len(got) != len(set(got)) and (only is None or only == "C14"):
        res.bad("impl", "two consumers polling the same queue at the same time were both handed the same message", case=case,
                observed=s.race["got"], finding=F12)
    return res


F24 = "F24-redis-finish-leaves-fetch-in-flight"


async def cancel_window(kind: str) -> dict:
    """C01 / C03 "for every point at which a call is interrupted by task cancellation": a broker call of the given kind on a held
    message (or an enqueue) is cancelled after exactly k event-loop steps, for every k until it completes"""
    results = []
    for k in range(0, 40):
        s = Session(f"redis://cw-{kind}-{k}")
        s.consumer(0, "NORMAL", None)
        if kind != "enqueue":
            await s.enqueue("w1", "ta", 5, "{}", {"ts": CLOCK.us, "next": CLOCK.us - 1} if kind == "reject-delayed" else {"ts": CLOCK.us})
            await s.consume(0, ORDERS[0])
        key = RoutingKey(id_="w1", topic="ta", queue=QUEUE, priority=5)
        s.msgs.setdefault("w1", {"topic": "ta"})
        pre = sx(snapshot(s.srv))
        b = s.broker
        coro = {"enqueue": lambda: b.enqueue(key, "{}", mk_params({"ts": CLOCK.us})), "ack": lambda: b.ack(key), "nack": lambda: b.nack(key),
                "reject": lambda: b.reject(key), "reject-delayed": lambda: b.reject(key),
                "requeue": lambda: b.requeue(key, '{"new": 1}', mk_params({"ts": CLOCK.us, "next": CLOCK.us + 5 * S}))}[kind]()
        t = asyncio.ensure_future(coro)
        for _ in range(k):
            await asyncio.sleep(0)
        done = t.done()
        t.cancel()
        await asyncio.gather(t, return_exceptions=True)
        for _ in range(5):
            await asyncio.sleep(0)
        results.append({"cancel_after_steps": k, "completed": done, "pre": pre, "post": sx(snapshot(s.srv)), "places": s.places("w1")})
        if done:
            break
    return {"kind": kind, "results": results}


WINDOW_KINDS = ["enqueue", "ack", "nack", "reject", "reject-delayed", "requeue"]


def one_window(arg) -> Result:
    kind, only = arg
    res = Result(only or "redis")
    o = vtime.run(lambda loop: cancel_window(kind), budget=2_000_000)
    rs = o["results"]
    res.note(("redis-cancel-window", kind))
    res.dist["redis-cancel-points:" + kind] += len(rs)
    if not rs or not rs[-1]["completed"]:
        res.bad("impl", "a broker call did not complete within 40 event-loop steps", case={"label": "redis-cancel-window", "kind": kind})
        return res
    final = rs[-1]["post"]
    for r in rs:
        want_places = (0, 1) if kind in ("enqueue", "ack") else (1,)
        if r["post"] not in (r["pre"], final) or len(r["places"]) not in want_places:
            res.bad("impl", "a broker call interrupted by cancellation left an in-between state: neither as before the call nor as "
                            "after it (on Redis every call is one transaction)",
                    case={"label": "redis-cancel-window", "kind": kind, "cancel_after_steps": r["cancel_after_steps"]},
                    observed={"state": r["post"][:700], "places": r["places"]}, expected={"either": r["pre"][:700], "or": final[:700]})
            break
    return res


def one_finish(arg) -> Result:
    seed, lo, hi, only = arg
    res = Result(only or "redis")
    for k in range(lo, hi):
        o = vtime.run(lambda loop, k=k: finish_at(k), budget=300_000)
        res.note(("redis-finish", k))
        res.dist["redis-finish-points"] += 1
        if only in (None, "C03") and (o["processing"] or len(o["waiting"]) != 3):
            res.bad("impl", "after the consumer was finished (worker shutdown) a message stayed marked in-flight / did not return to its queue",
                    case={"label": "redis-finish", "finish_after_steps": k}, observed=o, finding=F24)
    return res


def _dispatch(item) -> Result:
    vtime.set_tz(os.environ.get("VERIF_TZ", "UTC"))       # (pool workers are reused: every item starts from the run's zone)
    kind = item[0]
    if kind == "f":
        return one_finish(item[1:])
    if kind == "s":
        return one_session(item[1:])
    if kind == "c":
        return one_crash(item[1:])
    if kind == "w":
        return one_window(item[1:])
    return one_race(item[1:])


def part(ctx, prop: str, profiles: list, n_quick: int = 12, n_deep: int = 60, n_ops: int = 40, crash: int = 0, race: int = 0) -> Result:
    deep = ctx["tier"] == "thorough" or ctx.get("search")
    k = 5 if deep else 1
    items = [("s", ctx["seed"], i, profiles[i % len(profiles)], prop, n_ops) for i in range(n_deep if deep else n_quick)]
    items += [("c", ctx["seed"], i, prop) for i in range(crash * k)]
    items += [("r", ctx["seed"], i, prop) for i in range(race * k)]
    if prop == "C03":
        items += [("f", ctx["seed"], lo, lo + 15, prop) for lo in range(0, 60 if deep else 30, 15)]
    if prop in ("C01", "C03"):
        items += [("w", kind, prop) for kind in WINDOW_KINDS]
    res = Result(prop)
    for r in pmap(_dispatch, items):
        res.merge(r)
    return res
