/-
RabbitMQ broker — the RabbitMQ clauses of C01, C03, C05, C12, C15.
Model: RepidModel/Broker/Rabbit.lean (repid's broker/consumer logic over an abstract AMQP server, assumption set A).
-/
import RepidModel.Broker.Rabbit

namespace Repid.RabbitProofs
open Repid Rabbit

/-! ### C05 — delays -/

/-- the expiration the code computes never lets a message out more than one millisecond before its execution time,
    for every position of now and of the due time inside their milliseconds, including the case where the float
    product falls just short of a whole number -/
theorem expiry_not_early (now due ms : Int) (h : millisOk (due - now) ms = true) : now + ms * 1000 ≥ due - 1000 := by
  simp only [millisOk, decide_eq_true_eq] at h
  omega

/-- and never later than it: the delay in the delayed queue itself ends by the execution time -/
theorem expiry_not_late (now due ms : Int) (h : millisOk (due - now) ms = true) : now + ms * 1000 ≤ due := by
  simp only [millisOk, decide_eq_true_eq] at h
  omega

/-- `head_blocks`: while the head of the delayed queue is not due, NOTHING behind it leaves the queue — however long
    the other messages have been due (per-message TTL fires only at the head).  This is the mechanism of F21. -/
theorem head_blocks (s : S) (m : Msg) (rest : List Msg) (t now : Int) (fuel : Nat)
    (hd : s.delayed = m :: rest) (ht : m.expiresAt = some t) (hnot : now < t) :
    expireHeads now fuel s = s := by
  cases fuel with
  | zero => rfl
  | succ f =>
    simp only [expireHeads, hd, ht]
    rw [if_neg (by omega)]

/-- recorded finding F21, concretely: `short` is due at 2 s, `long` (published first) at 3600 s; at 10 s a settle
    delivers nothing -/
theorem rabbit_head_of_line_witness :
    let long : Msg := { id := "long", topic := "t", prio := 5, payload := "", params := {} }
    let short : Msg := { id := "short", topic := "t", prio := 5, payload := "", params := {} }
    let s0 : S := { consumers := [(0, { cat := .main })] }
    let s := publish (publish s0 long (some 3600000) 0) short (some 2000) 0
    (settle s 10000000).main = [] ∧ ((settle s 10000000).delayed.map (·.id)) = ["long", "short"] ∧
    (settle s 10000000).unacked = [] := by decide

/-- what leaves the delayed queue through `expireHeads` was due (expiresAt ≤ now): the delayed queue never shrinks
    otherwise -/
theorem expire_step_due (s : S) (m : Msg) (rest : List Msg) (now : Int) (fuel : Nat) (hd : s.delayed = m :: rest)
    (h : expireHeads now (fuel + 1) s ≠ s) : ∃ t, m.expiresAt = some t ∧ t ≤ now := by
  simp only [expireHeads, hd] at h
  cases he : m.expiresAt with
  | none => simp [he] at h
  | some t =>
    simp only [he] at h
    by_cases ht : t ≤ now
    · exact ⟨t, rfl, ht⟩
    · simp [ht] at h

/-! ### C12 — time-to-live -/

/-- `on_new_message` without topic filter: a message whose ttl has run out is dead-lettered when it reaches a consumer
    of the NORMAL category, held otherwise -/
theorem onMessage_spec (c : Cons) (m : Msg) (now : Int) (ht : c.topics = []) :
    onMessage c m now = if m.params.isOverdue now && c.cat == .main then .nackDead else .hold := by
  simp [onMessage, ht]

/-- `rabbit_no_expired_handover`: whatever waits in the local (prefetch) queue, and for however long, `consume()` of a
    NORMAL-category consumer never hands over a message whose ttl has run out -/
theorem rabbit_no_expired_handover (now : Int) : ∀ (fuel : Nat) (s s' : S) (cid : Nat) (m : Msg),
    consume now .main fuel s cid = (s', some m) → m.params.isOverdue now = false := by
  intro fuel
  induction fuel with
  | zero => intro s s' cid m h; simp [consume] at h
  | succ f ih =>
    intro s s' cid m h
    simp only [consume] at h
    split at h
    · split at h
      · rename_i m0 rest hloc
        cases ho : m0.params.isOverdue now with
        | true =>
          simp only [ho, beq_self_eq_true, Bool.and_self, if_true] at h
          exact ih _ _ _ _ h
        | false =>
          simp only [ho, Bool.false_and, Bool.false_eq_true, if_false, Prod.mk.injEq, Option.some.injEq] at h
          rw [← h.2]; exact ho
      · simp at h
    · simp at h

/-- consumers of the other categories (dead letters, delayed) are handed whatever they were sent -/
theorem rabbit_dead_letters_retrievable (now : Int) (fuel : Nat) (s : S) (cid : Nat) (c : Cons) (m : Msg) (rest : List Msg)
    (hf : s.consumers.find? (·.1 == cid) = some (cid, c)) (hl : c.loc = m :: rest) :
    consume now .dead (fuel + 1) s cid = (setCons s cid { c with loc := rest }, some m) := by
  simp [consume, hf, hl]

/-! ### C15 — first in, first out within a priority -/

/-- a later arrival of the same (capped) priority goes behind everything already waiting with that priority or a
    higher one -/
theorem insert_after_equal_or_higher (m : Msg) (l : List Msg)
    (h : ∀ x ∈ l, cap m.prio < cap x.prio ∨ (cap x.prio = cap m.prio ∧ x.seq < m.seq)) : Rabbit.insert m l = l ++ [m] := by
  induction l with
  | nil => rfl
  | cons x rest ih =>
    have hx := h x (by simp)
    simp only [Rabbit.insert]
    rw [if_neg (by rcases hx with hx | ⟨hx1, hx2⟩ <;> omega)]
    rw [ih (fun y hy => h y (by simp [hy]))]
    rfl

/-- the head of a queue is what the server delivers next: with equal priorities that is the earliest arrival -/
theorem fifo_two (a b : Msg) (h : cap a.prio = cap b.prio) (hs : a.seq < b.seq) :
    Rabbit.insert b (Rabbit.insert a []) = [a, b] ∧ Rabbit.insert a (Rabbit.insert b []) = [a, b] := by
  constructor
  · simp only [Rabbit.insert]; rw [if_neg (by omega)]
  · simp only [Rabbit.insert]; rw [if_pos (by omega)]

/-! ### C01 — terminal calls -/

theorem takeUnacked_found (s : S) (id : String) (e : Nat × Qn × Msg) (h : s.unacked.find? (·.2.2.id == id) = some e) :
    takeUnacked s id = ({ s with unacked := s.unacked.filter fun x => !(x.2.2.id == id) }, some e) := by
  simp [takeUnacked, h]

/-- reject returns the message to the queue (category) it was delivered from -/
theorem rabbit_reject_origin (s : S) (id : String) (c : Nat) (q : Qn) (m : Msg)
    (h : s.unacked.find? (·.2.2.id == id) = some (c, q, m)) :
    (reject s id).get q = Rabbit.insert m (s.get q) ∧ (∀ x ∈ (reject s id).unacked, x.2.2.id ≠ id) := by
  simp only [reject, takeUnacked_found s id _ h]
  constructor
  · cases q <;> simp [S.set, S.get]
  · intro x hx
    have : x ∈ s.unacked.filter fun x => !(x.2.2.id == id) := by cases q <;> simpa [S.set] using hx
    simpa using (List.mem_filter.mp this).2

/-- ack removes the message from the consumer's unacknowledged set; no queue changes -/
theorem rabbit_ack_removes (s : S) (id : String) :
    (ack s id).main = s.main ∧ (ack s id).delayed = s.delayed ∧ (ack s id).dead = s.dead ∧
    (∀ x ∈ (ack s id).unacked, x.2.2.id ≠ id) := by
  simp only [ack, takeUnacked]
  split
  · refine ⟨rfl, rfl, rfl, ?_⟩
    intro x hx
    simpa using (List.mem_filter.mp hx).2
  · rename_i hnone
    refine ⟨rfl, rfl, rfl, ?_⟩
    intro x hx hid
    have := List.find?_eq_none.mp hnone x hx
    simp [hid] at this

/-- recorded finding F2r: after the first of the two round trips of `requeue` the message is in no place -/
theorem rabbit_requeue_window_witness :
    let m : Msg := { id := "w", topic := "t", prio := 5, payload := "", params := {} }
    let s : S := { unacked := [(0, .main, m)], consumers := [(0, { cat := .main })] }
    places s "w" = 1 ∧
    places (((requeueAtoms m none 0).take 1).foldl (fun acc f => f acc) s) "w" = 0 ∧
    places (requeue s m none 0) "w" = 1 := by decide

/-- recorded finding F23: nack of a message held from the DELAYED category puts it into the main queue (deliverable at
    once, whatever its execution time); nack of one held from the DEAD category discards it -/
theorem rabbit_nack_nonnormal_witness :
    let m : Msg := { id := "x", topic := "t", prio := 5, payload := "", params := {}, expiresAt := some 3600000000 }
    ((nack { unacked := [(1, .delayed, m)] } "x").main.map (·.id)) = ["x"] ∧
    ((nack { unacked := [(2, .dead, m)] } "x").dropped.map (·.id)) = ["x"] ∧
    places (nack { unacked := [(2, .dead, m)] } "x") "x" = 0 := by decide

/-- nack of a message held from the NORMAL category dead-letters it -/
theorem rabbit_nack_dead_letters (s : S) (id : String) (c : Nat) (m : Msg)
    (h : s.unacked.find? (·.2.2.id == id) = some (c, .main, m)) :
    (nack s id).dead = Rabbit.insert { m with expiresAt := none, seq := s.seq + 1 } s.dead ∧ (nack s id).main = s.main := by
  simp [nack, takeUnacked_found s id _ h, deadLetter, dlx, S.set, S.get]

end Repid.RabbitProofs
