/-
C04 — Retries are bounded, counted and backed off as configured.
Model: `Worker.retryChain` (RepidModel/Worker/Chain.lean) driven by the ladder `Worker.report`;
predicate: `Pred.C04.chainOk` (also evaluated on chains observed from the implementation).
-/
import RepidModel.Pred.Worker

namespace Repid.C04
open Repid Worker Pred.C04

variable (policy : Int → Int) (cron : String → Int → Int) (fails : Nat → Bool) (dur lat : Nat → Int)

/-- the execution the chain records for the delivery of `p` at `start` as its k-th execution -/
def execOf (k : Nat) (p : Params) (start : Int) : Exec :=
  { start := start, params := p,
    call := report p (!fails k) (start + dur k) cron (policy (p.retries.alreadyTried + 1)),
    fin := start + dur k, failed := fails k }

/-- one-step unfolding of the chain -/
theorem chain_unfold (fuel k : Nat) (p : Params) (start : Int) :
    retryChain policy cron fails dur lat (fuel + 1) k p start =
      if fails k = true ∧ p.retries.alreadyTried < p.retries.maxAmount then
        execOf policy cron fails dur k p start ::
          retryChain policy cron fails dur lat fuel (k + 1)
            (p.prepareRetry (start + dur k) (policy (p.retries.alreadyTried + 1)))
            (start + dur k + policy (p.retries.alreadyTried + 1) + lat (k + 1))
      else [execOf policy cron fails dur k p start] := by
  simp only [retryChain, execOf, Bool.and_eq_true, decide_eq_true_eq]

/-- the retry branch of the ladder is taken exactly when the execution failed and retries remain;
    otherwise the answer is ack, nack or a reschedule -/
theorem retry_iff (p : Params) (success : Bool) (now : Int) (pn : Int) :
    (report p success now cron pn = .requeue (p.prepareRetry now pn) ∧ success = false ∧
        p.retries.alreadyTried < p.retries.maxAmount) ∨
    ((success = true ∨ ¬ p.retries.alreadyTried < p.retries.maxAmount) ∧
      (report p success now cron pn = .ack ∨ report p success now cron pn = .nack ∨
       report p success now cron pn = .requeue (p.prepareReschedule now cron))) := by
  unfold report
  cases success <;> by_cases h : p.retries.alreadyTried < p.retries.maxAmount <;>
    cases hr : isRecurring p <;> simp [h]

/-- `counter_step`: a retry increases the attempt counter carried by the message by exactly one,
    keeps the budget, and schedules the next attempt at failure time + back-off. -/
theorem counter_step (p : Params) (now d : Int) :
    (p.prepareRetry now d).retries.alreadyTried = p.retries.alreadyTried + 1 ∧
    (p.prepareRetry now d).retries.maxAmount = p.retries.maxAmount ∧
    (p.prepareRetry now d).delay.nextExecutionTime = some (now + d) ∧
    isRecurring (p.prepareRetry now d) = isRecurring p := by
  simp [Params.prepareRetry, isRecurring]

@[simp] theorem tried_prepareRetry (p : Params) (now d : Int) :
    (p.prepareRetry now d).retries.alreadyTried = p.retries.alreadyTried + 1 := rfl
@[simp] theorem max_prepareRetry (p : Params) (now d : Int) :
    (p.prepareRetry now d).retries.maxAmount = p.retries.maxAmount := rfl

/-! ### the conjuncts of `chainOk`, each by induction on the chain -/

def toObs (e : Exec) : Obs :=
  { tried := e.params.retries.alreadyTried, start := e.start, fin := e.fin, failed := e.failed }

theorem counters_ok (fuel : Nat) : ∀ (k : Nat) (p : Params) (start : Int),
    countersOk p.retries.alreadyTried ((retryChain policy cron fails dur lat fuel k p start).map toObs) = true := by
  induction fuel with
  | zero => intro k p start; simp [retryChain, countersOk]
  | succ f ih =>
    intro k p start
    rw [chain_unfold]
    split
    · have := ih (k + 1) (p.prepareRetry (start + dur k) (policy (p.retries.alreadyTried + 1)))
        (start + dur k + policy (p.retries.alreadyTried + 1) + lat (k + 1))
      simp only [tried_prepareRetry] at this
      simp [countersOk, toObs, execOf, this]
    · simp [countersOk, toObs, execOf]

theorem only_last_may_succeed (fuel : Nat) : ∀ (k : Nat) (p : Params) (start : Int),
    onlyLastMaySucceed ((retryChain policy cron fails dur lat fuel k p start).map toObs) = true := by
  induction fuel with
  | zero => intro k p start; simp [retryChain, onlyLastMaySucceed]
  | succ f ih =>
    intro k p start
    rw [chain_unfold]
    split
    · next h =>
      have := ih (k + 1) (p.prepareRetry (start + dur k) (policy (p.retries.alreadyTried + 1)))
        (start + dur k + policy (p.retries.alreadyTried + 1) + lat (k + 1))
      cases hc : (retryChain policy cron fails dur lat f (k + 1)
          (p.prepareRetry (start + dur k) (policy (p.retries.alreadyTried + 1)))
          (start + dur k + policy (p.retries.alreadyTried + 1) + lat (k + 1))).map toObs with
      | nil => simp [hc, onlyLastMaySucceed]
      | cons y ys =>
        rw [hc] at this
        simp [hc, onlyLastMaySucceed, toObs, execOf, h.1, this]
    · simp [onlyLastMaySucceed]

/-- shape: a non-empty chain starts with the execution of the delivered message -/
theorem chain_head (fuel k : Nat) (p : Params) (start : Int) :
    ∃ tail, retryChain policy cron fails dur lat (fuel + 1) k p start =
      execOf policy cron fails dur k p start :: tail := by
  rw [chain_unfold]; split
  · exact ⟨_, rfl⟩
  · exact ⟨[], rfl⟩

theorem backoff_ok (hlat : ∀ k, 0 ≤ lat k) (fuel : Nat) : ∀ (k : Nat) (p : Params) (start : Int),
    backoffOk policy ((retryChain policy cron fails dur lat fuel k p start).map toObs) = true := by
  induction fuel with
  | zero => intro k p start; simp [retryChain, backoffOk]
  | succ f ih =>
    intro k p start
    rw [chain_unfold]
    split
    · have := ih (k + 1) (p.prepareRetry (start + dur k) (policy (p.retries.alreadyTried + 1)))
        (start + dur k + policy (p.retries.alreadyTried + 1) + lat (k + 1))
      cases f with
      | zero => simp [retryChain, backoffOk]
      | succ f' =>
        obtain ⟨tail, ht⟩ := chain_head policy cron fails dur lat f' (k + 1)
          (p.prepareRetry (start + dur k) (policy (p.retries.alreadyTried + 1)))
          (start + dur k + policy (p.retries.alreadyTried + 1) + lat (k + 1))
        rw [ht] at this ⊢
        simp only [List.map_cons, backoffOk, Bool.and_eq_true, decide_eq_true_eq]
        refine ⟨?_, by simpa using this⟩
        have := hlat (k + 1)
        simp [toObs, execOf]; omega
    · simp [backoffOk]

theorem length_le (fuel : Nat) : ∀ (k : Nat) (p : Params) (start : Int),
    p.retries.alreadyTried ≤ p.retries.maxAmount →
    ((retryChain policy cron fails dur lat fuel k p start).length : Int)
      ≤ p.retries.maxAmount - p.retries.alreadyTried + 1 := by
  induction fuel with
  | zero => intro k p start h; simp [retryChain]; omega
  | succ f ih =>
    intro k p start h
    rw [chain_unfold]
    split
    · next hc =>
      have := ih (k + 1) (p.prepareRetry (start + dur k) (policy (p.retries.alreadyTried + 1)))
        (start + dur k + policy (p.retries.alreadyTried + 1) + lat (k + 1))
        (by simp only [tried_prepareRetry, max_prepareRetry]; omega)
      simp only [tried_prepareRetry, max_prepareRetry] at this
      simp only [List.length_cons]
      push_cast
      omega
    · simp; omega

/-- final place implied by the broker call that ends the chain -/
def finalOf (recurring : Bool) : BCall → Final
  | .ack => .acked
  | .nack => .dead
  | .requeue _ => if recurring then .rescheduled else .other
  | .reject => .other

/-- the last execution of the chain: if it failed the budget is spent (exactly N+1 executions) and
    the message is dead-lettered (rescheduled if recurring); if it succeeded it is acked
    (rescheduled if recurring) -/
theorem last_ok (fuel : Nat) : ∀ (k : Nat) (p : Params) (start : Int),
    p.retries.alreadyTried ≤ p.retries.maxAmount →
    (p.retries.maxAmount - p.retries.alreadyTried + 1 ≤ (fuel : Int)) →
    ∃ e, (retryChain policy cron fails dur lat fuel k p start).getLast? = some e ∧
      (e.failed = true →
        ((retryChain policy cron fails dur lat fuel k p start).length : Int)
            = p.retries.maxAmount - p.retries.alreadyTried + 1 ∧
        finalOf (isRecurring p) e.call = (if isRecurring p then .rescheduled else .dead)) ∧
      (e.failed = false →
        finalOf (isRecurring p) e.call = (if isRecurring p then .rescheduled else .acked)) := by
  induction fuel with
  | zero => intro k p start h hf; omega
  | succ f ih =>
    intro k p start h hf
    rw [chain_unfold]
    split
    · next hc =>
      have hrec : isRecurring (p.prepareRetry (start + dur k) (policy (p.retries.alreadyTried + 1)))
          = isRecurring p := by simp [Params.prepareRetry, isRecurring]
      obtain ⟨e, he, h1, h2⟩ := ih (k + 1)
        (p.prepareRetry (start + dur k) (policy (p.retries.alreadyTried + 1)))
        (start + dur k + policy (p.retries.alreadyTried + 1) + lat (k + 1))
        (by simp only [tried_prepareRetry, max_prepareRetry]; omega)
        (by simp only [tried_prepareRetry, max_prepareRetry]; omega)
      have hne : retryChain policy cron fails dur lat f (k + 1)
          (p.prepareRetry (start + dur k) (policy (p.retries.alreadyTried + 1)))
          (start + dur k + policy (p.retries.alreadyTried + 1) + lat (k + 1)) ≠ [] := by
        intro hnil; rw [hnil] at he; simp at he
      refine ⟨e, by rw [List.getLast?_cons_of_ne_nil hne]; exact he, ?_, ?_⟩
      · intro hfail
        have := h1 hfail
        rw [hrec] at this
        simp only [tried_prepareRetry, max_prepareRetry] at this
        refine ⟨?_, this.2⟩
        simp only [List.length_cons]; push_cast; omega
      · intro hok; have := h2 hok; rwa [hrec] at this
    · next hc =>
      refine ⟨execOf policy cron fails dur k p start, rfl, ?_, ?_⟩
      · intro hfail
        simp only [execOf] at hfail
        have hlt : ¬ p.retries.alreadyTried < p.retries.maxAmount := fun hl => hc ⟨hfail, hl⟩
        refine ⟨by simp; omega, ?_⟩
        simp only [execOf, report, hfail, hlt, decide_false, Bool.and_false, Bool.not_true]
        cases isRecurring p <;> simp [finalOf]
      · intro hok
        simp only [execOf] at hok
        simp only [execOf, report, hok, Bool.not_false, Bool.not_true, Bool.false_and]
        cases isRecurring p <;> simp [finalOf]

/-- **C04, full statement**: for every N ≥ 0, every failure pattern over the attempts, every retry
    policy, every duration profile and every non-negative delivery latency, recurring or not — the
    chain of executions of one scheduling of a job with retries = N satisfies `chainOk`:
    counters 0,1,2,…; every execution but the last failed; at most N+1 executions; exactly N+1 and
    dead-lettered (rescheduled if recurring) when all failed; a success ends the chain with an ack
    (reschedule if recurring); the k-th retry starts no earlier than the failure plus policy(k). -/
theorem chain_ok (p : Params) (start : Int) (fuel : Nat)
    (h0 : p.retries.alreadyTried = 0) (hN : 0 ≤ p.retries.maxAmount)
    (hfuel : p.retries.maxAmount + 1 ≤ (fuel : Int)) (hlat : ∀ k, 0 ≤ lat k) :
    ∃ e, (retryChain policy cron fails dur lat fuel 0 p start).getLast? = some e ∧
      chainOk p.retries.maxAmount (isRecurring p) policy
        ((retryChain policy cron fails dur lat fuel 0 p start).map toObs)
        (finalOf (isRecurring p) e.call) = true := by
  obtain ⟨e, he, h1, h2⟩ := last_ok policy cron fails dur lat fuel 0 p start (by omega) (by omega)
  refine ⟨e, he, ?_⟩
  have hc := counters_ok policy cron fails dur lat fuel 0 p start
  rw [h0] at hc
  have hl := length_le policy cron fails dur lat fuel 0 p start (by omega)
  have hlast : ((retryChain policy cron fails dur lat fuel 0 p start).map toObs).getLast? = some (toObs e) := by
    rw [List.getLast?_map, he]; rfl
  simp only [chainOk, hc, only_last_may_succeed, backoff_ok policy cron fails dur lat hlat, Bool.true_and,
    Bool.and_eq_true, decide_eq_true_eq, List.length_map, hlast]
  refine ⟨by omega, ?_⟩
  cases hf : e.failed with
  | true =>
    have := h1 hf
    simp only [toObs, hf, if_true, Bool.and_eq_true, decide_eq_true_eq]
    refine ⟨by omega, ?_⟩
    cases hr : isRecurring p <;> simp [hr] at this ⊢ <;> simp [this.2]
  | false =>
    have := h2 hf
    simp only [toObs, hf]
    cases hr : isRecurring p <;> simp [hr] at this ⊢ <;> simp [this]

/-- `chain_length` (corollary): an always-failing job with retries = N is executed exactly N+1 times -/
theorem chain_length (p : Params) (start : Int) (fuel : Nat)
    (h0 : p.retries.alreadyTried = 0) (hN : 0 ≤ p.retries.maxAmount)
    (hfuel : p.retries.maxAmount + 1 ≤ (fuel : Int)) :
    ((retryChain policy cron (fun _ => true) dur lat fuel 0 p start).length : Int) = p.retries.maxAmount + 1 := by
  obtain ⟨e, he, h1, _⟩ := last_ok policy cron (fun _ => true) dur lat fuel 0 p start (by omega) (by omega)
  have hfail : e.failed = true := by
    have : ∀ (f k : Nat) (q : Params) (s : Int), ∀ x ∈ retryChain policy cron (fun _ => true) dur lat f k q s,
        x.failed = true := by
      intro f
      induction f with
      | zero => intro k q s x hx; simp [retryChain] at hx
      | succ f ih =>
        intro k q s x hx
        rw [chain_unfold] at hx
        split at hx
        · simp only [List.mem_cons] at hx
          rcases hx with hx | hx
          · subst hx; rfl
          · exact ih _ _ _ x hx
        · simp only [List.mem_singleton] at hx; subst hx; rfl
    exact this _ _ _ _ e (List.mem_of_getLast? he)
  have := (h1 hfail).1
  omega

/-- `counter_bounded`: without a forced retry the attempt counter never exceeds the budget -/
theorem counter_bounded (fuel : Nat) : ∀ (k : Nat) (p : Params) (start : Int),
    p.retries.alreadyTried ≤ p.retries.maxAmount →
    ∀ e ∈ retryChain policy cron fails dur lat fuel k p start,
      e.params.retries.alreadyTried ≤ e.params.retries.maxAmount ∧
      e.params.retries.maxAmount = p.retries.maxAmount := by
  induction fuel with
  | zero => intro k p start _ e he; simp [retryChain] at he
  | succ f ih =>
    intro k p start hle e he
    rw [chain_unfold] at he
    split at he
    · next hc =>
      simp only [List.mem_cons] at he
      rcases he with he | he
      · subst he; exact ⟨hle, rfl⟩
      · have := ih (k + 1) _ _ (by simp only [tried_prepareRetry, max_prepareRetry]; omega) e he
        simpa using this
    · simp only [List.mem_singleton] at he; subst he; exact ⟨hle, rfl⟩

/-- `success_ends`: a success at any attempt ends the chain — with an ack for a one-shot job -/
theorem success_ends (fuel k : Nat) (p : Params) (start : Int) (hs : fails k = false)
    (hnr : isRecurring p = false) :
    (retryChain policy cron fails dur lat (fuel + 1) k p start).map (·.call) = [.ack] := by
  rw [chain_unfold]
  simp [hs, execOf, report, hnr]

-- Non-vacuity: N = 2, always failing, linear policy.
example :
    let p : Params := { retries := { maxAmount := 2, alreadyTried := 0 } }
    (retryChain (fun k => 10000000 * k) (fun _ n => n) (fun _ => true) (fun _ => 1) (fun _ => 0) 5 0 p 0).map
      (fun e => (e.start, e.params.retries.alreadyTried)) = [(0, 0), (10000001, 1), (30000002, 2)] := by
  decide

end Repid.C04
