/-
C11 — A job reaches exactly the actor it names, only through that actor's queue.
Models: RepidModel/Route/Router.lean (routers, worker topic sets), RepidModel/Broker/InMemory.lean
(topic filter of the consumer).
-/
import RepidModel.Route.Router
import RepidProofs.Props.C05

namespace Repid.C11
open Repid Route

/-- `name` is among the topics of queue `q` -/
def memT (tbq : List (String × List String)) (name q : String) : Prop := ∃ e ∈ tbq, e.1 = q ∧ name ∈ e.2

theorem memT_add (tbq : List (String × List String)) (q n m q' : String) :
    memT (tbqAdd tbq q n) m q' ↔ memT tbq m q' ∨ (m = n ∧ q' = q) := by
  unfold tbqAdd memT
  by_cases h : tbq.any (·.1 == q) = true
  · simp only [h, if_true, List.mem_map]
    constructor
    · rintro ⟨e, ⟨e0, he0, rfl⟩, hq, hm⟩
      by_cases hk : (e0.1 == q) = true
      · simp only [hk, if_true] at hq hm
        by_cases hc : e0.2.contains n = true
        · simp only [hc, if_true] at hm; exact Or.inl ⟨e0, he0, hq, hm⟩
        · simp only [hc, Bool.false_eq_true, if_false, List.mem_append, List.mem_singleton] at hm
          rcases hm with hm | hm
          · exact Or.inl ⟨e0, he0, hq, hm⟩
          · exact Or.inr ⟨hm, by rw [← hq]; simpa using hk⟩
      · simp only [hk, Bool.false_eq_true, if_false] at hq hm; exact Or.inl ⟨e0, he0, hq, hm⟩
    · rintro (⟨e0, he0, hq, hm⟩ | ⟨rfl, rfl⟩)
      · refine ⟨_, ⟨e0, he0, rfl⟩, ?_, ?_⟩
        · split <;> simpa using hq
        · split
          · split
            · exact hm
            · simp [hm]
          · exact hm
      · obtain ⟨e0, he0, hk⟩ := List.any_eq_true.mp h
        refine ⟨_, ⟨e0, he0, rfl⟩, ?_, ?_⟩
        · simp only [hk, if_true]; simpa using hk
        · simp only [hk, if_true]
          split
          · next hc => simpa using hc
          · simp
  · simp only [h, Bool.false_eq_true, if_false, List.mem_append, List.mem_singleton]
    constructor
    · rintro ⟨e, he | rfl, hq, hm⟩
      · exact Or.inl ⟨e, he, hq, hm⟩
      · simp at hm; exact Or.inr ⟨hm, hq.symm⟩
    · rintro (⟨e0, he0, hq, hm⟩ | ⟨rfl, rfl⟩)
      · exact ⟨e0, Or.inl he0, hq, hm⟩
      · exact ⟨(q', [m]), Or.inr rfl, rfl, by simp⟩

theorem memT_discard (tbq : List (String × List String)) (q n m q' : String) :
    memT (tbqDiscard tbq q n) m q' ↔ memT tbq m q' ∧ ¬ (m = n ∧ q' = q) := by
  unfold tbqDiscard memT
  simp only [List.mem_filter, List.mem_map]
  constructor
  · rintro ⟨e, ⟨⟨e0, he0, rfl⟩, _⟩, hq, hm⟩
    by_cases hk : (e0.1 == q) = true
    · simp only [hk, if_true, List.mem_filter, bne_iff_ne, ne_eq] at hq hm
      refine ⟨⟨e0, he0, hq, hm.1⟩, fun hc => hm.2 hc.1⟩
    · simp only [hk, Bool.false_eq_true, if_false] at hq hm
      refine ⟨⟨e0, he0, hq, hm⟩, fun hc => hk ?_⟩
      rw [hq, hc.2]; simp
  · rintro ⟨⟨e0, he0, hq, hm⟩, hne⟩
    by_cases hk : (e0.1 == q) = true
    · have hmn : m ≠ n := fun h => hne ⟨h, by rw [← hq]; simpa using hk⟩
      refine ⟨_, ⟨⟨e0, he0, rfl⟩, ?_⟩, ?_, ?_⟩
      · simp only [hk, if_true]
        have : m ∈ e0.2.filter (· != n) := List.mem_filter.mpr ⟨hm, by simpa using hmn⟩
        cases hf : e0.2.filter (· != n) with
        | nil => rw [hf] at this; simp at this
        | cons a b => simp
      · simp only [hk, if_true]; exact hq
      · simp only [hk, if_true]; exact List.mem_filter.mpr ⟨hm, by simpa using hmn⟩
    · refine ⟨_, ⟨⟨e0, he0, rfl⟩, ?_⟩, ?_, ?_⟩
      · simp only [hk, Bool.false_eq_true, if_false]
        cases hf : e0.2 with
        | nil => rw [hf] at hm; simp at hm
        | cons a b => simp
      · simp only [hk, Bool.false_eq_true, if_false]; exact hq
      · simp only [hk, Bool.false_eq_true, if_false]; exact hm

/-- invariant of every router / worker: one actor per name; the topic sets say exactly which (name, queue)
    pairs the actors have; no topic set is empty -/
def RInv (r : Router) : Prop :=
  (r.actors.map (·.name)).Nodup ∧
  (∀ m q, memT r.tbq m q ↔ ∃ a ∈ r.actors, a.name = m ∧ a.queue = q) ∧
  (∀ e ∈ r.tbq, e.2 ≠ [])

theorem find_mem_unique (l : List Actor) (h : (l.map (·.name)).Nodup) (a : Actor) (ha : a ∈ l) :
    l.find? (·.name == a.name) = some a := by
  induction l with
  | nil => simp at ha
  | cons x rest ih =>
    simp only [List.map_cons, List.nodup_cons] at h
    simp only [List.mem_cons] at ha
    rcases ha with rfl | ha
    · simp
    · have hne : x.name ≠ a.name := fun he => h.1 (he ▸ List.mem_map_of_mem ha)
      simp [List.find?_cons, hne, ih h.2 ha]

theorem find_filter_ne (l : List Actor) (a : Actor) (n : String) (hn : a.name ≠ n) :
    (l.filter (·.name != a.name)).find? (·.name == n) = l.find? (·.name == n) := by
  induction l with
  | nil => rfl
  | cons x rest ih =>
    by_cases hx : (x.name != a.name) = true
    · simp only [List.filter_cons, hx, if_true, List.find?_cons, ih]
    · have hxe : x.name = a.name := by simpa using hx
      have hxn : ¬ (x.name == n) = true := by rw [hxe]; simpa using hn
      simp only [List.filter_cons, hx, Bool.false_eq_true, if_false, List.find?_cons, hxn, ih]

theorem find_some_iff (r : Router) (h : (r.actors.map (·.name)).Nodup) (n : String) (a : Actor) :
    r.find n = some a ↔ a ∈ r.actors ∧ a.name = n := by
  unfold Router.find
  constructor
  · intro hf
    exact ⟨List.mem_of_find?_eq_some hf, by simpa using List.find?_some hf⟩
  · rintro ⟨ha, rfl⟩
    exact find_mem_unique _ h a ha

theorem tbqAdd_nonempty (tbq : List (String × List String)) (q n : String) (h : ∀ e ∈ tbq, e.2 ≠ []) :
    ∀ e ∈ tbqAdd tbq q n, e.2 ≠ [] := by
  unfold tbqAdd
  split
  · intro e he
    obtain ⟨e0, he0, rfl⟩ := List.mem_map.mp he
    split
    · split
      · exact h e0 he0
      · simp
    · exact h e0 he0
  · intro e he
    rcases List.mem_append.mp he with he | he
    · exact h e he
    · simp at he; subst he; simp

theorem tbqDiscard_nonempty (tbq : List (String × List String)) (q n : String) :
    ∀ e ∈ tbqDiscard tbq q n, e.2 ≠ [] := by
  intro e he
  have := (List.mem_filter.mp he).2
  intro hnil; simp [hnil] at this

theorem inv_setActor (r : Router) (a : Actor) (h : RInv r) : RInv (r.setActor a) := by
  obtain ⟨h1, h2, h3⟩ := h
  have hact : ∀ b, b ∈ (r.actors.filter (·.name != a.name)) ++ [a] ↔ (b ∈ r.actors ∧ b.name ≠ a.name) ∨ b = a := by
    intro b; simp [List.mem_filter]
  refine ⟨?_, ?_, ?_⟩
  · -- names stay distinct
    simp only [Router.setActor, List.map_append, List.map_cons, List.map_nil]
    apply List.nodup_append.mpr
    refine ⟨List.Nodup.sublist (List.Sublist.map _ List.filter_sublist) h1, by simp, ?_⟩
    intro x hx y hy
    simp at hy; subst hy
    obtain ⟨b, hb, rfl⟩ := List.mem_map.mp hx
    have := (List.mem_filter.mp hb).2
    simpa using this
  · intro m q
    simp only [Router.setActor]
    have goalR : (∃ b ∈ (r.actors.filter (·.name != a.name)) ++ [a], b.name = m ∧ b.queue = q) ↔
        (∃ b ∈ r.actors, b.name ≠ a.name ∧ b.name = m ∧ b.queue = q) ∨ (m = a.name ∧ q = a.queue) := by
      constructor
      · rintro ⟨b, hb, hn, hq⟩
        rcases (hact b).mp hb with ⟨hb1, hb2⟩ | rfl
        · exact Or.inl ⟨b, hb1, hb2, hn, hq⟩
        · exact Or.inr ⟨hn.symm, hq.symm⟩
      · rintro (⟨b, hb, hne, hn, hq⟩ | ⟨rfl, rfl⟩)
        · exact ⟨b, (hact b).mpr (Or.inl ⟨hb, hne⟩), hn, hq⟩
        · exact ⟨a, (hact a).mpr (Or.inr rfl), rfl, rfl⟩
    rw [goalR, memT_add]
    cases hf : r.find a.name with
    | none =>
      simp only []
      have hno : ∀ b ∈ r.actors, b.name ≠ a.name := by
        intro b hb hn
        have := (find_some_iff r h1 a.name b).mpr ⟨hb, hn⟩
        rw [hf] at this; cases this
      rw [h2]
      constructor
      · rintro (⟨b, hb, hn, hq⟩ | h)
        · exact Or.inl ⟨b, hb, hno b hb, hn, hq⟩
        · exact Or.inr h
      · rintro (⟨b, hb, _, hn, hq⟩ | h)
        · exact Or.inl ⟨b, hb, hn, hq⟩
        · exact Or.inr h
    | some p =>
      obtain ⟨hp, hpn⟩ := (find_some_iff r h1 a.name p).mp hf
      have huniq : ∀ b ∈ r.actors, b.name = a.name → b = p := by
        intro b hb hn
        have h1' := (find_some_iff r h1 a.name b).mpr ⟨hb, hn⟩
        rw [hf] at h1'; injection h1' with h1'; exact h1'.symm
      simp only []
      by_cases hq : (p.queue != a.queue) = true
      · simp only [hq, if_true]
        rw [memT_discard, h2]
        constructor
        · rintro (⟨⟨b, hb, hn, hbq⟩, hne⟩ | h)
          · refine Or.inl ⟨b, hb, ?_, hn, hbq⟩
            intro hba
            have := huniq b hb hba; subst this
            exact hne ⟨by rw [← hn, hba], hbq.symm⟩
          · exact Or.inr h
        · rintro (⟨b, hb, hne, hn, hbq⟩ | h)
          · exact Or.inl ⟨⟨b, hb, hn, hbq⟩, fun hc => hne (by rw [hn, hc.1])⟩
          · exact Or.inr h
      · have hqe : p.queue = a.queue := by simpa using hq
        simp only [hq, Bool.false_eq_true, if_false]
        rw [h2]
        constructor
        · rintro (⟨b, hb, hn, hbq⟩ | h)
          · by_cases hba : b.name = a.name
            · have := huniq b hb hba; subst this
              exact Or.inr ⟨by rw [← hn, hba], by rw [← hbq, hqe]⟩
            · exact Or.inl ⟨b, hb, hba, hn, hbq⟩
          · exact Or.inr h
        · rintro (⟨b, hb, _, hn, hbq⟩ | h)
          · exact Or.inl ⟨b, hb, hn, hbq⟩
          · exact Or.inr h
  · simp only [Router.setActor]
    apply tbqAdd_nonempty
    cases hf : r.find a.name with
    | none => exact h3
    | some p =>
      simp only []
      split
      · exact tbqDiscard_nonempty _ _ _
      · exact h3

theorem inv_foldl (l : List Actor) (r : Router) (h : RInv r) : RInv (l.foldl Router.setActor r) := by
  induction l generalizing r with
  | nil => exact h
  | cons a rest ih => exact ih _ (inv_setActor r a h)

theorem inv_empty : RInv {} := ⟨by simp, by simp [memT], by simp⟩

theorem inv_worker (routers : List Router) : RInv (worker routers) := by
  unfold worker
  have : ∀ (l : List Router) (w : Router), RInv w → RInv (l.foldl Router.include w) := by
    intro l
    induction l with
    | nil => intro w h; exact h
    | cons r rest ih => intro w h; exact ih _ (inv_foldl r.actors w h)
  exact this routers {} inv_empty

/-- **`serves_iff`**: for ANY set of routers with arbitrary (name, queue) registrations including overrides,
    a worker accepts a message (topic, queue) iff it has an actor registered under that name WHOSE queue is
    that queue — and then runs exactly that actor's function.  (Full statement after `fix:` 42c6068.) -/
theorem serves_iff (routers : List Router) (topic queue : String) :
    ((worker routers).accepts topic queue = true ↔
      ∃ a, (worker routers).find topic = some a ∧ a.queue = queue) ∧
    (∀ f, (worker routers).route topic queue = some f →
      ∃ a, (worker routers).find topic = some a ∧ a.queue = queue ∧ a.fn = f) := by
  obtain ⟨h1, h2, h3⟩ := inv_worker routers
  have hacc : (worker routers).accepts topic queue = true ↔ memT (worker routers).tbq topic queue := by
    unfold Router.accepts memT
    simp only [List.any_eq_true, Bool.and_eq_true, beq_iff_eq, Bool.or_eq_true, List.isEmpty_iff]
    constructor
    · rintro ⟨e, he, hq, hm | hm⟩
      · exact absurd hm (h3 e he)
      · exact ⟨e, he, hq, by simpa using hm⟩
    · rintro ⟨e, he, hq, hm⟩
      exact ⟨e, he, hq, Or.inr (by simpa using hm)⟩
  have hmain : (worker routers).accepts topic queue = true ↔
      ∃ a, (worker routers).find topic = some a ∧ a.queue = queue := by
    rw [hacc, h2]
    constructor
    · rintro ⟨a, ha, hn, hq⟩
      exact ⟨a, (find_some_iff _ h1 topic a).mpr ⟨ha, hn⟩, hq⟩
    · rintro ⟨a, hf, hq⟩
      obtain ⟨ha, hn⟩ := (find_some_iff _ h1 topic a).mp hf
      exact ⟨a, ha, hn, hq⟩
  refine ⟨hmain, ?_⟩
  intro f hr
  unfold Router.route at hr
  split at hr
  · next hacc' =>
    obtain ⟨a, hf, hq⟩ := hmain.mp hacc'
    rw [hf] at hr
    simp at hr
    exact ⟨a, hf, hq, hr⟩
  · cases hr

/-- no consumer of a worker has an empty topic set (an empty set would accept every topic) -/
theorem no_accept_all_consumer (routers : List Router) : ∀ e ∈ (worker routers).consumers, e.2 ≠ [] :=
  (inv_worker routers).2.2

theorem find_setActor (r : Router) (a : Actor) (n : String) :
    (r.setActor a).find n = if a.name = n then some a else r.find n := by
  unfold Router.setActor Router.find
  simp only [List.find?_append]
  by_cases hn : a.name = n
  · subst hn
    have : (r.actors.filter (·.name != a.name)).find? (·.name == a.name) = none := by
      apply List.find?_eq_none.mpr
      intro x hx
      have := (List.mem_filter.mp hx).2
      simpa using this
    simp [this]
  · have hna : ¬ (a.name == n) = true := by simpa using hn
    simp only [hn, if_false, find_filter_ne _ a n hn, List.find?_cons, hna, List.find?_nil, Option.or_none]

/-- **`union_last_wins`**: registering / including in any order yields the right-biased union: the actor found
    under a name is the LAST registration of that name -/
theorem union_last_wins (regs : List Actor) (n : String) : (build regs).find n = lastReg regs n := by
  unfold build lastReg
  have : ∀ (l : List Actor) (r : Router), RInv r →
      (l.foldl Router.setActor r).find n = match l.reverse.find? (·.name == n) with
        | some a => some a
        | none => r.find n := by
    intro l
    induction l with
    | nil => intro r _; rfl
    | cons a rest ih =>
      intro r hr
      rw [List.foldl_cons, ih _ (inv_setActor r a hr), find_setActor r a n]
      simp only [List.reverse_cons, List.find?_append]
      cases hrest : rest.reverse.find? (·.name == n) with
      | some b => simp
      | none =>
        by_cases hn : a.name = n
        · simp [hn]
        · have : ¬ (a.name == n) = true := by simpa using hn
          simp [hn, this]
  rw [this regs {} inv_empty]
  cases regs.reverse.find? (·.name == n) <;> rfl

/-- a delivered message with topic `n` runs `actors[n]` -/
theorem executes_named_actor (w : Router) (topic queue : String) (f : Nat) (h : w.route topic queue = some f) :
    ∃ a, w.find topic = some a ∧ a.fn = f := by
  unfold Router.route at h
  split at h
  · cases hf : w.find topic with
    | none => simp [hf] at h
    | some a => simp [hf] at h; exact ⟨a, rfl, h⟩
  · cases h

/-! ### the broker side: messages of foreign topics are not touched (in-memory consumer) -/

open Mem in
/-- `foreign_untouched`: a consumer polling with topic set `topics` never returns, dead-letters or removes a
    non-expired message whose topic it does not serve: the message is only rotated to the back — same content,
    still waiting, the multiset of waiting messages unchanged. -/
theorem foreign_untouched (q : Q) (now : Int) (topics : List String) (m : Msg) (rest : List Msg)
    (hs : q.simple = m :: rest) (hforeign : wants topics m = false) (hlive : m.params.isOverdue now = false) :
    (pollNormal q now topics).1 = none ∧
    (pollNormal q now topics).2.simple = rest ++ [m] ∧
    (pollNormal q now topics).2.dead = q.dead ∧
    (pollNormal q now topics).2.processing = q.processing := by
  simp [pollNormal, hs, hforeign, hlive]

open Mem in
/-- `not_blocked`: with `k` foreign messages in front of an own deliverable message, every failed poll brings
    the own message one position closer to the head; with nothing in front it is delivered (or expired): the
    worker is never blocked by messages it has no actor for (instance of `C05.poll_progress`). -/
theorem not_blocked (q : Q) (now : Int) (topics : List String) (x : Msg) (xs : List Msg)
    (hs : q.simple = x :: xs) (hw : ∃ y ∈ q.simple, wants topics y = true) :
    (C05.lead topics q.simple = 0 ∧ ((pollNormal q now topics).1 = some x ∨ x.params.isOverdue now = true)) ∨
    ((pollNormal q now topics).1 = none ∧
      C05.lead topics (pollNormal q now topics).2.simple + 1 = C05.lead topics q.simple) :=
  C05.poll_progress q now topics x xs hs hw

end Repid.C11

namespace Repid.C11
open Repid Mem

/-- Refutation of "never blocks … those messages stay available to other workers" under an adversarial
    schedule on the current in-memory broker: two consumers with disjoint topic sets on one queue that
    poll alternately rotate each other's message to the head for ever — after one poll of each the queue
    is back in the same state and nothing was delivered (a livelock; real-time jitter eventually breaks it). -/
theorem rotation_livelock_witness :
    let x1 : Msg := { id := "x1", topic := "a" }
    let x2 : Msg := { id := "x2", topic := "c" }
    let q : Q := { simple := [x1, x2] }
    let rA := pollNormal q 0 ["c"]            -- consumer A serves topic c
    let rB := pollNormal rA.2 0 ["a"]         -- consumer B serves topic a
    rA.1 = none ∧ rB.1 = none ∧ rB.2 = q := by
  decide

end Repid.C11
