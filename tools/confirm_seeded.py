#!/usr/bin/env python3
"""Confirm one staged property-breaking change and file it under /verif/seeded/<id>/.

usage: tools/confirm_seeded.py C01 A [--props C01,C03]

In a scratch worktree of /repo (under /tmp, removed afterwards):
  1. the demonstration passes on the unchanged tree;
  2. the patch applies; the demonstration fails with it;
  3. the repository's own test suite still passes (the pinned 194 tests);
  4. which of our checks report a VIOLATION with the change applied (REPID_REPO=<worktree>).
Writes seeded/<prop>-<variant>/{patch.diff, demo.py, meta.json}.  Nothing is committed in /repo."""
import fcntl
import json
import os
import re
import shutil
import subprocess
import sys
from pathlib import Path

VERIF = Path(__file__).resolve().parent.parent
STAGE = VERIF / "seeded_staging"
PY = "/venv/bin/python"


def sh(cmd, cwd=None, timeout=1800, env=None):
    p = subprocess.run(cmd, cwd=cwd, shell=isinstance(cmd, str), capture_output=True, text=True, timeout=timeout,
                       env={**os.environ, **(env or {})})
    return p.returncode, p.stdout + p.stderr


def main():
    prop, var = sys.argv[1], sys.argv[2]
    props = [prop]
    if "--props" in sys.argv:
        props = sys.argv[sys.argv.index("--props") + 1].split(",")
    src = STAGE / prop
    patch, demo, info = src / f"{var}.diff", src / f"demo_{var}.py", json.loads((src / f"{var}.json").read_text())
    wt = Path(f"/tmp/seedwt_{prop}{var}_{os.getpid()}")
    meta = {"id": f"{prop}-{var}", "property": prop, "summary": info.get("summary"), "mechanism": info.get("mechanism"),
            "needs_to_manifest": info.get("needs"), "source": "sub-agent given only the property text and a scratch worktree",
            "confirmed": {}}
    rc, out = sh(["git", "-C", "/repo", "worktree", "add", "--detach", str(wt), "HEAD", "-q"])
    if rc != 0:
        print("worktree failed", out)
        return 2
    try:
        meta["repo_commit"] = sh(["git", "-C", "/repo", "rev-parse", "--short", "HEAD"])[1].strip()
        (wt / "_out").mkdir(exist_ok=True)
        shutil.copy(demo, wt / "_out" / demo.name)
        cmd_demo = f"timeout 600 {PY} _out/{demo.name}"
        rc0, out0 = sh(cmd_demo, cwd=wt, timeout=700)
        meta["confirmed"]["demo_on_unchanged_tree"] = {"cmd": cmd_demo, "rc": rc0, "tail": out0[-300:]}
        rca, outa = sh(["git", "apply", str(patch)], cwd=wt)
        meta["confirmed"]["patch_applies"] = rca == 0
        if rca != 0:
            meta["confirmed"]["apply_error"] = outa[-400:]
        else:
            rc1, out1 = sh(cmd_demo, cwd=wt, timeout=700)
            meta["confirmed"]["demo_with_change"] = {"cmd": cmd_demo, "rc": rc1, "tail": out1[-400:]}
            # the repository's tests, one run at a time (they bind port 8080)
            with open("/tmp/seed_pytest.lock", "w") as lk:
                fcntl.flock(lk, fcntl.LOCK_EX)
                cmd_t = f"{PY} -m pytest -q -p no:cacheprovider --timeout=900 --continue-on-collection-errors"
                rct, outt = sh(cmd_t, cwd=wt, timeout=1500)
            m = re.search(r"(\d+) passed", outt)
            f = re.search(r"(\d+) failed", outt)
            meta["confirmed"]["test_suite"] = {"cmd": cmd_t, "passed": int(m.group(1)) if m else None,
                                               "failed": int(f.group(1)) if f else 0, "summary": outt.strip().splitlines()[-1]}
            shutil.rmtree(wt / "_out", ignore_errors=True)
            caught = {}
            for p in props:
                rcc, outc = sh(["./check", p, "--no-lean"], cwd=VERIF, timeout=1500, env={"REPID_REPO": str(wt)})
                viol = [l for l in outc.splitlines() if l.startswith("VIOLATION")]
                replay = None
                if viol:
                    mm = re.search(r"replay=(\S+)", viol[0])
                    if mm and (VERIF / mm.group(1)).exists():
                        try:
                            r = json.loads((VERIF / mm.group(1)).read_text())
                            replay = {"kind": r.get("kind"), "what": r.get("theorem_or_comparison")}
                        except Exception:  # noqa: BLE001
                            replay = None
                caught[p] = {"cmd": f"REPID_REPO=<worktree with patch> ./check {p} --no-lean", "rc": rcc, "violation_line": viol[:1],
                             "first_problem": replay, "no_failing_input_found": any("no-failing-input-found" in v for v in viol)}
            meta["confirmed"]["checks"] = caught
    finally:
        sh(["git", "-C", "/repo", "worktree", "remove", "--force", str(wt)])
    c = meta["confirmed"]
    ok = (c.get("patch_applies") and c["demo_on_unchanged_tree"]["rc"] == 0 and c["demo_with_change"]["rc"] != 0
          and c["test_suite"]["passed"] == 194)
    meta["kept"] = bool(ok)
    meta["caught_by"] = [p for p, v in c.get("checks", {}).items() if v["rc"] == 1 and v["violation_line"]]
    dst = VERIF / "seeded" / f"{prop}-{var}"
    if ok:
        dst.mkdir(parents=True, exist_ok=True)
        shutil.copy(patch, dst / "patch.diff")
        shutil.copy(demo, dst / "demo.py")
        (dst / "meta.json").write_text(json.dumps(meta, indent=1))
    else:
        (VERIF / "seeded_staging" / f"{prop}-{var}.rejected.json").write_text(json.dumps(meta, indent=1))
    print(f"{prop}-{var}: kept={ok} caught_by={meta['caught_by']} demo0={c['demo_on_unchanged_tree']['rc']} "
          f"demo1={c.get('demo_with_change', {}).get('rc')} tests={c.get('test_suite', {}).get('passed')} applies={c.get('patch_applies')}")
    return 0


if __name__ == "__main__":
    sys.exit(main())
