/-
Key encodings of the Redis broker and the bucket-reference marker (code-model over `List Char`).
Anchors: repid/connections/redis/utils.py:55-116 (qnc, mnc, full_message_name_from_short,
get_queue_marker, parse_short_message_name, parse_message_name), redis/consumer.py:196 (topic prefix
match), repid/_utils/args_bucket_in_message_id.py, repid/_utils/regex_validators.py.
-/
import RepidModel.Generated.Config

namespace Repid.Codec.Names

abbrev Str := List Char

/-- `s.split(":")` -/
def splitColon : Str → List Str
  | [] => [[]]
  | c :: rest =>
    match splitColon rest with
    | [] => [[]]          -- unreachable: splitColon never returns []
    | hd :: tl => if c = ':' then [] :: hd :: tl else (c :: hd) :: tl

def join (parts : List Str) : Str :=
  match parts with
  | [] => []
  | [p] => p
  | p :: rest => p ++ ':' :: join rest

structure Key where
  id : Str
  topic : Str
  queue : Str
  priority : Str        -- decimal digits of the priority
  deriving Repr, DecidableEq, Inhabited

/-- `qnc(queue, priority, delayed=…, dead=…)` -/
def qnc (queue priority : Str) (delayed dead : Bool) : Str :=
  join [['q'], queue, priority, if dead then "dead".toList else if delayed then ['d'] else ['n']]

/-- `mnc(key, short=…)` -/
def mnc (k : Key) (short : Bool) : Str :=
  if short then join [k.topic, k.id] else join [['m'], k.queue, k.priority, k.topic, k.id]

/-- `parse_short_message_name`: `topic, id_ = short_name.split(":")` (ValueError unless two parts) -/
def parseShort (s : Str) : Option (Str × Str) :=
  match splitColon s with
  | [t, i] => some (t, i)
  | _ => none

/-- `parse_message_name`: `_, queue, priority, topic, id_ = name.split(":")` → (id, topic, queue, priority) -/
def parseFull (s : Str) : Option (Str × Str × Str × Str) :=
  match splitColon s with
  | [_, q, p, t, i] => some (i, t, q, p)
  | _ => none

/-- `full_message_name_from_short(short, full_queue_name)`: `_, queue, priority, _ = fq.split(":")` -/
def fullFromShort (short fq : Str) : Option Str :=
  match splitColon fq with
  | [_, q, p, _] => some (join [['m'], q, p, short])
  | _ => none

/-- `get_queue_marker`: last component of the full queue name -/
def queueMarker (fq : Str) : Option Str := (splitColon fq).getLast?

def isPrefix : Str → Str → Bool
  | [], _ => true
  | _ :: _, [] => false
  | a :: as, b :: bs => a == b && isPrefix as bs

/-- topic filter of the Redis consumer: `short_name.startswith(topic + ":")` -/
def topicMatches (topic short : Str) : Bool := isPrefix (topic ++ [':']) short

/-! ### character classes extracted from VALID_NAME / VALID_ID -/

def inRanges (rs : List (Nat × Nat)) (c : Char) : Bool := rs.any fun r => r.1 ≤ c.toNat && c.toNat ≤ r.2

def nameOk : Str → Bool
  | [] => false
  | c :: rest => inRanges Config.nameFirst c && rest.all (inRanges Config.nameRest)

def idOk : Str → Bool
  | [] => false
  | c :: rest => inRanges Config.idFirst c && rest.all (inRanges Config.idRest)

def noColon (s : Str) : Bool := s.all (· != ':')

/-! ### bucket reference marker -/

def bucketKey : Str := Config.bucketKey.toList

/-- `_ArgsBucketInMessageId.construct(id)` = `{"__repid_payload_id":"<id>"}` (no escaping needed for
    ids accepted by VALID_ID) -/
def markerConstruct (id : Str) : Str :=
  "{\"".toList ++ bucketKey ++ "\":\"".toList ++ id ++ "\"}".toList

def findFrom (needle : Str) : Nat → Str → Bool
  | 0, hay => isPrefix needle hay
  | n + 1, hay => isPrefix needle hay || (match hay with | [] => false | _ :: t => findFrom needle n t)

/-- `string.find(KEY, 0, len(KEY) + 3) != -1`: KEY starts at offset 0…3 -/
def markerCheck (s : Str) : Bool := findFrom bucketKey 3 s

/-- `json.loads(s).get(KEY)` for strings of the shape produced by `markerConstruct` -/
def markerDeconstruct (s : Str) : Option Str :=
  let pre := "{\"".toList ++ bucketKey ++ "\":\"".toList
  if isPrefix pre s then
    let rest := s.drop pre.length
    if rest.length ≥ 2 ∧ rest.drop (rest.length - 2) = "\"}".toList then some (rest.take (rest.length - 2)) else none
  else none

end Repid.Codec.Names
