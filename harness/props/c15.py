"""C15 — within a queue and priority, delivery is first-in first-out (in-memory broker).

Tie: single-consumer sessions with distinguishable messages, queue lengths 1…35, own and foreign
topics mixed, enqueue/consume interleavings with a continuously non-empty backlog, rejects;
`Pred.C15.inOrder` on (enqueue order, delivery order) of the never-returned matching messages, the
"returned before later arrivals" clause, and snapshot correspondence with the code-model."""
from __future__ import annotations

import implenv  # noqa: F401

import memrun
import vtime
from common import A, Model, Result, Rng, sx
from memrun import S, MemSession, compare_with_model
from vtime import CLOCK

RULE = ("single-consumer sessions: backlog sizes 1…35, fraction of foreign-topic messages 0–60 %, random interleaving "
        "of enqueue / consume(polls 1…40) / ack / reject; a case = one delivery, distinct by (backlog size class, "
        "foreign messages in front, was it returned before)")
ASSUMPTIONS = ["one consumer per queue (the statement is about a single consumer); equal priority; immediately deliverable messages"]


async def fifo_session(rng: Rng, n_ops: int) -> MemSession:
    s = MemSession()
    await s.declare("q0")
    own = rng.choice([None, ["ta"], ["ta", "tc"]])
    await s.start(0, "q0", "NORMAL", own)
    nid = 0
    burst = rng.choice([1, 3, 12, 35])
    foreign_p = rng.choice([0.0, 0.2, 0.6]) if own else 0.0
    for _ in range(burst):
        nid += 1
        topic = "tb" if rng.random() < foreign_p else rng.choice(own or ["ta", "tb"])
        await s.enqueue("q0", f"m{nid:03d}", topic, f"p{nid}", {"ts": CLOCK.us})
    for _ in range(n_ops):
        r = rng.random()
        held = sorted(s.held)
        if r < 0.35:
            nid += 1
            topic = "tb" if rng.random() < foreign_p else rng.choice(own or ["ta", "tb"])
            pd = {"ts": CLOCK.us}
            if rng.random() < 0.25:
                pd["next"] = CLOCK.us - rng.choice([1, 1000, S])     # a retried message whose back-off has elapsed
                pd["max"], pd["tried"] = 3, 1
            await s.enqueue("q0", f"m{nid:03d}", topic, f"p{nid}", pd)
        elif r < 0.75:
            await s.consume(0, rng.choice([1, 2, 5, 40]))
        elif held:
            i = rng.choice(held)
            await s.terminal(rng.choice(["ack", "ack", "reject"]), "q0", i)
        else:
            s.advance(rng.choice([0, 1000]))
    return s


def check_session(s: MemSession, model: Model, res: Result, label: str) -> None:
    own = s.cinfo[0]["topics"]
    enq_order = [op["id"] for op, _, _ in s.log if op["op"] == "enqueue" and (not own or op["topic"] in own)
                 and "next" not in op["params"]]
    ever_returned = set(s.returned)
    deliv = [d["id"] for d in s.deliveries]
    e1 = [i for i in enq_order if i not in ever_returned]
    d1 = [i for i in deliv if i not in ever_returned]
    extra = [sx([A("c15.inOrder"), e1, d1])]
    first_bad, answers, ops = compare_with_model(s, model, res, label, extra)
    for d in s.deliveries:
        qlen = d["log"]
        res.dist["deliver:" + ("returned" if d["id"] in ever_returned else "fresh")] += 1
    for n, d in enumerate(s.deliveries):
        res.note(("deliver", min(len(enq_order), 40) // 5, d["id"] in ever_returned, n % 7))
    if len(res.samples) < 3:
        res.samples.append({"label": label, "topics": own, "enqueue_order": enq_order[:12], "delivery_order": deliv[:12]})
    if answers[0] != "true":
        res.bad("impl", "Pred.C15.inOrder (enqueue order vs delivery order, never-returned matching messages)",
                case={"label": label, "ops": ops, "enqueued": e1, "delivered": d1}, observed=answers[0], expected="true")
    # a returned message is delivered again no later than messages enqueued after its return
    if True:
        pos = {}
        for n, d in enumerate(s.deliveries):
            pos.setdefault(d["id"], []).append((n, d["log"]))
        for r_id, r_log in s.returned.items():
            redeliv = [n for n, lg in pos.get(r_id, []) if lg > r_log]
            later = [op["id"] for idx, (op, _, _) in enumerate(s.log)
                     if op["op"] == "enqueue" and idx > r_log and (not own or op["topic"] in own)]
            for e in later:
                e_pos = [n for n, lg in pos.get(e, [])]
                if e_pos and (not redeliv or min(e_pos) < min(redeliv)):
                    res.bad("impl", "a returned message was overtaken by a message enqueued after its return",
                            case={"label": label, "ops": ops, "returned": r_id, "overtaken_by": e}, observed="overtaken",
                            expected="returned message first")
                    return


def run(ctx) -> Result:
    tier, seed = ctx["tier"], ctx["seed"]
    res = Result("C15")
    model = Model()
    deep = tier == "thorough" or ctx.get("search")
    for i in range(500 if deep else 80):
        rng = Rng(seed, f"c15/{i}")
        s = vtime.run(lambda loop, r=rng: fifo_session(r, 120 if deep else 50), budget=1_000_000)
        check_session(s, model, res, f"fifo-{seed}-{i}")
    # Redis broker: sessions on the real RedisMessageBroker/_RedisConsumer (in-process fake server) vs the Lean model
    # Redis.R, and this property's clauses on what the implementation did
    import redisrun
    res.merge(redisrun.part(ctx, "C15", ['fifo', 'backlog', 'mixed', 'backlog', 'dup', 'dup'], crash=0, race=0))
    res.assumptions = list(getattr(res, "assumptions", []) or []) + redisrun.ASSUMPTIONS
    # RabbitMQ broker: sessions on the real RabbitMessageBroker/_RabbitConsumer (in-process fake AMQP server) vs Rabbit.S
    import rabbitrun
    res.merge(rabbitrun.part(ctx, "C15", ['fifo', 'fifo', 'mixed'], specials=[]))
    res.assumptions = list(res.assumptions) + rabbitrun.ASSUMPTIONS
    return res


def search(ctx) -> Result:
    return run(dict(ctx, tier="thorough"))
