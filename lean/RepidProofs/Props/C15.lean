/-
C15 — Within a queue and priority, delivery is first-in first-out (in-memory broker, one consumer).

`view topics q` = the waiting messages this consumer wants, in queue order.  Every atom either
leaves the view alone, removes its head (delivery, or expiry of that head), or appends to its end.
-/
import RepidModel.Pred.Broker
import RepidProofs.Proofs.MemStep

namespace Repid.C15
open Repid Mem

def view (topics : List String) (q : Q) : List Msg := q.simple.filter (wants topics)

/-- One normal poll by the consumer with topic set `topics`:
    it delivers exactly the head of the view, or expires the queue head (dropping it from the view
    if it was in it), or rotates a foreign head (view unchanged). -/
theorem pollNormal_view (q : Q) (now : Int) (topics : List String) :
    let r := pollNormal q now topics
    (∃ m rest, view topics q = m :: rest ∧ r.1 = some m ∧ view topics r.2 = rest) ∨
    (r.1 = none ∧ view topics r.2 = view topics q) ∨
    (∃ m rest, view topics q = m :: rest ∧ r.1 = none ∧ view topics r.2 = rest ∧
        m.params.isOverdue now = true) := by
  simp only [pollNormal, view]
  cases hs : q.simple with
  | nil => right; left; simp [hs]
  | cons x xs =>
    simp only []
    by_cases h1 : x.params.isOverdue now = true
    · by_cases hw : wants topics x = true
      · right; right; exact ⟨x, xs.filter (wants topics), by simp [hw], by simp [h1], by simp [h1], h1⟩
      · right; left; simp [h1, hw]
    · by_cases hw : wants topics x = true
      · left; exact ⟨x, xs.filter (wants topics), by simp [hw], by simp [h1, hw], by simp [h1, hw]⟩
      · right; left; simp [h1, hw]

/-- `mem_fifo`: a delivered message is the OLDEST waiting message the consumer wants — nothing that
    entered the view later can overtake it. -/
theorem mem_fifo (q : Q) (now : Int) (topics : List String) (m : Msg)
    (h : (pollNormal q now topics).1 = some m) : (view topics q).head? = some m := by
  have := pollNormal_view q now topics
  simp only at this
  rcases this with ⟨m', rest, hv, hr, _⟩ | ⟨hr, _⟩ | ⟨m', rest, _, hr, _⟩
  · rw [hr] at h; injection h with h; subst h; simp [hv]
  · rw [hr] at h; cases h
  · rw [hr] at h; cases h

/-- every other atom only ever appends to the consumer's view (enqueue, reject, finish, the move of
    due delayed messages) or leaves it alone — relative order of waiting messages never changes. -/
theorem other_atoms_append (cron : String → Int → Int) (q : Q) (op : Op) (topics : List String)
    (hop : ∀ c now tp, op ≠ .poll c .normal now tp) :
    ∃ new, view topics (step cron q op) = view topics q ++ new := by
  cases op with
  | put x now =>
    simp only [step, put, view]; split
    · exact ⟨[], by simp⟩
    · exact ⟨[{ x with due := none }].filter (wants topics), by simp⟩
  | ack i => simp only [step, ackA, view]; split <;> exact ⟨[], by simp⟩
  | nack i => simp only [step, nackA, view]; split <;> exact ⟨[], by simp⟩
  | unhold i => simp only [step, unholdA, view]; split <;> exact ⟨[], by simp⟩
  | reject i =>
    simp only [step, rejectA, view]; split
    · next h _ => exact ⟨[h.msg].filter (wants topics), by simp⟩
    · exact ⟨[], by simp⟩
  | reput x now =>
    simp only [step, reputA, put, view]; split
    · exact ⟨[], by simp⟩
    · exact ⟨[{ x with due := none }].filter (wants topics), by simp⟩
  | update now =>
    exact ⟨(delayedMsgs (q.delayed.filter (fun e => decide (e.1 < now)))).filter (wants topics),
      by simp only [step, updateDelayed, view, List.filter_append]⟩
  | finish c perm =>
    simp only [step]; split
    · exact ⟨(perm.map (·.msg)).filter (wants topics), by simp only [finishA, view, List.filter_append]⟩
    · exact ⟨[], by simp⟩
  | poll c cat now tp =>
    cases cat with
    | normal => exact absurd rfl (hop c now tp)
    | delayed =>
      refine ⟨[], ?_⟩
      simp only [step, pollTake, poll, pollDelayed, view]
      cases hk : minKey q.delayed with
      | none => simp
      | some t => simp only []; cases hp : (popAt q.delayed t).1 <;> simp
    | dead =>
      refine ⟨[], ?_⟩
      simp only [step, pollTake, poll, pollDead, view]
      cases hd : q.dead <;> simp

/-- `mem_return_before_later`: a rejected message is back in the view before anything enqueued
    after the reject (it is appended at the moment of the reject; later arrivals go behind it). -/
theorem mem_return_before_later (cron : String → Int → Int) (q : Q) (i : String) (h : Held) (x : Msg)
    (now : Int) (topics : List String) (hheld : findHeld q i = some h) (hw : wants topics h.msg = true)
    (himm : x.params.waitUntil now cron = none) (hwx : wants topics x = true) :
    view topics (put (rejectA q i) x now cron) = view topics q ++ [h.msg, { x with due := none }] := by
  have hwx' : wants topics { x with due := none } = true := by simpa [wants] using hwx
  simp [put, himm, rejectA, hheld, view, List.filter_append, hw, hwx']

-- Non-vacuity: a two-message queue with a foreign head.
example :
    let a : Msg := { id := "a", topic := "tb" }
    let b : Msg := { id := "b", topic := "ta" }
    let q : Q := { simple := [a, b] }
    view ["ta"] q = [b] ∧ (pollNormal q 0 ["ta"]).1 = none ∧
    (pollNormal (pollNormal q 0 ["ta"]).2 0 ["ta"]).1 = some b := by decide

end Repid.C15
