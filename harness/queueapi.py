"""The public Queue API (`Queue.get_messages`, an async generator around `async with consumer`) on every broker kind.
Used by props/c01.py (what a consumer that is closed or cancelled leaves behind) and props/c12.py (dead letters stay
retrievable through the API).  The workers never go this way (they call start()/finish() themselves), so this is the only
place where `ConsumerT.__aenter__/__aexit__` and the generator's own code run."""
import implenv  # noqa: F401

import asyncio
import types

import fake_amqp
import fake_redis
import vtime
from common import Result
from vtime import CLOCK
from workrun import S, WorkerRun

fake_redis.install()
fake_amqp.install()

from repid import Connection, InMemoryMessageBroker, MessageCategory, Queue, RabbitMessageBroker, RedisMessageBroker  # noqa: E402
from repid.data._key import RoutingKey  # noqa: E402
from repid.data._parameters import Parameters  # noqa: E402

KINDS = ("memory", "redis", "rabbit")
F24 = "F24-redis-finish-leaves-fetch-in-flight"


def _mk(kind: str):
    fake_redis.reset_servers()
    fake_amqp.reset_servers()
    broker = {"memory": InMemoryMessageBroker, "redis": lambda: RedisMessageBroker("redis://workrun"),
              "rabbit": lambda: RabbitMessageBroker("amqp://workrun")}[kind]()
    conn = Connection(broker)
    view = types.SimpleNamespace(broker_kind=kind, broker=broker)
    return broker, conn, (lambda q="qa": {k: [h["place"] for h in v] for k, v in WorkerRun.msg_params(view, q).items()})


async def _enq(broker, mid: str, params: Parameters | None = None) -> None:
    await broker.enqueue(RoutingKey(id_=mid, topic="t", queue="qa"), "{}", params or Parameters())


async def cancelled_reader(kind: str) -> dict:
    """a task reads the queue through the API and acknowledges what it gets; it is cancelled while waiting for more; messages
    enqueued afterwards must simply wait (nobody listens any more)"""
    broker, conn, places = _mk(kind)
    await conn.connect()
    await broker.queue_declare("qa")
    for i in range(3):
        await _enq(broker, f"a{i}")
    got: list = []

    async def reader():
        async for msg in Queue("qa", _connection=conn).get_messages():
            got.append(msg.key.id_)
            await msg.ack()
    t = asyncio.ensure_future(reader())
    await asyncio.sleep(1.5)
    t.cancel()
    await asyncio.gather(t, return_exceptions=True)
    await asyncio.sleep(0.3)
    for i in range(2):
        await _enq(broker, f"late{i}")
    await asyncio.sleep(2.0)
    out = {"broker": kind, "read": sorted(got), "places": places()}
    await conn.disconnect()
    return out


async def closed_iteration(kind: str) -> dict:
    """the caller takes one message from the iteration, settles it and stops iterating (the generator is closed)"""
    broker, conn, places = _mk(kind)
    await conn.connect()
    await broker.queue_declare("qa")
    for i in range(4):
        await _enq(broker, f"c{i}")
    agen = Queue("qa", _connection=conn).get_messages()
    first = await asyncio.wait_for(agen.__anext__(), 5)
    await first.ack()
    await agen.aclose()
    await asyncio.sleep(0.5)
    await _enq(broker, "later")
    await asyncio.sleep(1.5)
    out = {"broker": kind, "first": first.key.id_, "places": places()}
    await conn.disconnect()
    return out


async def held_when_cancelled() -> dict:
    """in-memory broker: the reader holds a message (has not settled it) when it is cancelled inside the block — the
    consumer's finish() gives back what the queue still counts as in flight"""
    broker, conn, places = _mk("memory")
    await broker.queue_declare("qa")
    await _enq(broker, "h0")

    async def reader():
        async for _msg in Queue("qa", _connection=conn).get_messages():
            await asyncio.sleep(3600)
    t = asyncio.ensure_future(reader())
    await asyncio.sleep(0.5)
    t.cancel()
    await asyncio.gather(t, return_exceptions=True)
    await asyncio.sleep(0.1)
    return {"broker": "memory", "places": places()}


async def dead_letters_readable(kind: str) -> dict:
    """a message whose time-to-live runs out is dead-lettered by the normal reader and can then be read through
    get_messages(category=DEAD)"""
    broker, conn, places = _mk(kind)
    await conn.connect()
    await broker.queue_declare("qa")
    await _enq(broker, "x1", Parameters(ttl=vtime.us_td(1 * S)))
    await _enq(broker, "live", Parameters(ttl=vtime.us_td(3600 * S)))
    await asyncio.sleep(2.5)
    normal, dead = [], []

    async def read(category, into):
        async for msg in Queue("qa", _connection=conn).get_messages(category=category):
            into.append(msg.key.id_)
            if category == MessageCategory.NORMAL:
                await msg.ack()
    t = asyncio.ensure_future(read(MessageCategory.NORMAL, normal))
    await asyncio.sleep(1.5)
    t.cancel()
    await asyncio.gather(t, return_exceptions=True)
    after_normal = places()
    t = asyncio.ensure_future(read(MessageCategory.DEAD, dead))
    await asyncio.sleep(2.0)
    t.cancel()
    await asyncio.gather(t, return_exceptions=True)
    out = {"broker": kind, "normal_reader_got": normal, "places_after_normal_reader": after_normal, "dead_reader_got": dead}
    await conn.disconnect()
    return out


def _run(coro_fn, res: Result, prop: str, label: str):
    try:
        return vtime.run(lambda loop: coro_fn(), budget=3_000_000)
    except vtime.BudgetExhausted:
        res.bad("impl", "reading a queue through Queue.get_messages did not make progress: the real code loops for ever",
                case={"label": label})
        return None


def part_c01(res: Result) -> None:
    for kind in KINDS:
        o = _run(lambda k=kind: cancelled_reader(k), res, "C01", f"queue-api/cancelled-reader/{kind}")
        res.dist["queue-api:cancelled-reader"] += 1
        res.note(("queue-api", "cancelled-reader", kind))
        if o is not None:
            want = {"late0": ["simple"], "late1": ["simple"]}
            if o["read"] != ["a0", "a1", "a2"] or o["places"] != want:
                res.bad("impl", "a reader of Queue.get_messages() that was cancelled left a consumer behind: messages enqueued afterwards "
                                "are taken in flight although nobody reads them (or what it had acknowledged is still there)",
                        case={"label": f"queue-api/cancelled-reader/{kind}"}, observed=o, expected={"read": ["a0", "a1", "a2"], "places": want})
        o = _run(lambda k=kind: closed_iteration(k), res, "C01", f"queue-api/closed-iteration/{kind}")
        res.dist["queue-api:closed-iteration"] += 1
        res.note(("queue-api", "closed-iteration", kind))
        if o is not None:
            want = {"c1": ["simple"], "c2": ["simple"], "c3": ["simple"], "later": ["simple"]}
            if o["first"] != "c0" or o["places"] != want:
                # Redis, known finding F24: finish() cancels the consumer's background fetch; the one message that fetch had just
                # taken (never handed to the caller) stays marked in flight
                off = [k for k in want if o["places"].get(k) != want[k]]
                f24 = (kind == "redis" and o["first"] == "c0" and set(o["places"]) == set(want) and len(off) == 1
                       and off[0] != "later" and o["places"][off[0]] == ["processing"])
                res.bad("impl", "after the caller stopped iterating Queue.get_messages() (generator closed) the consumer's prefetched "
                                "messages were not given back, or it kept taking messages", case={"label": f"queue-api/closed-iteration/{kind}"},
                        observed=o, expected={"first": "c0", "places": want}, finding=F24 if f24 else None)
    o = _run(held_when_cancelled, res, "C01", "queue-api/held-when-cancelled/memory")
    res.dist["queue-api:held-when-cancelled"] += 1
    res.note(("queue-api", "held-when-cancelled"))
    if o is not None and o["places"] != {"h0": ["simple"]}:
        res.bad("impl", "in-memory broker: a message held by a reader that was cancelled inside `async with consumer` was not given "
                        "back by the consumer's finish()", case={"label": "queue-api/held-when-cancelled/memory"}, observed=o,
                expected={"h0": ["simple"]})


def part_c12(res: Result) -> None:
    for kind in KINDS:
        o = _run(lambda k=kind: dead_letters_readable(k), res, "C12", f"queue-api/dead-letters/{kind}")
        res.dist["queue-api:dead-letters"] += 1
        res.note(("queue-api", "dead-letters", kind))
        if o is None:
            continue
        if o["normal_reader_got"] != ["live"] or o["places_after_normal_reader"] != {"x1": ["dead"]}:
            res.bad("impl", "Queue.get_messages(): an expired message was handed out / not dead-lettered, or a live one was not delivered",
                    case={"label": f"queue-api/dead-letters/{kind}"}, observed=o,
                    expected={"normal_reader_got": ["live"], "places_after_normal_reader": {"x1": ["dead"]}})
        elif o["dead_reader_got"][:1] != ["x1"]:
            res.bad("impl", "a dead-lettered (expired) message cannot be retrieved with Queue.get_messages(category=DEAD)",
                    case={"label": f"queue-api/dead-letters/{kind}"}, observed=o, expected={"dead_reader_got": ["x1"]})


async def overlapping_iterations(kind: str) -> dict:
    """one Queue object, two iterations that overlap in time: the dead letters, and the waiting messages.  Every handle keeps
    the category of the iteration it came from (nack / retry are refused for a dead letter)"""
    broker, conn, places = _mk(kind)
    await conn.connect()
    await broker.queue_declare("qa")
    for i in range(3):
        await _enq(broker, f"d{i}")
    # dead-letter d0..d2: read and nack them
    n = 0
    async for msg in Queue("qa", _connection=conn).get_messages():
        await msg.nack()
        n += 1
        if n == 3:
            break
    await asyncio.sleep(0.3)
    for i in range(2):
        await _enq(broker, f"n{i}")
    q = Queue("qa", _connection=conn)
    dead_iter = q.get_messages(category=MessageCategory.DEAD)
    h0 = await asyncio.wait_for(dead_iter.__anext__(), 5)
    normal_iter = q.get_messages()
    n0 = await asyncio.wait_for(normal_iter.__anext__(), 5)
    h1 = await asyncio.wait_for(dead_iter.__anext__(), 5)
    out = {"broker": kind, "dead_handles": [h0.key.id_, h1.key.id_], "normal_handle": n0.key.id_, "refused": []}
    for h in (h0, h1):
        for api in ("nack", "retry", "force_retry"):
            try:
                await getattr(h, api)()
                out["refused"].append([h.key.id_, api, "accepted"])
            except ValueError as e:
                out["refused"].append([h.key.id_, api, "refused"])
    await n0.ack()
    await dead_iter.aclose()
    await normal_iter.aclose()
    await asyncio.sleep(0.3)
    out["places"] = places()
    await conn.disconnect()
    return out


def part_c16(res: Result) -> None:
    for kind in KINDS:
        o = _run(lambda k=kind: overlapping_iterations(k), res, "C16", f"queue-api/overlapping-iterations/{kind}")
        res.dist["queue-api:overlapping-iterations"] += 1
        res.note(("queue-api", "overlapping-iterations", kind))
        if o is None:
            continue
        bad = [r for r in o["refused"] if r[2] != "refused"]
        if bad or sorted(o["dead_handles"]) != sorted(set(o["dead_handles"])) or not all(i.startswith("d") for i in o["dead_handles"]):
            res.bad("impl", "a handle taken from the dead-letter iteration of a Queue accepted nack / retry / force_retry (two iterations "
                            "of one Queue object overlapping in time)", case={"label": f"queue-api/overlapping-iterations/{kind}"},
                    observed=o, expected="nack, retry and force_retry refused for both dead-letter handles")

