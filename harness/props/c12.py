"""C12 — expired messages are never executed; live ones are never dropped (in-memory broker).

Tie: (i) random sessions: correspondence + `Pred.C12.notExpiredAt` on every normal delivery +
"live never dropped" on every message that newly appears among the dead letters;
(ii) boundary scenarios: TTL ∈ {1 s, 2 s, 1 h}; the delivering poll placed at expiry −1 µs / exactly /
+1 µs; immediate, delayed (due before/after expiry), retried (TTL clock kept) and rescheduled (TTL
clock restarted) messages; an expired message must end among the dead letters and be retrievable
through the DEAD category."""
from __future__ import annotations

import implenv  # noqa: F401

import memrun
import vtime
from common import NONE, A, Model, Result, Rng, sx
from memrun import S, MemSession, compare_with_model
from vtime import CLOCK, td_us, to_us

RULE = ("(i) random sessions (see C01): a case = one normal delivery or one dead-lettering event; "
        "(ii) exhaustive boundary table: ttl × {immediate, delayed-before, delayed-after, retried, rescheduled} × "
        "offset of the delivering poll from the expiry instant ∈ {−1 µs, 0, +1 µs, +1 s}")
ASSUMPTIONS = ["expiry is decided at the instant of the poll that would deliver the message (in-memory broker)"]


def opt(x):
    return NONE if x is None else x


def check_session(s: MemSession, model: Model, res: Result, label: str) -> None:
    extra, meta = [], []
    for d in s.deliveries:
        if d["cat"] == "NORMAL":
            extra.append(sx([A("c12.notExpiredAt"), d["at"], d["ts"], opt(d["ttl"])]))
            meta.append(("deliver", d))
    for e in s.dead_events:
        if e["op"] == "nack" and e["op_id"] == e["id"]:
            res.dist["dead:nack"] += 1
            continue
        # dead-lettered by a consumer: it must have been overdue by the end of that call
        extra.append(sx([A("c12.notExpiredAt"), e["at"], e["ts"], opt(e["ttl"])]))
        meta.append(("dead", e))
    first_bad, answers, ops = compare_with_model(s, model, res, label, extra)
    for (kind, d), ans in zip(meta, answers):
        if kind == "deliver":
            cls = "no-ttl" if d["ttl"] is None else ("ttl-far" if d["at"] < d["ts"] + d["ttl"] - S else "ttl-near")
            res.dist["deliver:" + cls] += 1
            res.note(("deliver", cls, d["at"] - d["ts"] - (d["ttl"] or 0) if d["ttl"] else 0))
            if ans != "true":
                res.bad("impl", "Pred.C12.notExpiredAt: an expired message was handed to a normal consumer",
                        case={"label": label, "ops": ops[: d["log"] + 1], "delivery": d}, observed=ans, expected="true")
        else:
            res.dist["dead:expired"] += 1
            res.note(("dead", d["op"], d["at"] - d["ts"] - (d["ttl"] or 0)))
            if ans != "false":
                res.bad("impl", "a message still within its time-to-live was dead-lettered",
                        case={"label": label, "ops": ops, "event": d}, observed="dead-lettered, notExpiredAt=" + ans,
                        expected="stays deliverable")


TTLS = [S, 2 * S, 3600 * S]
KINDS = ["immediate", "delayed-before", "delayed-after", "retried", "rescheduled"]
OFFS = [-1, 0, 1, S]


async def boundary(kind: str, ttl: int, off: int) -> dict:
    s = MemSession()
    await s.declare("q0")
    await s.start(0, "q0", "NORMAL", None)
    await s.start(1, "q0", "DEAD", None)
    t0 = CLOCK.us
    ts = t0
    if kind == "immediate":
        await s.enqueue("q0", "m", "ta", "p", {"ts": t0, "ttl": ttl})
    elif kind == "delayed-before":
        await s.enqueue("q0", "m", "ta", "p", {"ts": t0, "ttl": ttl, "next": t0 + ttl // 2})
    elif kind == "delayed-after":
        await s.enqueue("q0", "m", "ta", "p", {"ts": t0, "ttl": ttl, "next": t0 + ttl + 500_000})
    else:
        await s.enqueue("q0", "m", "ta", "p", {"ts": t0, "ttl": ttl, "max": 3, **({"defer_by": S, "next": t0 - 1} if kind == "rescheduled" else {})})
        got = await s.consume(0, 1)
        assert got is not None
        key, payload, params = got
        CLOCK.advance(300_000)
        if kind == "retried":
            newp = params._prepare_retry(vtime.us_td(200_000))
        else:
            newp = params._prepare_reschedule()
            ts = CLOCK.us
        pd = {"ts": to_us(newp.timestamp), "ttl": td_us(newp.ttl), "max": newp.retries.max_amount,
              "tried": newp.retries.already_tried, "next": to_us(newp.delay.next_execution_time),
              "defer_by": td_us(newp.delay.defer_by)}
        await s.enqueue("q0", "m", "ta", "p", pd, requeue=True)
    expiry = ts + ttl
    due = s.due.get("m")
    target = expiry + off
    if due is not None and target <= due:
        target = due + 1              # cannot be delivered before it is due; go to the first instant it can
    CLOCK.advance_to(target)
    at = CLOCK.us
    got = await s.consume(0, 1)
    dead_got = None
    if got is None:
        dead_got = await s.consume(1, 1)
    return {"session": s, "kind": kind, "ttl": ttl, "off": off, "ts": ts, "poll_at": at,
            "delivered": got is not None, "dead_retrieved": dead_got is not None and dead_got[0].id_ == "m"}


def check_boundary(o: dict, model: Model, res: Result) -> None:
    s = o["session"]
    label = f"boundary-{o['kind']}-ttl{o['ttl']}-off{o['off']}"
    case = {"label": label, "kind": o["kind"], "ttl_us": o["ttl"], "offset_from_expiry_us": o["poll_at"] - o["ts"] - o["ttl"],
            "timestamp_us": o["ts"], "poll_at_us": o["poll_at"]}
    req = sx([A("c12.notExpiredAt"), o["poll_at"], o["ts"], o["ttl"]])
    first_bad, answers, ops = compare_with_model(s, model, res, label, [req])
    live = answers[0] == "true"
    res.dist[f"boundary:{o['kind']}:{'live' if live else 'expired'}"] += 1
    res.note(("boundary", o["kind"], o["ttl"], o["off"]), sample=case if len(res.samples) < 4 else None)
    if o["delivered"] and not live:
        res.bad("impl", "an expired message was delivered", case=case, observed="delivered", expected="dead-lettered")
    if not o["delivered"] and live:
        res.bad("impl", "a live message was not delivered (dropped or dead-lettered)", case=case,
                observed="not delivered; retrievable from dead: %s" % o["dead_retrieved"], expected="delivered")
    if not o["delivered"] and not live and not o["dead_retrieved"]:
        res.bad("impl", "an expired message is not retrievable through the DEAD category", case=case,
                observed="not in dead", expected="retrievable from dead")


async def idle_consumer(ttl: int, listen_off: int, enq_off: int, via: str) -> dict:
    """A consumer already waiting inside consume(); a message created at T (TTL clock) reaches the
    normal queue at T+enq_off (late enqueue, or reject of a held message)."""
    import asyncio
    s = MemSession()
    await s.declare("q0")
    await s.start(0, "q0", "NORMAL", None)
    await s.start(1, "q0", "NORMAL", None)
    T = CLOCK.us
    if via == "reject":
        await s.enqueue("q0", "m", "ta", "p", {"ts": T, "ttl": ttl})
        got = await s.consume(1, 1)
        assert got is not None
    CLOCK.advance(listen_off)
    got: list = []

    async def consumer():
        key, payload, params = await s.consumers[0].consume()
        got.append((key.id_, CLOCK.us))

    task = asyncio.ensure_future(consumer())
    await asyncio.sleep(max(0, (T + enq_off - CLOCK.us)) / 1e6)
    arrived = CLOCK.us
    if via == "reject":
        await s.terminal("reject", "q0", "m")
    else:
        await s.enqueue("q0", "m", "ta", "p", {"ts": T, "ttl": ttl})
    try:
        await asyncio.wait_for(asyncio.shield(task), timeout=1.5)
    except asyncio.TimeoutError:
        pass
    task.cancel()
    await asyncio.gather(task, return_exceptions=True)
    dead = [m.key.id_ for m in s.broker.queues["q0"].dead]
    return {"ttl": ttl, "listen_off": listen_off, "enq_off": enq_off, "via": via, "T": T, "arrived": arrived,
            "got": got, "dead": dead}


def check_idle(o: dict, model: Model, res: Result) -> None:
    case = {"label": "idle-consumer", "ttl_us": o["ttl"], "consumer_waiting_since_us": o["listen_off"],
            "message_reaches_queue_at_us": o["enq_off"], "via": o["via"]}
    at = o["got"][0][1] if o["got"] else o["arrived"] + 1000
    live = model.ask1(sx([A("c12.notExpiredAt"), at, o["T"], o["ttl"]])) == "true"
    res.extra["model_requests"] = res.extra.get("model_requests", 0) + 1
    res.dist[f"idle:{o['via']}:{'live' if live else 'expired'}"] += 1
    res.note(("idle", o["via"], o["ttl"], o["listen_off"], o["enq_off"]))
    if o["got"] and not live:
        res.bad("impl", "an expired message was delivered to a waiting consumer", case=case,
                observed={"delivered_at_us": at}, expected="dead-lettered")
    if not o["got"] and live:
        res.bad("impl", "a live message was not delivered to a waiting consumer", case=case,
                observed={"dead": o["dead"]}, expected="delivered")
    if not o["got"] and not live and "m" not in o["dead"]:
        res.bad("impl", "an expired message did not end among the dead letters", case=case,
                observed={"dead": o["dead"]}, expected="in dead")


def run(ctx) -> Result:
    tier, seed = ctx["tier"], ctx["seed"]
    res = Result("C12")
    model = Model()
    deep = tier == "thorough" or ctx.get("search")
    for i in range(300 if deep else 50):
        rng = Rng(seed, f"c12/{i}")
        s = vtime.run(lambda loop, r=rng: memrun.random_session(r, 60 if deep else 40, profile="ttl"), budget=500_000)
        check_session(s, model, res, f"session-{seed}-{i}")
    for kind in KINDS:
        for ttl in TTLS:
            for off in OFFS:
                o = vtime.run(lambda loop, k=kind, t=ttl, f=off: boundary(k, t, f), budget=500_000,
                              start_us=Rng(seed, f"c12/b/{kind}{ttl}{off}").randrange(0, 10**9))
                check_boundary(o, model, res)
    for via in ("enqueue", "reject"):
        for ttl in (S, 2 * S):
            for listen_off in (0, 350_000, 600_000, 990_000):
                for d in (-400_000, -1, 0, 1, 150_000, 400_000, 900_000):
                    enq_off = ttl + d
                    if enq_off <= listen_off:
                        continue
                    o = vtime.run(lambda loop, a=ttl, b=listen_off, c=enq_off, v=via: idle_consumer(a, b, c, v), budget=2_000_000)
                    check_idle(o, model, res)
    # Redis broker: sessions on the real RedisMessageBroker/_RedisConsumer (in-process fake server) vs the Lean model
    # Redis.R, and this property's clauses on what the implementation did
    import redisrun
    res.merge(redisrun.part(ctx, "C12", ['ttl', 'ttl', 'mixed'], crash=0, race=0))
    res.assumptions = list(getattr(res, "assumptions", []) or []) + redisrun.ASSUMPTIONS
    # RabbitMQ broker: sessions on the real RabbitMessageBroker/_RabbitConsumer (in-process fake AMQP server) vs Rabbit.S
    import rabbitrun
    res.merge(rabbitrun.part(ctx, "C12", ['ttl', 'ttl', 'mixed'], specials=['prefetch-rabbit', 'prefetch-redis']))
    res.assumptions = list(res.assumptions) + rabbitrun.ASSUMPTIONS
    # the public Queue API on every broker kind (the consumer as a context manager, the generator around it)
    import queueapi
    queueapi.part_c12(res)
    return res


def search(ctx) -> Result:
    return run(dict(ctx, tier="thorough"))
