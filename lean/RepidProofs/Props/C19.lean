/-
C19 — Schedule arithmetic is well-behaved for all inputs.
Property theorems only.  Model: RepidModel/Sched.lean.
-/
import RepidModel.Sched
import RepidModel.Pred.C19

namespace Repid.C19
open Repid Sched

/-- The default back-off stays within `[min_backoff, max_backoff]` for every retry number. -/
theorem backoff_bounds (minB maxB mult maxExp n : Nat) (h : minB ≤ maxB) :
    minB ≤ backoff minB maxB mult maxExp n ∧ backoff minB maxB mult maxExp n ≤ maxB := by
  unfold backoff; constructor <;> omega

/-- Monotonically non-decreasing in the retry number. -/
theorem backoff_mono (minB maxB mult maxExp : Nat) {n m : Nat} (h : n ≤ m) :
    backoff minB maxB mult maxExp n ≤ backoff minB maxB mult maxExp m := by
  unfold backoff
  have h1 : min n maxExp ≤ min m maxExp := by omega
  have h2 : 2 ^ min n maxExp ≤ 2 ^ min m maxExp := Nat.pow_le_pow_right (by omega) h1
  have h3 : mult * 2 ^ min n maxExp ≤ mult * 2 ^ min m maxExp := Nat.mul_le_mul_left _ h2
  omega

/-- "Never overflows": with `max_backoff ≤ 10^9 s` the value handed to `timedelta(seconds=…)` is
    at most `10^9`, far below `timedelta.max` (86 399 999 999 999 s). -/
theorem backoff_no_overflow (minB maxB mult maxExp n : Nat) (h : minB ≤ maxB)
    (hmax : maxB ≤ 1000000000) :
    backoff minB maxB mult maxExp n ≤ 1000000000 ∧
    backoff minB maxB mult maxExp n < 86399999999999 := by
  have := (backoff_bounds minB maxB mult maxExp n h).2
  omega

/-- `now < next ≤ now + period` for every time base, current time and positive period. -/
theorem next_window (ts now p : Int) (hp : 0 < p) :
    now < nextDefer ts now p ∧ nextDefer ts now p ≤ now + p := by
  unfold nextDefer
  have h1 := Int.emod_add_mul_ediv (now - ts) p
  have h2 := Int.emod_nonneg (now - ts) (Int.ne_of_gt hp)
  have h3 := Int.emod_lt_of_pos (now - ts) hp
  simp only [Int.mul_add, Int.mul_one]
  generalize p * ((now - ts) / p) = q at *
  generalize (now - ts) % p = r at *
  omega

/-- The result is a whole number of periods after the time base. -/
theorem next_grid (ts now p : Int) : ∃ k : Int, nextDefer ts now p = ts + k * p :=
  ⟨(now - ts) / p + 1, by unfold nextDefer; rw [Int.mul_comm]⟩

/-- …and that whole number is at least one whenever `now` is not before the time base. -/
theorem next_grid_pos (ts now p : Int) (hp : 0 < p) (h : ts ≤ now) :
    ∃ k : Int, 1 ≤ k ∧ nextDefer ts now p = ts + k * p :=
  ⟨(now - ts) / p + 1, by
    have := Int.ediv_nonneg (show 0 ≤ now - ts by omega) (Int.le_of_lt hp); omega,
   by unfold nextDefer; rw [Int.mul_comm]⟩

/-- `compute_next_execution_time` equals `deferred_until` while that is still ahead. -/
theorem deferred_until_first (p : Params) (now d : Int) (cron : String → Int → Int)
    (hd : p.delay.delayUntil = some d) (h : d > now) : p.computeNext now cron = some d := by
  simp [Params.computeNext, hd, h]

/-- Otherwise a periodic job gets the grid value (to which `next_window`/`next_grid` apply). -/
theorem periodic_next (p : Params) (now per : Int) (cron : String → Int → Int)
    (hd : ∀ d, p.delay.delayUntil = some d → d ≤ now) (hp : p.delay.deferBy = some per) :
    p.computeNext now cron = some (nextDefer p.timestamp now per) := by
  unfold Params.computeNext
  cases hdu : p.delay.delayUntil with
  | none => simp [Params.computeNext.rest, hp]
  | some d =>
    have := hd d hdu
    have : ¬ d > now := by omega
    simp [this, Params.computeNext.rest, hp]

/-- Combined statement of the property's second sentence for periodic jobs with period ≥ 1 s. -/
theorem periodic_next_window (p : Params) (now per : Int) (cron : String → Int → Int)
    (hper : usPerSec ≤ per) (hp : p.delay.deferBy = some per) :
    ∃ t, p.computeNext now cron = some t ∧ now < t ∧
      (t ≤ now + per ∨ p.delay.delayUntil = some t) := by
  have hpos : 0 < per := by unfold usPerSec at hper; omega
  unfold Params.computeNext
  cases hdu : p.delay.delayUntil with
  | none =>
    refine ⟨nextDefer p.timestamp now per, by simp [Params.computeNext.rest, hp], ?_⟩
    have := next_window p.timestamp now per hpos
    exact ⟨this.1, Or.inl this.2⟩
  | some d =>
    by_cases h : d > now
    · exact ⟨d, by simp [h], h, Or.inr rfl⟩
    · refine ⟨nextDefer p.timestamp now per, by simp [h, Params.computeNext.rest, hp], ?_⟩
      have := next_window p.timestamp now per hpos
      exact ⟨this.1, Or.inl this.2⟩

/-- Expiry is decided by `now > timestamp + ttl`; no ttl never expires. -/
theorem overdue_def (now ts : Int) (ttl : Int) : overdue now ts (some ttl) = true ↔ now > ts + ttl := by
  simp [overdue]

theorem overdue_none (now ts : Int) : overdue now ts none = false := rfl

/-- Exactly at expiry is *not* overdue; one microsecond later is. -/
theorem overdue_boundary (ts : Int) (ttl : Int) :
    overdue (ts + ttl) ts (some ttl) = false ∧ overdue (ts + ttl + 1) ts (some ttl) = true := by
  simp [overdue]; omega

-- Non-vacuity: concrete instances of the hypotheses.
example : backoff 10 86400 5 15 1 = 10 ∧ backoff 10 86400 5 15 3 = 40 ∧ backoff 10 86400 5 15 99 = 86400 := by
  decide
example : nextDefer 0 25000000 10000000 = 30000000 ∧ nextDefer 0 30000000 10000000 = 40000000 := by
  decide

end Repid.C19

/-! ### The same statements through the decidable predicates the driver evaluates on
    implementation values (`RepidModel/Pred/C19.lean`). -/
namespace Repid.C19
open Repid Sched Pred.C19

theorem backoffOk_model (minB maxB mult maxExp n : Nat) (h : minB ≤ maxB) (hmax : maxB ≤ 1000000000) :
    backoffOk minB maxB (backoff minB maxB mult maxExp n) = true := by
  have h1 := backoff_bounds minB maxB mult maxExp n h
  have h2 := backoff_no_overflow minB maxB mult maxExp n h hmax
  simp [backoffOk, h1.1, h1.2, h2.2]

theorem monoOk_model (minB maxB mult maxExp n : Nat) :
    monoOk (backoff minB maxB mult maxExp n) (backoff minB maxB mult maxExp (n + 1)) = true := by
  simp [monoOk, backoff_mono minB maxB mult maxExp (Nat.le_succ n)]

theorem nextOk_model (p : Params) (now per : Int) (cron : String → Int → Int)
    (hper : usPerSec ≤ per) (hp : p.delay.deferBy = some per) :
    nextOk p.timestamp now per p.delay.delayUntil (p.computeNext now cron) = true := by
  have hpos : 0 < per := by unfold usPerSec at hper; omega
  have hw := next_window p.timestamp now per hpos
  have hg : gridOk p.timestamp per (nextDefer p.timestamp now per) = true := by
    have : p.timestamp + per * ((now - p.timestamp) / per + 1) - p.timestamp
        = per * ((now - p.timestamp) / per + 1) := by omega
    simp [gridOk, nextDefer, this]
  have hwin : windowOk now per (nextDefer p.timestamp now per) = true := by
    simp [windowOk, hw.1, hw.2]
  unfold Params.computeNext
  cases hdu : p.delay.delayUntil with
  | none => simp [nextOk, Params.computeNext.rest, hp, hwin, hg]
  | some d =>
    by_cases h : d > now
    · simp [nextOk, h]
    · simp [nextOk, h, Params.computeNext.rest, hp, hwin, hg]

theorem overdueOk_model (now ts : Int) (ttl : Option Int) :
    overdueOk now ts ttl (overdue now ts ttl) = true := by
  cases ttl <;> simp [overdueOk, overdue]

end Repid.C19
