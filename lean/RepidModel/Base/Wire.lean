/-
Wire codecs between S-expressions and model structures (driver side of the line protocol).
-/
import RepidModel.Base.Sexp
import RepidModel.Sched

namespace Repid.Wire
open Repid Sexp

def resultOf : Sexp → Option ResultProps
  | .list [.atom "R", i, t] => do
    let id ← toStr? i
    let ttl ← toOpt? toInt? t
    pure { id, ttl }
  | _ => none

def resultTo (r : ResultProps) : Sexp :=
  .list [.atom "R", .str r.id, ofOpt ofInt r.ttl]

/-- `(P timeout result max tried delayUntil deferBy cron next timestamp ttl)` -/
def paramsOf : Sexp → Option Params
  | .list [.atom "P", to, res, mx, tr, du, db, cr, nx, ts, ttl] => do
    let executionTimeout ← toInt? to
    let result ← toOpt? resultOf res
    let maxAmount ← toInt? mx
    let alreadyTried ← toInt? tr
    let delayUntil ← toOpt? toInt? du
    let deferBy ← toOpt? toInt? db
    let cron ← toOpt? (fun | .str s => some s | _ => none) cr
    let nextExecutionTime ← toOpt? toInt? nx
    let timestamp ← toInt? ts
    let ttl ← toOpt? toInt? ttl
    pure { executionTimeout, result, retries := { maxAmount, alreadyTried },
           delay := { delayUntil, deferBy, cron, nextExecutionTime }, timestamp, ttl }
  | _ => none

def paramsTo (p : Params) : Sexp :=
  .list [.atom "P", ofInt p.executionTimeout, ofOpt resultTo p.result,
         ofInt p.retries.maxAmount, ofInt p.retries.alreadyTried,
         ofOpt ofInt p.delay.delayUntil, ofOpt ofInt p.delay.deferBy,
         ofOpt .str p.delay.cron, ofOpt ofInt p.delay.nextExecutionTime,
         ofInt p.timestamp, ofOpt ofInt p.ttl]

/-- The driver has no croniter; requests mentioning cron are refused (`bad-op`), never defaulted. -/
def noCron (p : Params) : Option Unit := if p.delay.cron.isSome then none else some ()

def cronStub : String → Int → Int := fun _ now => now + 1

end Repid.Wire
