"""In-process stand-in for `redis.asyncio.Redis`, covering exactly the calls repid makes.

Assumption set R (DESIGN §3.6): documented single-key semantics; MULTI/EXEC atomic and isolated;
LPUSH inserts at the head, RPUSH at the tail, LRANGE lists head→tail with negative indices from the
tail, LREM key -N v removes the last N occurrences; ZRANGE … BYSCORE LIMIT orders by (score, member);
SET … EXAT expires at that second; SCAN/ZSCAN order is arbitrary (here: insertion order).

One call = one atomic server step behind one scheduling point (`await asyncio.sleep(latency)`), so
concurrent clients interleave exactly at round-trip boundaries.  All clients created for the same
dsn share one `FakeServer`.  Values are bytes, keys are str.
"""
from __future__ import annotations

import asyncio
import fnmatch
import time
from typing import Any


def _b(x: Any) -> bytes:
    if isinstance(x, bytes):
        return x
    if isinstance(x, (int, float)):
        return str(x).encode()
    return str(x).encode()


class FakeServer:
    def __init__(self) -> None:
        self.lists: dict[str, list[bytes]] = {}
        self.zsets: dict[str, dict[bytes, float]] = {}
        self.hashes: dict[str, dict[str, bytes]] = {}
        self.strings: dict[str, tuple[bytes, float | None]] = {}
        self.round_trips = 0
        self.log: list[tuple] = []          # (client id, op, args) per round trip
        self.latency = None                 # callable(client_id, op) -> seconds, or None

    # -- helpers ---------------------------------------------------------------------------
    def keys(self) -> list[str]:
        self._expire()
        return list(self.lists) + list(self.zsets) + list(self.hashes) + list(self.strings)

    def _expire(self) -> None:
        now = time.time()
        for k in [k for k, (_, ex) in self.strings.items() if ex is not None and now >= ex]:
            del self.strings[k]

    def _clean(self) -> None:
        for d in (self.lists, self.zsets, self.hashes):
            for k in [k for k, v in d.items() if not v]:
                del d[k]

    def snapshot(self) -> dict:
        """canonical view of the keyspace (lists head→tail, zsets by (score, member))"""
        self._expire()
        return {
            "lists": {k: [v.decode() for v in vs] for k, vs in sorted(self.lists.items())},
            "zsets": {k: sorted(((m.decode(), s) for m, s in z.items()), key=lambda x: (x[1], x[0])) for k, z in sorted(self.zsets.items())},
            "hashes": {k: {f: v.decode() for f, v in sorted(h.items())} for k, h in sorted(self.hashes.items())},
            "strings": {k: v.decode() for k, (v, _) in sorted(self.strings.items())},
        }

    # -- commands (synchronous, atomic) -------------------------------------------------------
    def cmd(self, op: str, *a: Any, **kw: Any) -> Any:
        # key names may be given as bytes (e.g. what SCAN returned): the server does not distinguish
        if op != "delete" and a and isinstance(a[0], bytes):
            a = (a[0].decode(),) + a[1:]
        if op == "delete":
            a = tuple(x.decode() if isinstance(x, bytes) else x for x in a)
        r = getattr(self, "c_" + op)(*a, **kw)
        self._clean()
        return r

    def c_hsetnx(self, name, key, value):
        h = self.hashes.setdefault(name, {})
        if key in h:
            return 0
        h[key] = _b(value)
        return 1

    def c_hset(self, name, key=None, value=None, mapping=None):
        h = self.hashes.setdefault(name, {})
        n = 0
        if key is not None:
            n += key not in h
            h[key] = _b(value)
        for k, v in (mapping or {}).items():
            n += k not in h
            h[k] = _b(v)
        return n

    def c_hget(self, name, key):
        return self.hashes.get(name, {}).get(key)

    def c_hmget(self, name, keys):
        h = self.hashes.get(name, {})
        return [h.get(k) for k in keys]

    def c_hdel(self, name, *keys):
        h = self.hashes.get(name, {})
        return sum(1 for k in keys if h.pop(k, None) is not None)

    def c_lpush(self, name, *values):
        l = self.lists.setdefault(name, [])
        for v in values:
            l.insert(0, _b(v))
        return len(l)

    def c_rpush(self, name, *values):
        l = self.lists.setdefault(name, [])
        for v in values:
            l.append(_b(v))
        return len(l)

    def c_lrange(self, name, start, end):
        l = self.lists.get(name, [])
        n = len(l)
        if start < 0:
            start = max(n + start, 0)
        if end < 0:
            end = n + end
        end = min(end, n - 1)
        if start > end or start >= n:
            return []
        return list(l[start:end + 1])

    def c_lrem(self, name, count, value):
        l = self.lists.get(name, [])
        v = _b(value)
        removed = 0
        if count < 0:
            i = len(l) - 1
            while i >= 0 and removed < -count:
                if l[i] == v:
                    del l[i]
                    removed += 1
                i -= 1
        else:
            i = 0
            while i < len(l) and (count == 0 or removed < count):
                if l[i] == v:
                    del l[i]
                    removed += 1
                else:
                    i += 1
        return removed

    def c_zadd(self, name, mapping):
        z = self.zsets.setdefault(name, {})
        n = 0
        for m, s in mapping.items():
            n += _b(m) not in z
            z[_b(m)] = float(s)
        return n

    def c_zrem(self, name, *members):
        z = self.zsets.get(name, {})
        return sum(1 for m in members if z.pop(_b(m), None) is not None)

    def _zsorted(self, name):
        return sorted(self.zsets.get(name, {}).items(), key=lambda x: (x[1], x[0]))

    def c_zrange(self, name, start, end, byscore=False, offset=None, num=None, **_kw):
        items = self._zsorted(name)
        if byscore:
            lo = float("-inf") if start in ("-inf", b"-inf") else float(start)
            hi = float("inf") if end in ("+inf", "inf", b"+inf") else float(end)
            sel = [m for m, s in items if lo <= s <= hi]
            if offset is not None and num is not None:
                sel = sel[offset:offset + num]
            return sel
        n = len(items)
        start, end = int(start), int(end)
        if start < 0:
            start = max(n + start, 0)
        if end < 0:
            end = n + end
        end = min(end, n - 1)
        if start > end or start >= n:
            return []
        return [m for m, _ in items[start:end + 1]]

    def c_delete(self, *names):
        n = 0
        for name in names:
            name = name.decode() if isinstance(name, bytes) else name
            for d in (self.lists, self.zsets, self.hashes, self.strings):
                if d.pop(name, None) is not None:
                    n += 1
        return n

    def c_get(self, name):
        self._expire()
        v = self.strings.get(name)
        return None if v is None else v[0]

    def c_set(self, name, value, exat=None, **_kw):
        ex = None
        if exat is not None:
            ex = exat.timestamp() if hasattr(exat, "timestamp") else float(exat)
            ex = float(int(ex))
        self.strings[name] = (_b(value), ex)
        return True

    def c_ping(self):
        return True


_SERVERS: dict[str, FakeServer] = {}


def server_for(dsn: str) -> FakeServer:
    return _SERVERS.setdefault(dsn, FakeServer())


def reset_servers() -> None:
    _SERVERS.clear()
    FakeRedis._next_id = 0


class FakePipeline:
    def __init__(self, client: "FakeRedis", transaction: bool = True) -> None:
        self.client = client
        self.transaction = transaction
        self.buf: list[tuple] = []

    async def __aenter__(self) -> "FakePipeline":
        return self

    async def __aexit__(self, *exc) -> None:
        self.buf = []

    def __getattr__(self, op: str):
        if op.startswith("_"):
            raise AttributeError(op)

        def queue(*a, **kw):
            self.buf.append((op, a, kw))
            return self
        return queue

    async def execute(self) -> list:
        buf, self.buf = self.buf, []
        await self.client._trip("multi" if self.transaction else "pipeline", [b[0] for b in buf])
        if self.transaction:
            return [self.client.server.cmd(op, *a, **kw) for op, a, kw in buf]   # MULTI … EXEC: atomic, no await in between
        # a plain pipeline only batches the commands: the server may serve other clients between two of them
        out = []
        for op, a, kw in buf:
            out.append(self.client.server.cmd(op, *a, **kw))
            await asyncio.sleep(0)
        return out


class FakeRedis:
    """client object (one per broker instance)"""
    _next_id = 0

    def __init__(self, dsn: str = "redis://fake") -> None:
        self.dsn = dsn
        self.server = server_for(dsn)
        self.id = FakeRedis._next_id
        FakeRedis._next_id += 1
        self.closed = False

    @classmethod
    def from_url(cls, dsn: str, **_kw) -> "FakeRedis":
        return cls(dsn)

    async def _trip(self, op: str, args: Any = None) -> None:
        self.server.round_trips += 1
        self.server.log.append((self.id, op, args))
        lat = self.server.latency(self.id, op) if self.server.latency else 0
        await asyncio.sleep(lat)
        if self.closed:
            raise ConnectionError("fake redis client is closed")

    def pipeline(self, transaction: bool = True) -> FakePipeline:
        return FakePipeline(self, transaction)

    async def aclose(self, close_connection_pool: bool = True) -> None:
        self.closed = True

    async def close(self, *a, **kw) -> None:
        self.closed = True

    def __getattr__(self, op: str):
        if op.startswith("_") or not hasattr(FakeServer, "c_" + op):
            raise AttributeError(op)

        async def call(*a, **kw):
            await self._trip(op, a[:1])
            return self.server.cmd(op, *a, **kw)
        return call

    async def scan_iter(self, match: str | None = None, **_kw):
        await self._trip("scan", match)
        for k in self.server.keys():
            if match is None or fnmatch.fnmatchcase(k, match):
                yield k.encode()

    async def zscan_iter(self, name: str, **_kw):
        await self._trip("zscan", name)
        for m, s in list(self.server.zsets.get(name, {}).items()):
            yield (m, s)


def install() -> None:
    """Replace the name `Redis` in repid's redis modules (call after importing repid)."""
    import repid.connections.redis.bucket_broker as bb
    import repid.connections.redis.message_broker as mb
    mb.Redis = FakeRedis      # type: ignore[misc, assignment]
    bb.Redis = FakeRedis      # type: ignore[misc, assignment]
