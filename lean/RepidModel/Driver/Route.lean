import RepidModel.Driver.State
import RepidModel.Route.Router

namespace Repid.Driver
open Repid Sexp Route

def actorOf : Sexp → Option Actor
  | .list [n, q, f] => do pure { name := ← toStr? n, queue := ← toStr? q, fn := ← toNat? f }
  | _ => none

def routerTo (r : Router) : Sexp :=
  .list [.atom "router",
    ofList (fun a : Actor => .list [.str a.name, .str a.queue, ofNat a.fn]) (r.actors.mergeSort (fun a b => a.name ≤ b.name)),
    ofList (fun e : String × List String => .list [.str e.1, ofList .str (e.2.mergeSort (· ≤ ·))])
      (r.tbq.mergeSort (fun a b => a.1 ≤ b.1))]

/-- (route.worker ((reg…)…))  : a worker including routers, each given as its list of registrations -/
def route : String → List Sexp → Option Sexp
  | "route.worker", [rs] => do
    let routers ← mapM? (fun r => (mapM? actorOf r).map build) rs
    pure (routerTo (worker routers))
  | "route.route", [rs, t, q] => do
    let routers ← mapM? (fun r => (mapM? actorOf r).map build) rs
    pure (ofOpt ofNat ((worker routers).route (← toStr? t) (← toStr? q)))
  | _, _ => none

end Repid.Driver
