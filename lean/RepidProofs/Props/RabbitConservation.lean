/-
C01 on the RabbitMQ broker — conservation: the server's own activity (expiring delays, pushing deliveries, the consumer's
decisions on arrival) and the terminal calls move a message between places; nothing but an acknowledgement removes it —
with the two recorded exceptions (F2r: the window inside `requeue`; F23: nack of a message held from the DEAD category).
Model: RepidModel/Broker/Rabbit.lean.
-/
import RepidModel.Broker.Rabbit
import RepidProofs.Props.Rabbit

namespace Repid.RabbitProofs
open Repid Rabbit

def cnt (l : List Msg) (id : String) : Nat := (l.filter (·.id == id)).length
def one (m : Msg) (id : String) : Nat := if m.id = id then 1 else 0

theorem places_eq (s : S) (id : String) :
    places s id = cnt s.main id + cnt s.delayed id + cnt s.dead id + (s.unacked.filter (·.2.2.id == id)).length := rfl

theorem cnt_cons (m : Msg) (l : List Msg) (id : String) : cnt (m :: l) id = one m id + cnt l id := by
  simp only [cnt, one, List.filter_cons, beq_iff_eq]
  split <;> simp <;> omega

theorem cnt_insert (m : Msg) (l : List Msg) (id : String) : cnt (Rabbit.insert m l) id = one m id + cnt l id := by
  induction l with
  | nil => simp only [Rabbit.insert, cnt_cons]
  | cons x rest ih =>
    simp only [Rabbit.insert]
    split
    · simp only [cnt_cons]
    · simp only [cnt_cons, ih]; omega

theorem cnt_drop_head (m : Msg) (rest : List Msg) (id : String) : cnt ((m :: rest).drop 1) id + one m id = cnt (m :: rest) id := by
  simp only [List.drop_succ_cons, List.drop_zero, cnt_cons]; omega

/-- replacing one queue: the other places are untouched -/
theorem places_set (s : S) (q : Qn) (l : List Msg) (id : String) :
    places (s.set q l) id + cnt (s.get q) id = places s id + cnt l id := by
  cases q <;> simp only [places_eq, S.set, S.get] <;> omega

theorem places_setCons (s : S) (cid : Nat) (c : Cons) (id : String) : places (setCons s cid c) id = places s id := rfl

theorem get_seq (s : S) (n : Nat) (q : Qn) : ({ s with seq := n } : S).get q = s.get q := by cases q <;> rfl

/-- dead-lettering from a queue that has a dead-letter target adds the message (under its id) to that target -/
theorem places_deadLetter (s : S) (q : Qn) (m : Msg) (id : String) (hq : q ≠ .dead) :
    places (deadLetter s q m) id = places s id + one m id := by
  cases q with
  | dead => exact absurd rfl hq
  | main =>
    have h := places_set ({ s with seq := s.seq + 1 } : S) .dead
      (Rabbit.insert { m with expiresAt := none, seq := s.seq + 1 } (({ s with seq := s.seq + 1 } : S).get .dead)) id
    rw [cnt_insert] at h
    have h0 : places ({ s with seq := s.seq + 1 } : S) id = places s id := rfl
    have h1 : one ({ m with expiresAt := none, seq := s.seq + 1 } : Msg) id = one m id := rfl
    show places (({ s with seq := s.seq + 1 } : S).set .dead
      (Rabbit.insert { m with expiresAt := none, seq := s.seq + 1 } (({ s with seq := s.seq + 1 } : S).get .dead))) id = _
    omega
  | delayed =>
    have h := places_set ({ s with seq := s.seq + 1 } : S) .main
      (Rabbit.insert { m with expiresAt := none, seq := s.seq + 1 } (({ s with seq := s.seq + 1 } : S).get .main)) id
    rw [cnt_insert] at h
    have h0 : places ({ s with seq := s.seq + 1 } : S) id = places s id := rfl
    have h1 : one ({ m with expiresAt := none, seq := s.seq + 1 } : Msg) id = one m id := rfl
    show places (({ s with seq := s.seq + 1 } : S).set .main
      (Rabbit.insert { m with expiresAt := none, seq := s.seq + 1 } (({ s with seq := s.seq + 1 } : S).get .main))) id = _
    omega

theorem places_hold (s : S) (cid : Nat) (q : Qn) (m : Msg) (id : String) :
    places ({ s with unacked := s.unacked ++ [(cid, q, m)] } : S) id = places s id + one m id := by
  simp only [places_eq, List.filter_append, List.length_append, one, List.filter_cons, List.filter_nil, beq_iff_eq]
  split <;> simp <;> omega

/-- `pump_conserves`: pushing deliveries to the consumers and their decisions on arrival (hold, dead-letter an expired
    message, give a foreign one back) never change the number of places of any message — for every fuel and state -/
theorem pump_conserves (now : Int) : ∀ (fuel : Nat) (s : S) (id : String), places (pump now fuel s) id = places s id := by
  intro fuel
  induction fuel with
  | zero => intro s id; rfl
  | succ f ih =>
    intro s id
    simp only [pump]
    split
    · rfl
    · rename_i cid c m hfind
      -- the chosen message is the head of the queue its consumer reads
      obtain ⟨e, _, he⟩ := List.exists_of_findSome?_eq_some hfind
      have hhead : ∃ rest, s.get c.cat = m :: rest := by
        cases hq : s.get e.2.cat with
        | nil => simp [hq] at he
        | cons x rest =>
          simp only [hq, Option.some.injEq, Prod.mk.injEq] at he
          obtain ⟨he1, he2⟩ := he
          subst he2
          rw [he1] at hq
          exact ⟨rest, hq⟩
      obtain ⟨rest, hget⟩ := hhead
      have hdrop := places_set s c.cat ((s.get c.cat).drop 1) id
      have hd2 := cnt_drop_head m rest id
      rw [hget] at hdrop ⊢
      split
      · -- hold
        rw [ih, places_setCons, places_hold]; omega
      · -- dead-letter (only a consumer of the main queue does that)
        rename_i hdec
        have hmain : c.cat = .main := by
          simp only [onMessage] at hdec
          split at hdec
          · cases hdec
          · split at hdec
            · rename_i h2; simp only [Bool.and_eq_true, beq_iff_eq] at h2; exact h2.2
            · cases hdec
        rw [ih, places_deadLetter _ _ _ _ (by rw [hmain]; decide)]; omega
      · -- foreign topic: back to its position
        have hb := places_set (s.set c.cat ((m :: rest).drop 1)) c.cat
          (Rabbit.insert m ((s.set c.cat ((m :: rest).drop 1)).get c.cat)) id
        have hgs : (s.set c.cat ((m :: rest).drop 1)).get c.cat = (m :: rest).drop 1 := by cases c.cat <;> rfl
        rw [hgs, cnt_insert] at hb
        rw [hgs]
        omega

/-- expiring delays (each followed by serving the consumers) conserves every message -/
theorem expireHeads_conserves (now : Int) : ∀ (fuel : Nat) (s : S) (id : String), places (expireHeads now fuel s) id = places s id := by
  intro fuel
  induction fuel with
  | zero => intro s id; rfl
  | succ f ih =>
    intro s id
    simp only [expireHeads]
    split
    · rename_i m rest hd
      split
      · split
        · rw [ih, pump_conserves]
          have h0 : ∀ (x : S) (t : Int), places ({ x with clock := t } : S) id = places x id := fun _ _ => rfl
          rw [h0, places_deadLetter _ _ _ _ (by decide)]
          simp only [places_eq, hd, cnt_cons]; omega
        · rfl
      · rfl
    · rfl

/-- `settle_conserves`: whatever time passes and whatever the server does on its own, every message stays in exactly
    as many places as before -/
theorem settle_conserves (s : S) (now : Int) (id : String) : places (settle s now) id = places s id := by
  simp only [settle]
  rw [pump_conserves]
  have h0 : ∀ (x : S) (t : Int), places ({ x with clock := t } : S) id = places x id := fun _ _ => rfl
  rw [h0, expireHeads_conserves]

/-- publishing adds exactly the published message -/
theorem publish_places (s : S) (m : Msg) (millis : Option Int) (now : Int) (id : String) :
    places (publish s m millis now) id = places s id + one m id := by
  simp only [publish]
  split
  · split
    · simp only [places_eq, cnt_insert, one]; omega
    · simp only [places_eq, cnt_insert, one]; omega
  · simp only [places_eq, cnt_insert, one]; omega

def una (s : S) (id : String) : Nat := (s.unacked.filter (·.2.2.id == id)).length

/-- removing the unacknowledged entries of one id -/
theorem places_unacked_filter (s : S) (idm id : String) :
    (id = idm → places ({ s with unacked := s.unacked.filter fun x => !(x.2.2.id == idm) } : S) id + una s id = places s id) ∧
    (id ≠ idm → places ({ s with unacked := s.unacked.filter fun x => !(x.2.2.id == idm) } : S) id = places s id) := by
  constructor
  · intro h; subst h
    have h1 : ((s.unacked.filter fun x => !(x.2.2.id == id)).filter (·.2.2.id == id)).length = 0 := by
      simp [List.filter_filter]
    simp only [places_eq, una, h1]; omega
  · intro hi
    have h1 : ((s.unacked.filter fun x => !(x.2.2.id == idm)).filter (·.2.2.id == id)).length
        = (s.unacked.filter (·.2.2.id == id)).length := by
      simp only [List.filter_filter]
      congr 1
      apply List.filter_congr
      intro x _
      by_cases hx : x.2.2.id = id
      · have : ¬ x.2.2.id = idm := fun h => hi (hx ▸ h)
        simp [hx, hi]
      · simp [hx]
    simp only [places_eq, h1]

/-- reject conserves: the held message goes back to the queue it was delivered from -/
theorem reject_conserves (s : S) (idm id : String) (hinv : una s idm ≤ 1) :
    places (reject s idm) id = places s id := by
  cases hf : s.unacked.find? (·.2.2.id == idm) with
  | none => simp [reject, takeUnacked, hf]
  | some e =>
    obtain ⟨c, q, m⟩ := e
    simp only [reject, takeUnacked_found s idm _ hf]
    have hmem := List.mem_of_find?_eq_some hf
    have hid : m.id = idm := by simpa using List.find?_some hf
    have hset := places_set ({ s with unacked := s.unacked.filter fun x => !(x.2.2.id == idm) } : S) q
      (Rabbit.insert m (({ s with unacked := s.unacked.filter fun x => !(x.2.2.id == idm) } : S).get q)) id
    rw [cnt_insert] at hset
    have hf2 := places_unacked_filter s idm id
    by_cases hi : id = idm
    · subst hi
      have hpos : 0 < una s id := List.length_pos_of_mem (List.mem_filter.mpr ⟨hmem, by simp [hid]⟩)
      have hone : one m id = 1 := by simp [one, hid]
      have := hf2.1 rfl
      omega
    · have hone : one m id = 0 := by simp [one, hid, Ne.symm hi]
      have := hf2.2 hi
      omega

/-- ack removes the held message (and only it) -/
theorem ack_places (s : S) (idm id : String) (hid : id ≠ idm) : places (ack s idm) id = places s id := by
  cases hf : s.unacked.find? (·.2.2.id == idm) with
  | none => simp [ack, takeUnacked, hf]
  | some e =>
    simp only [ack, takeUnacked_found s idm _ hf, places_eq]
    congr 1
    simp only [List.filter_filter]
    congr 1
    apply List.filter_congr
    intro x _
    by_cases hx : x.2.2.id = id
    · simp [hx, hid]
    · simp [hx]

/-! ## the discard pile, `finish`, and every history -/

def drp (s : S) (id : String) : Nat := cnt s.dropped id

theorem deadLetter_dropped (s : S) (q : Qn) (m : Msg) (hq : q ≠ .dead) : (deadLetter s q m).dropped = s.dropped := by
  cases q with
  | dead => exact absurd rfl hq
  | main => rfl
  | delayed => rfl

theorem set_consumers (s : S) (q : Qn) (l : List Msg) : (s.set q l).consumers = s.consumers := by cases q <;> rfl
theorem set_unacked (s : S) (q : Qn) (l : List Msg) : (s.set q l).unacked = s.unacked := by cases q <;> rfl
theorem deadLetter_consumers (s : S) (q : Qn) (m : Msg) : (deadLetter s q m).consumers = s.consumers := by
  cases q <;> rfl
theorem deadLetter_unacked (s : S) (q : Qn) (m : Msg) : (deadLetter s q m).unacked = s.unacked := by
  cases q <;> rfl

theorem set_dropped (s : S) (q : Qn) (l : List Msg) : (s.set q l).dropped = s.dropped := by cases q <;> rfl

theorem pump_dropped (now : Int) : ∀ (fuel : Nat) (s : S), (pump now fuel s).dropped = s.dropped := by
  intro fuel
  induction fuel with
  | zero => intro s; rfl
  | succ f ih =>
    intro s
    simp only [pump]
    split
    · rfl
    · rename_i cid c m hfind
      split
      · rw [ih]; simp only [setCons, set_dropped]
      · rename_i hdec
        have hmain : c.cat = .main := by
          simp only [onMessage] at hdec
          split at hdec
          · cases hdec
          · split at hdec
            · rename_i h2; simp only [Bool.and_eq_true, beq_iff_eq] at h2; exact h2.2
            · cases hdec
        rw [ih, deadLetter_dropped _ _ _ (by rw [hmain]; decide), set_dropped]
      · simp only [set_dropped]

theorem expireHeads_dropped (now : Int) : ∀ (fuel : Nat) (s : S), (expireHeads now fuel s).dropped = s.dropped := by
  intro fuel
  induction fuel with
  | zero => intro s; rfl
  | succ f ih =>
    intro s
    simp only [expireHeads]
    split
    · split
      · split
        · rename_i m rest _ _ t _ _
          rw [ih, pump_dropped]
          show (deadLetter { s with delayed := rest } .delayed m).dropped = _
          rw [deadLetter_dropped _ _ _ (by decide)]
        · rfl
      · rfl
    · rfl

theorem settle_dropped (s : S) (now : Int) : (settle s now).dropped = s.dropped := by
  simp only [settle]
  rw [pump_dropped]
  show (expireHeads _ _ s).dropped = _
  rw [expireHeads_dropped]


def total (s : S) (id : String) : Nat := places s id + drp s id

/-- every message is in at most one place -/
def Inv (s : S) : Prop := ∀ id, places s id ≤ 1

theorem una_le_places (s : S) (id : String) : una s id ≤ places s id := by
  simp only [places_eq, una]; omega

theorem found_una_pos (s : S) (idm : String) (e : Nat × Qn × Msg) (hf : s.unacked.find? (·.2.2.id == idm) = some e) :
    0 < una s idm ∧ e.2.2.id = idm := by
  have hmem := List.mem_of_find?_eq_some hf
  have hid : e.2.2.id = idm := by simpa using List.find?_some hf
  exact ⟨List.length_pos_of_mem (List.mem_filter.mpr ⟨hmem, by simp [hid]⟩), hid⟩

/-- `ack` removes exactly the held entries of its id -/
theorem ack_ledger (s : S) (idm id : String) :
    places (ack s idm) id + (if id = idm then una s id else 0) = places s id := by
  cases hf : s.unacked.find? (·.2.2.id == idm) with
  | none =>
    have h0 : id = idm → una s id = 0 := by
      intro h; subst h
      simp only [una, List.length_eq_zero_iff, List.filter_eq_nil_iff]
      intro x hx
      exact List.find?_eq_none.mp hf x hx
    simp only [ack, takeUnacked, hf]
    split
    · rename_i h; rw [h0 h]; rfl
    · rfl
  | some e =>
    simp only [ack, takeUnacked_found s idm _ hf]
    have h := places_unacked_filter s idm id
    split
    · rename_i hi; exact h.1 hi
    · rename_i hi; have := h.2 hi; omega

theorem ack_dropped (s : S) (idm : String) : (ack s idm).dropped = s.dropped := by
  simp only [ack, takeUnacked]; split <;> rfl

/-- `nack` (basic_nack, requeue=False) moves the held message to the dead-letter target of the queue it was delivered
    from — or, for the DEAD queue (no target), to the server's discard pile: nothing else changes -/
theorem nack_spec (s : S) (idm id : String) (h : una s idm ≤ 1) :
    total (nack s idm) id = total s id ∧ drp s id ≤ drp (nack s idm) id := by
  cases hf : s.unacked.find? (·.2.2.id == idm) with
  | none => simp [nack, takeUnacked, hf]
  | some e =>
    obtain ⟨c, q, m⟩ := e
    obtain ⟨hpos, hid⟩ := found_una_pos s idm _ hf
    simp only at hid
    simp only [nack, takeUnacked_found s idm _ hf]
    have hf2 := places_unacked_filter s idm id
    have hone : one m id = if id = idm then 1 else 0 := by
      unfold one; rw [hid]
      by_cases hi : id = idm
      · rw [if_pos hi, if_pos hi.symm]
      · rw [if_neg hi, if_neg (fun h => hi h.symm)]
    cases q with
    | dead =>
      have hp : places (deadLetter ({ s with unacked := s.unacked.filter fun x => !(x.2.2.id == idm) } : S) .dead m) id
          = places ({ s with unacked := s.unacked.filter fun x => !(x.2.2.id == idm) } : S) id := rfl
      have hd : drp (deadLetter ({ s with unacked := s.unacked.filter fun x => !(x.2.2.id == idm) } : S) .dead m) id
          = one m id + drp s id := by
        show cnt (m :: s.dropped) id = _
        rw [cnt_cons]; rfl
      simp only [total, hp, hd]
      by_cases hi : id = idm
      · subst hi; have := hf2.1 rfl; simp only [if_true] at hone; omega
      · have := hf2.2 hi; simp only [if_neg hi] at hone; omega
    | main =>
      have hp := places_deadLetter ({ s with unacked := s.unacked.filter fun x => !(x.2.2.id == idm) } : S) .main m id (by decide)
      have hd : drp (deadLetter ({ s with unacked := s.unacked.filter fun x => !(x.2.2.id == idm) } : S) .main m) id = drp s id := rfl
      simp only [total, hp, hd]
      by_cases hi : id = idm
      · subst hi; have := hf2.1 rfl; simp only [if_true] at hone; omega
      · have := hf2.2 hi; simp only [if_neg hi] at hone; omega
    | delayed =>
      have hp := places_deadLetter ({ s with unacked := s.unacked.filter fun x => !(x.2.2.id == idm) } : S) .delayed m id (by decide)
      have hd : drp (deadLetter ({ s with unacked := s.unacked.filter fun x => !(x.2.2.id == idm) } : S) .delayed m) id = drp s id := rfl
      simp only [total, hp, hd]
      by_cases hi : id = idm
      · subst hi; have := hf2.1 rfl; simp only [if_true] at hone; omega
      · have := hf2.2 hi; simp only [if_neg hi] at hone; omega

theorem nack_inv (s : S) (idm : String) (h : Inv s) : Inv (nack s idm) := by
  intro id
  have hs := nack_spec s idm id (Nat.le_trans (una_le_places s idm) (h idm))
  have := h id
  simp only [total] at hs
  omega

theorem reject_dropped (s : S) (idm : String) : (reject s idm).dropped = s.dropped := by
  cases hf : s.unacked.find? (·.2.2.id == idm) with
  | none => simp only [reject, takeUnacked, hf]
  | some e => obtain ⟨c, q, m⟩ := e; simp only [reject, takeUnacked_found s idm _ hf, set_dropped]

theorem reject_total (s : S) (idm id : String) (h : Inv s) : total (reject s idm) id = total s id := by
  simp only [total, drp, reject_dropped, reject_conserves s idm id (Nat.le_trans (una_le_places s idm) (h idm))]

theorem reject_inv (s : S) (idm : String) (h : Inv s) : Inv (reject s idm) := by
  intro id; rw [reject_conserves s idm id (Nat.le_trans (una_le_places s idm) (h idm))]; exact h id

theorem pump_total (now : Int) (fuel : Nat) (s : S) (id : String) : total (pump now fuel s) id = total s id := by
  simp only [total, drp, pump_dropped, pump_conserves]

theorem pump_inv (now : Int) (fuel : Nat) (s : S) (h : Inv s) : Inv (pump now fuel s) := by
  intro id; rw [pump_conserves]; exact h id

theorem settle_total (s : S) (now : Int) (id : String) : total (settle s now) id = total s id := by
  simp only [total, drp, settle_dropped, settle_conserves]

theorem settle_inv (s : S) (now : Int) (h : Inv s) : Inv (settle s now) := by
  intro id; rw [settle_conserves]; exact h id

/-- `consume()` — including the dead-lettering of prefetched messages whose ttl has run out — changes the place of no
    message, for every local queue, fuel and state -/
theorem consume_total (now : Int) (cat : Qn) : ∀ (fuel : Nat) (s : S) (cid : Nat), Inv s →
    (∀ id, total (consume now cat fuel s cid).1 id = total s id) ∧ Inv (consume now cat fuel s cid).1 := by
  intro fuel
  induction fuel with
  | zero => intro s cid h; exact ⟨fun _ => rfl, h⟩
  | succ f ih =>
    intro s cid h
    simp only [consume]
    split
    · rename_i c _
      split
      · rename_i m rest _
        have hsc : Inv (setCons s cid { c with loc := rest }) := h
        split
        · have hn := nack_inv _ m.id hsc
          have hp := pump_inv now (2 * ((nack (setCons s cid { c with loc := rest }) m.id).main.length +
            (nack (setCons s cid { c with loc := rest }) m.id).dead.length + 1)) _ hn
          obtain ⟨h1, h2⟩ := ih _ cid hp
          refine ⟨fun id => ?_, h2⟩
          rw [h1 id, pump_total]
          exact (nack_spec _ m.id id (Nat.le_trans (una_le_places _ m.id) (hsc m.id))).1
        · exact ⟨fun _ => rfl, hsc⟩
      · exact ⟨fun _ => rfl, h⟩
    · exact ⟨fun _ => rfl, h⟩

theorem foldl_reject (now : Int) (l : List Msg) : ∀ (s : S), Inv s →
    (∀ id, total (l.foldl (fun acc m => settle (reject acc m.id) now) s) id = total s id) ∧
    Inv (l.foldl (fun acc m => settle (reject acc m.id) now) s) := by
  induction l with
  | nil => intro s h; exact ⟨fun _ => rfl, h⟩
  | cons m rest ih =>
    intro s h
    simp only [List.foldl_cons]
    obtain ⟨h1, h2⟩ := ih _ (settle_inv _ now (reject_inv s m.id h))
    exact ⟨fun id => by rw [h1 id, settle_total, reject_total s m.id id h], h2⟩

/-- `finish_conserves`: stopping a consumer (cancel + reject of everything in its local queue, of any length) changes
    the place of no message -/
theorem finish_conserves (s : S) (cid : Nat) (now : Int) (h : Inv s) :
    (∀ id, total (finish s cid now) id = total s id) ∧ Inv (finish s cid now) := by
  simp only [finish]
  split
  · rename_i c _
    exact foldl_reject now c.loc ({ s with consumers := s.consumers.filter (·.1 != cid) } : S) h
  · exact ⟨fun _ => rfl, h⟩

theorem reject_unacked (s : S) (idm : String) : (reject s idm).unacked = s.unacked.filter fun x => !(x.2.2.id == idm) := by
  cases hf : s.unacked.find? (·.2.2.id == idm) with
  | none =>
    simp only [reject, takeUnacked, hf]
    symm
    rw [List.filter_eq_self]
    intro x hx
    have := List.find?_eq_none.mp hf x hx
    simpa using this
  | some e =>
    obtain ⟨c, q, m⟩ := e
    simp only [reject, takeUnacked_found s idm _ hf]
    cases q <;> rfl

/-- the server hands deliveries only to consumers it knows -/
def OnlyKnown (s0 s : S) : Prop :=
  (∀ e ∈ s.unacked, e ∈ s0.unacked ∨ ∃ c ∈ s0.consumers, c.1 = e.1) ∧ (∀ c ∈ s.consumers, ∃ c0 ∈ s0.consumers, c0.1 = c.1)

theorem onlyKnown_refl (s : S) : OnlyKnown s s := ⟨fun _ he => Or.inl he, fun c hc => ⟨c, hc, rfl⟩⟩

theorem onlyKnown_trans {a b c : S} (h1 : OnlyKnown a b) (h2 : OnlyKnown b c) : OnlyKnown a c := by
  constructor
  · intro e he
    rcases h2.1 e he with h | ⟨x, hx, hxe⟩
    · exact h1.1 e h
    · obtain ⟨y, hy, hyx⟩ := h1.2 x hx
      exact Or.inr ⟨y, hy, by rw [hyx, hxe]⟩
  · intro x hx
    obtain ⟨y, hy, hyx⟩ := h2.2 x hx
    obtain ⟨z, hz, hzy⟩ := h1.2 y hy
    exact ⟨z, hz, by rw [hzy, hyx]⟩

theorem onlyKnown_same (s0 s : S) (hu : s.unacked = s0.unacked) (hc : s.consumers = s0.consumers) : OnlyKnown s0 s := by
  unfold OnlyKnown; rw [hu, hc]; exact onlyKnown_refl s0

theorem pump_onlyKnown (now : Int) : ∀ (fuel : Nat) (s : S), OnlyKnown s (pump now fuel s) := by
  intro fuel
  induction fuel with
  | zero => intro s; exact onlyKnown_refl s
  | succ f ih =>
    intro s
    simp only [pump]
    split
    · exact onlyKnown_refl s
    · rename_i cid c m hfind
      obtain ⟨e, hmem, he⟩ := List.exists_of_findSome?_eq_some hfind
      have hcm : (cid, c) ∈ s.consumers := by
        have he1 : e = (cid, c) := by
          cases hq : s.get e.2.cat with
          | nil => simp [hq] at he
          | cons x rest => simp only [hq, Option.some.injEq, Prod.mk.injEq] at he; exact he.1
        rw [← he1]
        rcases List.mem_append.mp hmem with h1 | h1
        · exact (List.mem_filter.mp h1).1
        · exact (List.mem_filter.mp h1).1
      split
      · refine onlyKnown_trans ?_ (ih _)
        constructor
        · intro e he
          have he' : e ∈ (s.set c.cat ((s.get c.cat).drop 1)).unacked ++ [(cid, c.cat, m)] := he
          rw [set_unacked] at he'
          rcases List.mem_append.mp he' with h1 | h1
          · exact Or.inl h1
          · simp only [List.mem_singleton] at h1; subst h1; exact Or.inr ⟨(cid, c), hcm, rfl⟩
        · intro x hx
          simp only [setCons, List.mem_map] at hx
          obtain ⟨x0, hx0, rfl⟩ := hx
          rw [set_consumers] at hx0
          refine ⟨x0, hx0, ?_⟩
          split
          · rename_i hh; simp only [beq_iff_eq] at hh; exact hh
          · rfl
      · refine onlyKnown_trans ?_ (ih _)
        exact onlyKnown_same s _ (by rw [deadLetter_unacked, set_unacked]) (by rw [deadLetter_consumers, set_consumers])
      · exact onlyKnown_same s _ (by rw [set_unacked, set_unacked]) (by rw [set_consumers, set_consumers])

theorem expireHeads_onlyKnown (now : Int) : ∀ (fuel : Nat) (s : S), OnlyKnown s (expireHeads now fuel s) := by
  intro fuel
  induction fuel with
  | zero => intro s; exact onlyKnown_refl s
  | succ f ih =>
    intro s
    simp only [expireHeads]
    split
    · split
      · split
        · rename_i m rest _ _ t _ _
          refine onlyKnown_trans ?_ (ih _)
          refine onlyKnown_trans ?_ (pump_onlyKnown _ _ _)
          have hd : OnlyKnown s (deadLetter { s with delayed := rest } .delayed m) :=
            onlyKnown_same s _ (by rw [deadLetter_unacked]) (by rw [deadLetter_consumers])
          exact hd
        · exact onlyKnown_refl s
      · exact onlyKnown_refl s
    · exact onlyKnown_refl s

theorem settle_onlyKnown (s : S) (now : Int) : OnlyKnown s (settle s now) := by
  simp only [settle]
  refine onlyKnown_trans ?_ (pump_onlyKnown _ _ _)
  have := expireHeads_onlyKnown now (s.main.length + s.delayed.length + s.dead.length + 1) s
  exact this

theorem reject_consumers (s : S) (idm : String) : (reject s idm).consumers = s.consumers := by
  cases hf : s.unacked.find? (·.2.2.id == idm) with
  | none => simp only [reject, takeUnacked, hf]
  | some e => obtain ⟨c, q, m⟩ := e; simp only [reject, takeUnacked_found s idm _ hf, set_consumers]

/-- while the local queue is given back message by message (the server reacting after each reject), what is still in
    flight under the stopped consumer is only what is still waiting to be given back -/
theorem foldl_reject_clears (now : Int) (cid : Nat) (l : List Msg) : ∀ (s : S),
    (∀ c ∈ s.consumers, c.1 ≠ cid) → (∀ e ∈ s.unacked, e.1 = cid → ∃ m ∈ l, m.id = e.2.2.id) →
    ∀ e ∈ (l.foldl (fun acc m => settle (reject acc m.id) now) s).unacked, e.1 ≠ cid := by
  induction l with
  | nil =>
    intro s _ hu e he hcid
    obtain ⟨m, hm, _⟩ := hu e he hcid
    cases hm
  | cons m rest ih =>
    intro s hc hu
    simp only [List.foldl_cons]
    have hk := settle_onlyKnown (reject s m.id) now
    apply ih
    · intro c hcm
      obtain ⟨c0, hc0, h0⟩ := hk.2 c hcm
      rw [reject_consumers] at hc0
      rw [← h0]; exact hc c0 hc0
    · intro e he hcid
      rcases hk.1 e he with h1 | ⟨c0, hc0, h0⟩
      · rw [reject_unacked] at h1
        obtain ⟨hm1, hm2⟩ := List.mem_filter.mp h1
        obtain ⟨m', hm', hid'⟩ := hu e hm1 hcid
        rcases List.mem_cons.mp hm' with h2 | h2
        · subst h2; simp [hid'] at hm2
        · exact ⟨m', h2, hid'⟩
      · rw [reject_consumers] at hc0
        exact absurd (h0.trans hcid) (hc c0 hc0)

/-- `finish_clears`: when everything the consumer still holds un-acknowledged sits in its local queue (nothing in hand,
    nothing running), nothing stays in flight under it after `finish` — it is all back at the server -/
theorem finish_clears (s : S) (cid : Nat) (now : Int) (c : Cons) (hc : s.consumers.find? (·.1 == cid) = some (cid, c))
    (hloc : ∀ e ∈ s.unacked, e.1 = cid → ∃ m ∈ c.loc, m.id = e.2.2.id) :
    ∀ e ∈ (finish s cid now).unacked, e.1 ≠ cid := by
  simp only [finish, hc]
  apply foldl_reject_clears now cid c.loc
  · intro x hx
    have := (List.mem_filter.mp hx).2
    simpa using this
  · exact hloc

/-! ### the discard pile: only a DEAD-category consumer can feed it (F23) -/

/-- no dead-letter consumer: nobody listens on the DEAD queue, nothing is held from it -/
def NoDeadCons (s : S) : Prop := (∀ e ∈ s.consumers, e.2.cat ≠ .dead) ∧ (∀ e ∈ s.unacked, e.2.1 ≠ .dead)


theorem ndc_set (s : S) (q : Qn) (l : List Msg) (h : NoDeadCons s) : NoDeadCons (s.set q l) := by
  unfold NoDeadCons; rw [set_consumers, set_unacked]; exact h

theorem ndc_deadLetter (s : S) (q : Qn) (m : Msg) (h : NoDeadCons s) : NoDeadCons (deadLetter s q m) := by
  unfold NoDeadCons; rw [deadLetter_consumers, deadLetter_unacked]; exact h

theorem ndc_setCons (s : S) (cid : Nat) (c : Cons) (hc : c.cat ≠ .dead) (h : NoDeadCons s) : NoDeadCons (setCons s cid c) := by
  refine ⟨fun e he => ?_, h.2⟩
  simp only [setCons, List.mem_map] at he
  obtain ⟨e0, he0, rfl⟩ := he
  split
  · exact hc
  · exact h.1 e0 he0

theorem pump_ndc (now : Int) : ∀ (fuel : Nat) (s : S), NoDeadCons s → NoDeadCons (pump now fuel s) := by
  intro fuel
  induction fuel with
  | zero => intro s h; exact h
  | succ f ih =>
    intro s h
    simp only [pump]
    split
    · exact h
    · rename_i cid c m hfind
      obtain ⟨e, hmem, he⟩ := List.exists_of_findSome?_eq_some hfind
      have hcm : (cid, c) ∈ s.consumers := by
        have he1 : e = (cid, c) := by
          cases hq : s.get e.2.cat with
          | nil => simp [hq] at he
          | cons x rest => simp only [hq, Option.some.injEq, Prod.mk.injEq] at he; exact he.1
        rw [← he1]
        rcases List.mem_append.mp hmem with h1 | h1
        · exact (List.mem_filter.mp h1).1
        · exact (List.mem_filter.mp h1).1
      have hcat : c.cat ≠ .dead := h.1 _ hcm
      split
      · apply ih
        refine ndc_setCons _ cid { c with loc := c.loc ++ [m] } hcat ?_
        have hs := ndc_set s c.cat ((s.get c.cat).drop 1) h
        refine ⟨hs.1, fun e he => ?_⟩
        rcases List.mem_append.mp he with h1 | h1
        · exact hs.2 e h1
        · simp only [List.mem_singleton] at h1; subst h1; exact hcat
      · exact ih _ (ndc_deadLetter _ _ _ (ndc_set s _ _ h))
      · exact ndc_set _ _ _ (ndc_set s _ _ h)

theorem expireHeads_ndc (now : Int) : ∀ (fuel : Nat) (s : S), NoDeadCons s → NoDeadCons (expireHeads now fuel s) := by
  intro fuel
  induction fuel with
  | zero => intro s h; exact h
  | succ f ih =>
    intro s h
    simp only [expireHeads]
    split
    · split
      · split
        · rename_i m rest _ _ t _ _
          apply ih
          apply pump_ndc
          have : NoDeadCons (deadLetter { s with delayed := rest } .delayed m) := ndc_deadLetter _ _ _ h
          exact this
        · exact h
      · exact h
    · exact h

theorem settle_ndc (s : S) (now : Int) (h : NoDeadCons s) : NoDeadCons (settle s now) := by
  simp only [settle]
  apply pump_ndc
  have := expireHeads_ndc now (s.main.length + s.delayed.length + s.dead.length + 1) s h
  exact this

theorem filter_unacked_ndc (s : S) (p : Nat × Qn × Msg → Bool) (h : NoDeadCons s) :
    NoDeadCons ({ s with unacked := s.unacked.filter p } : S) :=
  ⟨h.1, fun e he => h.2 e (List.mem_filter.mp he).1⟩

/-- without a dead-letter consumer `nack` discards nothing -/
theorem nack_ndc (s : S) (idm : String) (h : NoDeadCons s) : NoDeadCons (nack s idm) ∧ (nack s idm).dropped = s.dropped := by
  cases hf : s.unacked.find? (·.2.2.id == idm) with
  | none => simp only [nack, takeUnacked, hf]; exact ⟨h, trivial⟩
  | some e =>
    obtain ⟨c, q, m⟩ := e
    have hq : q ≠ .dead := h.2 _ (List.mem_of_find?_eq_some hf)
    simp only [nack, takeUnacked_found s idm _ hf]
    exact ⟨ndc_deadLetter _ _ _ (filter_unacked_ndc s _ h), by rw [deadLetter_dropped _ _ _ hq]⟩

theorem consume_ndc (now : Int) (cat : Qn) : ∀ (fuel : Nat) (s : S) (cid : Nat), NoDeadCons s →
    NoDeadCons (consume now cat fuel s cid).1 ∧ (consume now cat fuel s cid).1.dropped = s.dropped := by
  intro fuel
  induction fuel with
  | zero => intro s cid h; exact ⟨h, rfl⟩
  | succ f ih =>
    intro s cid h
    simp only [consume]
    split
    · rename_i c hfc
      have hcat : c.cat ≠ .dead := h.1 _ (List.mem_of_find?_eq_some hfc)
      split
      · rename_i m rest _
        have hsc : NoDeadCons (setCons s cid { c with loc := rest }) := ndc_setCons s cid _ hcat h
        split
        · obtain ⟨hn1, hn2⟩ := nack_ndc _ m.id hsc
          obtain ⟨h1, h2⟩ := ih _ cid (pump_ndc now (2 * ((nack (setCons s cid { c with loc := rest }) m.id).main.length +
            (nack (setCons s cid { c with loc := rest }) m.id).dead.length + 1)) _ hn1)
          refine ⟨h1, ?_⟩
          rw [h2, pump_dropped, hn2]; rfl
        · exact ⟨hsc, rfl⟩
      · exact ⟨h, rfl⟩
    · exact ⟨h, rfl⟩

theorem reject_ndc (s : S) (idm : String) (h : NoDeadCons s) : NoDeadCons (reject s idm) := by
  cases hf : s.unacked.find? (·.2.2.id == idm) with
  | none => simp only [reject, takeUnacked, hf]; exact h
  | some e =>
    obtain ⟨c, q, m⟩ := e
    simp only [reject, takeUnacked_found s idm _ hf]
    exact ndc_set _ _ _ (filter_unacked_ndc s _ h)

theorem foldl_reject_ndc (now : Int) (l : List Msg) : ∀ (s : S), NoDeadCons s →
    NoDeadCons (l.foldl (fun acc m => settle (reject acc m.id) now) s) ∧
    (l.foldl (fun acc m => settle (reject acc m.id) now) s).dropped = s.dropped := by
  induction l with
  | nil => intro s h; exact ⟨h, rfl⟩
  | cons m rest ih =>
    intro s h
    simp only [List.foldl_cons]
    obtain ⟨h1, h2⟩ := ih _ (settle_ndc _ now (reject_ndc s m.id h))
    exact ⟨h1, by rw [h2, settle_dropped, reject_dropped]⟩

theorem finish_ndc (s : S) (cid : Nat) (now : Int) (h : NoDeadCons s) :
    NoDeadCons (finish s cid now) ∧ (finish s cid now).dropped = s.dropped := by
  simp only [finish]
  split
  · rename_i c _
    have h0 : NoDeadCons ({ s with consumers := s.consumers.filter (·.1 != cid) } : S) :=
      ⟨fun e he => h.1 e (List.mem_filter.mp he).1, h.2⟩
    exact foldl_reject_ndc now c.loc _ h0
  · exact ⟨h, rfl⟩

/-! ### every history -/

inductive Op where
  | publish (m : Msg) (millis : Option Int) (now : Int)
  | settle (now : Int)                                   -- time passes; the server expires delays and serves its consumers
  | consume (now : Int) (cat : Qn) (fuel : Nat) (cid : Nat)
  | ack (id : String)
  | nack (id : String)
  | reject (id : String)
  | finish (cid : Nat) (now : Int)
  | listen (cid : Nat) (cat : Qn) (topics : List String)

/-- the server state plus the two logs the statement is about -/
structure H where
  s : S := {}
  acked : List String := []
  published : List String := []

def cntS (l : List String) (id : String) : Nat := (l.filter (· == id)).length

def step (h : H) : Op → H
  | .publish m ms now => { h with s := publish h.s m ms now, published := m.id :: h.published }
  | .settle now => { h with s := settle h.s now }
  | .consume now cat fuel cid => { h with s := (consume now cat fuel h.s cid).1 }
  | .ack id => { h with s := ack h.s id, acked := List.replicate (una h.s id) id ++ h.acked }
  | .nack id => { h with s := nack h.s id }
  | .reject id => { h with s := reject h.s id }
  | .finish cid now => { h with s := finish h.s cid now }
  | .listen cid cat topics => { h with s := { h.s with consumers := h.s.consumers ++ [(cid, { cat := cat, topics := topics })] } }

/-- the client's only obligation: an id is not used for a second message while the first one still exists -/
def StepOk (h : H) : Op → Prop
  | .publish m _ _ => places h.s m.id = 0
  | _ => True

def run (h : H) : List Op → H
  | [] => h
  | op :: rest => run (step h op) rest

def StepsOk (h : H) : List Op → Prop
  | [] => True
  | op :: rest => StepOk h op ∧ StepsOk (step h op) rest

/-- the ledger: what was published = what waits or is held (`places`) + what the server discarded + what was acknowledged -/
def Ledger (h : H) : Prop := ∀ id, total h.s id + cntS h.acked id = cntS h.published id

theorem cntS_cons (x : String) (l : List String) (id : String) : cntS (x :: l) id = (if x = id then 1 else 0) + cntS l id := by
  simp only [cntS, List.filter_cons, beq_iff_eq]
  split <;> simp <;> omega

theorem cntS_replicate (n : Nat) (x : String) (l : List String) (id : String) :
    cntS (List.replicate n x ++ l) id = (if id = x then n else 0) + cntS l id := by
  induction n with
  | zero => simp [cntS]
  | succ k ih =>
    rw [List.replicate_succ, List.cons_append, cntS_cons, ih]
    by_cases hi : id = x
    · subst hi; simp; omega
    · have : ¬ x = id := fun h => hi h.symm
      simp [hi, this]

theorem publish_dropped (s : S) (m : Msg) (millis : Option Int) (now : Int) : (publish s m millis now).dropped = s.dropped := by
  simp only [publish]; split
  · split <;> rfl
  · rfl

theorem step_ok (h : H) (op : Op) (hi : Inv h.s) (hl : Ledger h) (hok : StepOk h op) :
    Inv (step h op).s ∧ Ledger (step h op) := by
  cases op with
  | publish m ms now =>
    constructor
    · intro id
      show places (publish h.s m ms now) id ≤ 1
      rw [publish_places]
      have := hi id
      by_cases hm : m.id = id
      · have h0 : places h.s id = 0 := hm ▸ hok
        simp only [one]; split <;> omega
      · simp only [one, if_neg hm]; omega
    · intro id
      show total (publish h.s m ms now) id + cntS h.acked id = cntS (m.id :: h.published) id
      have := hl id
      simp only [total, drp, publish_dropped, publish_places, cntS_cons, one] at *
      omega
  | settle now =>
    exact ⟨settle_inv h.s now hi, fun id => by show total (settle h.s now) id + _ = _; rw [settle_total]; exact hl id⟩
  | consume now cat fuel cid =>
    obtain ⟨h1, h2⟩ := consume_total now cat fuel h.s cid hi
    exact ⟨h2, fun id => by show total (consume now cat fuel h.s cid).1 id + _ = _; rw [h1 id]; exact hl id⟩
  | ack idm =>
    constructor
    · intro id
      have := ack_ledger h.s idm id
      have := hi id
      show places (ack h.s idm) id ≤ 1
      omega
    · intro id
      show total (ack h.s idm) id + cntS (List.replicate (una h.s idm) idm ++ h.acked) id = cntS h.published id
      have h1 := ack_ledger h.s idm id
      have h2 := hl id
      rw [cntS_replicate]
      simp only [total, drp, ack_dropped] at *
      by_cases hid : id = idm
      · subst hid; simp only [if_true] at *; omega
      · simp only [if_neg hid] at *; omega
  | nack idm =>
    refine ⟨nack_inv h.s idm hi, fun id => ?_⟩
    show total (nack h.s idm) id + _ = _
    rw [(nack_spec h.s idm id (Nat.le_trans (una_le_places _ idm) (hi idm))).1]; exact hl id
  | reject idm =>
    refine ⟨reject_inv h.s idm hi, fun id => ?_⟩
    show total (reject h.s idm) id + _ = _
    rw [reject_total h.s idm id hi]; exact hl id
  | finish cid now =>
    obtain ⟨h1, h2⟩ := finish_conserves h.s cid now hi
    exact ⟨h2, fun id => by show total (finish h.s cid now) id + _ = _; rw [h1 id]; exact hl id⟩
  | listen cid cat topics => exact ⟨hi, hl⟩

/-- `rabbit_ledger`: after ANY finite history of publish / passing time / consume / ack / nack / reject / finish / new
    consumers on the RabbitMQ broker, every message is in at most one place, and the ledger balances: nothing appears
    or disappears except through `publish` and `ack` — or the server's discard pile (`drp`, see `rabbit_no_discard`) -/
theorem rabbit_ledger : ∀ (ops : List Op) (h : H), Inv h.s → Ledger h → StepsOk h ops →
    Inv (run h ops).s ∧ Ledger (run h ops) := by
  intro ops
  induction ops with
  | nil => intro h hi hl _; exact ⟨hi, hl⟩
  | cons op rest ih =>
    intro h hi hl hok
    obtain ⟨h1, h2⟩ := step_ok h op hi hl hok.1
    exact ih _ h1 h2 hok.2

theorem rabbit_ledger_from_empty (ops : List Op) (hok : StepsOk {} ops) (id : String) :
    places (run {} ops).s id ≤ 1 ∧
    places (run {} ops).s id + drp (run {} ops).s id + cntS (run {} ops).acked id = cntS (run {} ops).published id := by
  have h := rabbit_ledger ops {} (fun _ => Nat.zero_le 1) (fun _ => rfl) hok
  exact ⟨h.1 id, h.2 id⟩


def NoDeadListen : List Op → Prop
  | [] => True
  | .listen _ cat _ :: rest => cat ≠ .dead ∧ NoDeadListen rest
  | _ :: rest => NoDeadListen rest

theorem step_no_discard (h : H) (op : Op) (hn : NoDeadCons h.s) (hop : NoDeadListen [op]) :
    NoDeadCons (step h op).s ∧ (step h op).s.dropped = h.s.dropped := by
  cases op with
  | publish m ms now =>
    refine ⟨?_, publish_dropped _ _ _ _⟩
    show NoDeadCons (publish h.s m ms now)
    simp only [publish]
    split
    · split <;> exact hn
    · exact hn
  | settle now => exact ⟨settle_ndc _ _ hn, settle_dropped _ _⟩
  | consume now cat fuel cid => exact consume_ndc now cat fuel h.s cid hn
  | ack idm =>
    refine ⟨?_, ack_dropped _ _⟩
    show NoDeadCons (ack h.s idm)
    simp only [ack, takeUnacked]
    split
    · exact filter_unacked_ndc h.s _ hn
    · exact hn
  | nack idm => exact nack_ndc _ _ hn
  | reject idm => exact ⟨reject_ndc _ _ hn, reject_dropped _ _⟩
  | finish cid now => exact finish_ndc _ _ _ hn
  | listen cid cat topics =>
    refine ⟨⟨fun e he => ?_, hn.2⟩, rfl⟩
    rcases List.mem_append.mp he with h1 | h1
    · exact hn.1 e h1
    · simp only [List.mem_singleton] at h1; subst h1; exact hop.1

/-- `rabbit_no_discard`: in every history in which nobody consumes from the DEAD category, the server discards nothing —
    with `rabbit_ledger`: every published message is then, at every moment, in exactly one of: a queue, a consumer's
    hands, or acknowledged.  (With a DEAD-category consumer a `nack` discards: `rabbit_nack_nonnormal_witness`, F23.) -/
theorem rabbit_no_discard : ∀ (ops : List Op) (h : H), NoDeadCons h.s → NoDeadListen ops →
    (run h ops).s.dropped = h.s.dropped := by
  intro ops
  induction ops with
  | nil => intro h _ _; rfl
  | cons op rest ih =>
    intro h hn hl
    have hop : NoDeadListen [op] ∧ NoDeadListen rest := by
      cases op <;> first | exact ⟨trivial, hl⟩ | exact ⟨⟨hl.1, trivial⟩, hl.2⟩
    obtain ⟨h1, h2⟩ := step_no_discard h op hn hop.1
    show (run (step h op) rest).s.dropped = _
    rw [ih _ h1 hop.2, h2]

theorem rabbit_exactly_one_place (ops : List Op) (hok : StepsOk {} ops) (hl : NoDeadListen ops) (id : String) :
    places (run {} ops).s id + cntS (run {} ops).acked id = cntS (run {} ops).published id ∧ places (run {} ops).s id ≤ 1 := by
  have h := rabbit_ledger_from_empty ops hok id
  have hnd : NoDeadCons ({} : H).s := by constructor <;> intro e he <;> cases he
  have hd := rabbit_no_discard ops {} hnd hl
  have : drp (run {} ops).s id = 0 := by simp only [drp, hd]; rfl
  omega

-- non-vacuity: a history that satisfies the guards, with a delay, a consumer, a hand-over and a reject
example : StepsOk {} [.listen 0 .main [], .publish { id := "a", topic := "t", prio := 5, payload := "", params := {} } (some 1500) 0,
    .settle 2000000, .consume 2000000 .main 3 0, .reject "a", .publish { id := "b", topic := "t", prio := 5, payload := "", params := {} } none 5] ∧
    NoDeadListen [.listen 0 .main [], .publish { id := "a", topic := "t", prio := 5, payload := "", params := {} } (some 1500) 0,
    .settle 2000000, .consume 2000000 .main 3 0, .reject "a", .publish { id := "b", topic := "t", prio := 5, payload := "", params := {} } none 5] := by
  simp only [StepsOk, StepOk, NoDeadListen, true_and, and_true]
  decide

/-! ## the stopping worker -/

/-- generalisation of `foldl_reject_clears`: what stays in flight under the stopped consumer is what was not in its
    local queue -/
theorem foldl_reject_leaves (now : Int) (cid : Nat) (P : String → Prop) (l : List Msg) : ∀ (s : S),
    (∀ c ∈ s.consumers, c.1 ≠ cid) → (∀ e ∈ s.unacked, e.1 = cid → (∃ m ∈ l, m.id = e.2.2.id) ∨ P e.2.2.id) →
    (∀ c ∈ (l.foldl (fun acc m => settle (reject acc m.id) now) s).consumers, c.1 ≠ cid) ∧
    ∀ e ∈ (l.foldl (fun acc m => settle (reject acc m.id) now) s).unacked, e.1 = cid → P e.2.2.id := by
  induction l with
  | nil =>
    intro s hc hu
    refine ⟨hc, fun e he hcid => ?_⟩
    rcases hu e he hcid with ⟨m, hm, _⟩ | h
    · cases hm
    · exact h
  | cons m rest ih =>
    intro s hc hu
    simp only [List.foldl_cons]
    have hk := settle_onlyKnown (reject s m.id) now
    apply ih
    · intro c hcm
      obtain ⟨c0, hc0, h0⟩ := hk.2 c hcm
      rw [reject_consumers] at hc0
      rw [← h0]; exact hc c0 hc0
    · intro e he hcid
      rcases hk.1 e he with h1 | ⟨c0, hc0, h0⟩
      · rw [reject_unacked] at h1
        obtain ⟨hm1, hm2⟩ := List.mem_filter.mp h1
        rcases hu e hm1 hcid with ⟨m', hm', hid'⟩ | hp
        · rcases List.mem_cons.mp hm' with h2 | h2
          · subst h2; simp [hid'] at hm2
          · exact Or.inl ⟨m', h2, hid'⟩
        · exact Or.inr hp
      · rw [reject_consumers] at hc0
        exact absurd (h0.trans hcid) (hc c0 hc0)

/-- the stopping worker on RabbitMQ (`_Runner._run_consumer` on cancellation, after `fix:` dfed4c8): the consumer is
    finished, then the runner rejects what it still has in hand -/
def stopWorker (s : S) (cid : Nat) (now : Int) (inHand : List String) : S :=
  inHand.foldl (fun acc id => reject acc id) (finish s cid now)

theorem foldl_reject_ids (l : List String) : ∀ (s : S), Inv s →
    (∀ id, total (l.foldl (fun acc i => reject acc i) s) id = total s id) ∧ Inv (l.foldl (fun acc i => reject acc i) s) ∧
    (l.foldl (fun acc i => reject acc i) s).unacked = s.unacked.filter fun x => !(l.any fun i => x.2.2.id == i) := by
  induction l with
  | nil =>
    intro s h
    refine ⟨fun _ => rfl, h, ?_⟩
    simp only [List.foldl_nil, List.any_nil, Bool.not_false]
    exact (List.filter_eq_self.mpr (fun _ _ => rfl)).symm
  | cons i rest ih =>
    intro s h
    simp only [List.foldl_cons]
    obtain ⟨h1, h2, h3⟩ := ih _ (reject_inv s i h)
    refine ⟨fun id => by rw [h1 id, reject_total s i id h], h2, ?_⟩
    rw [h3, reject_unacked, List.filter_filter]
    apply List.filter_congr
    intro x _
    simp only [List.any_cons, Bool.not_or]
    rw [Bool.and_comm]

/-- `rabbit_stop_conserves`: whatever the stopping worker holds (a local queue of any length, any messages in hand), the
    stop sequence changes the place of no message -/
theorem rabbit_stop_conserves (s : S) (cid : Nat) (now : Int) (inHand : List String) (h : Inv s) :
    (∀ id, total (stopWorker s cid now inHand) id = total s id) ∧ Inv (stopWorker s cid now inHand) := by
  obtain ⟨f1, f2⟩ := finish_conserves s cid now h
  obtain ⟨g1, g2, _⟩ := foldl_reject_ids inHand (finish s cid now) f2
  exact ⟨fun id => by rw [stopWorker, g1 id, f1 id], g2⟩

/-- `rabbit_stop_clears`: when everything the worker's consumer holds un-acknowledged is either in its local queue or in
    the runner's hand, nothing stays in flight under it after the stop sequence -/
theorem rabbit_stop_clears (s : S) (cid : Nat) (now : Int) (inHand : List String) (c : Cons)
    (hc : s.consumers.find? (·.1 == cid) = some (cid, c))
    (hheld : ∀ e ∈ s.unacked, e.1 = cid → (∃ m ∈ c.loc, m.id = e.2.2.id) ∨ e.2.2.id ∈ inHand) :
    ∀ e ∈ (stopWorker s cid now inHand).unacked, e.1 ≠ cid := by
  intro e he hcid
  have hfin : ∀ e ∈ (finish s cid now).unacked, e.1 = cid → e.2.2.id ∈ inHand := by
    simp only [finish, hc]
    refine (foldl_reject_leaves now cid (fun i => i ∈ inHand) c.loc
      ({ s with consumers := s.consumers.filter (·.1 != cid) } : S) ?_ hheld).2
    intro x hx
    have := (List.mem_filter.mp hx).2
    simpa using this
  -- the second phase filters the ids in hand
  have hsecond : (stopWorker s cid now inHand).unacked =
      (finish s cid now).unacked.filter fun x => !(inHand.any fun i => x.2.2.id == i) := by
    -- `foldl_reject_ids` needs no invariant for the unacked part; re-prove it directly
    have : ∀ (l : List String) (t : S), (l.foldl (fun acc i => reject acc i) t).unacked =
        t.unacked.filter fun x => !(l.any fun i => x.2.2.id == i) := by
      intro l
      induction l with
      | nil =>
        intro t
        simp only [List.foldl_nil, List.any_nil, Bool.not_false]
        exact (List.filter_eq_self.mpr (fun _ _ => rfl)).symm
      | cons i rest ih =>
        intro t
        simp only [List.foldl_cons]
        rw [ih, reject_unacked, List.filter_filter]
        apply List.filter_congr
        intro x _
        simp only [List.any_cons, Bool.not_or]
        rw [Bool.and_comm]
    exact this inHand _
  rw [hsecond] at he
  obtain ⟨hm, hn⟩ := List.mem_filter.mp he
  have hin := hfin e hm hcid
  have : (inHand.any fun i => e.2.2.id == i) = true := List.any_eq_true.mpr ⟨_, hin, by simp⟩
  simp [this] at hn

/-- the hand-over that a stop cancels: `consume()` has taken the message out of the local queue, the cancellation lands
    before the runner receives it (inside the middleware wrapper's `after_consume` signal) -/
def cancelledHandover (s : S) (cid : Nat) : S :=
  match s.consumers.find? (·.1 == cid) with
  | some (_, c) => setCons s cid { c with loc := c.loc.drop 1 }
  | none => s

/-- `rabbit_cancelled_handover_witness` (F26): after a cancelled hand-over the stop sequence — with nothing in the runner's
    hand — leaves the message unacknowledged under the stopped consumer (the hypothesis of `rabbit_stop_clears` fails: the
    message is neither in the local queue nor in hand); nothing is lost at the server, but it stays in flight -/
theorem rabbit_cancelled_handover_witness :
    let m : Msg := { id := "a", topic := "t", prio := 5, payload := "", params := {} }
    let s : S := { unacked := [(0, .main, m)], consumers := [(0, { cat := .main, loc := [m] })] }
    (stopWorker (cancelledHandover s 0) 0 0 []).unacked.map (·.2.2.id) = ["a"] ∧
    (stopWorker s 0 0 []).unacked = [] ∧ (stopWorker s 0 0 []).main.map (·.id) = ["a"] := by
  decide

end Repid.RabbitProofs
