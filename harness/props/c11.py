"""C11 — a job reaches exactly the actor it names, only through that actor's queue.

Tie: random router sets (1–4 routers, names and queues from small pools so that overrides and
re-registrations on other queues are frequent, direct registrations on the worker after includes):
`Worker.actors` / `Worker.topics_by_queue` vs the Lean model `Route.worker`; then the real worker runs
with jobs (name, queue) matching or not (plus a second worker with disjoint topics on a shared queue):
which function ran for which message id, and place / parameters of every non-matching message before
and after — judged against `Router.route` of the model and against the statement directly."""
# NOTE: no `from __future__ import annotations` (actors are declared here).

import implenv  # noqa: F401

import asyncio

import vtime
from common import NONE, A, Model, Result, Rng, sx
from memrun import S, snap_ids

from repid import BasicConverter, Connection, InMemoryMessageBroker, Job, Router, Worker

RULE = ("router sets: 1–4 routers × 0–4 registrations each over 4 names × 3 queues (+ registrations on the worker "
        "itself); jobs: every (name, queue) pair of the pools, ×2; a case = one (router set, job pair), distinct by "
        "(registrations, job name, job queue)")
F15 = "F15-mem-rotation-livelock"
ASSUMPTIONS = ["router sets on the in-memory broker; shared-queue scenarios also on the Redis and RabbitMQ brokers (in-process fake servers, assumption sets R, A: RabbitMQ requeues a rejected message at its original position)"]

NAMES = ["a", "ab", "b", "c"]     # one name a prefix of another: topics are compared whole
QUEUES = ["q1", "Q1", "q3"]        # queue names are compared as written (case included)


def gen_routers(rng: Rng) -> list:
    out = []
    fid = 0
    for _ in range(rng.choice([1, 2, 2, 3, 4])):
        regs = []
        for _ in range(rng.choice([0, 1, 2, 3, 4])):
            fid += 1
            regs.append((rng.choice(NAMES), rng.choice(QUEUES), fid))
        out.append(regs)
    return out


async def scenario(router_regs: list, jobs: list, second_worker: bool) -> dict:
    broker = InMemoryMessageBroker()
    conn = Connection(broker)
    ran: list = []

    def mk(fid):
        async def fn(x: int = 0) -> None:
            ran.append((fid, x))
        return fn
    routers = []
    for regs in router_regs:
        r = Router()
        for name, q, fid in regs:
            r.actor(mk(fid), name=name, queue=q, converter=BasicConverter)
        routers.append(r)
    w = Worker(routers=routers, handle_signals=[], _connection=conn)
    obs_actors = {n: (a.queue, None) for n, a in w.actors.items()}
    obs_tbq = {q: sorted(t) for q, t in w.topics_by_queue.items()}
    for q in QUEUES:
        await broker.queue_declare(q)
    ids = {}
    for i, (name, q) in enumerate(jobs):
        j = Job(name, queue=q, id_=f"j{i}", args={"x": i}, _connection=conn)
        await j.enqueue()
        ids[i] = (name, q)
    before = {q: snap_ids(broker, q) for q in QUEUES}
    tasks = []
    if w.actors and w.topics_by_queue:
        tasks.append(asyncio.ensure_future(w.run()))
    w2 = None
    if second_worker:
        # another worker serving a name the first one does not serve, on a queue it shares
        r2 = Router()
        free = [n for n in NAMES if n not in w.actors]
        if free:
            r2.actor(mk(1000), name=free[0], queue=QUEUES[0], converter=BasicConverter)
            w2 = Worker(routers=[r2], handle_signals=[], _connection=conn)
            tasks.append(asyncio.ensure_future(w2.run()))
    await asyncio.sleep(1.5)
    for t in tasks:
        t.cancel()
    await asyncio.gather(*tasks, return_exceptions=True)
    after = {q: {m.key.id_: (place, m.parameters.retries.already_tried)
                 for place, msgs in (("simple", list(broker.queues[q].simple._queue)), ("dead", broker.queues[q].dead),
                                     ("processing", list(broker.queues[q].processing)),
                                     ("delayed", [m for ms in broker.queues[q].delayed.values() for m in ms]))
                 for m in msgs} for q in QUEUES}
    errors = [repr(t.exception()) for t in tasks if t.done() and not t.cancelled() and t.exception() is not None]
    return {"actors": {n: a.queue for n, a in w.actors.items()}, "tbq": obs_tbq, "ran": ran, "ids": ids, "after": after,
            "second": None if w2 is None else {n: a.queue for n, a in w2.actors.items()}, "errors": errors}


def check(router_regs: list, jobs: list, o: dict, model: Model, res: Result, label: str) -> None:
    regs_sx = [[[n, q, f] for n, q, f in regs] for regs in router_regs]
    reqs = [sx([A("route.worker"), regs_sx])]
    for name, q in jobs:
        reqs.append(sx([A("route.route"), regs_sx, name, q]))
    ans = model.ask(reqs)
    res.extra["model_requests"] = res.extra.get("model_requests", 0) + len(ans)
    case = {"label": label, "routers": router_regs}
    # registration tables
    # model: (router ((name queue fn)…) ((queue (names…))…))
    from common import parse_sx
    t = parse_sx(ans[0])
    m_actors = {str(a[0]): str(a[1]) for a in t[1]}
    m_tbq = {str(e[0]): sorted(str(x) for x in e[1]) for e in t[2]}
    res.dist["router-set"] += 1
    res.note(("routers", sx(regs_sx)), sample=case if len(res.samples) < 3 else None)
    if m_actors != o["actors"] or m_tbq != o["tbq"]:
        res.bad("corr", "Route.worker model vs Worker.actors / topics_by_queue", case=case,
                observed={"actors": o["actors"], "topics_by_queue": o["tbq"]}, expected={"actors": m_actors, "topics_by_queue": m_tbq})
    # statement on the implementation's tables: topics_by_queue says exactly which (name, queue) pairs the actors have
    stmt = {}
    for n, q in o["actors"].items():
        stmt.setdefault(q, []).append(n)
    stmt = {q: sorted(v) for q, v in stmt.items()}
    if stmt != o["tbq"]:
        res.bad("impl", "topics served per queue differ from the (name, queue) pairs of the registered actors", case=case,
                observed=o["tbq"], expected=stmt)
    if o["errors"]:
        res.bad("impl", "a worker task died while serving its queues", case=case, observed=o["errors"])
    # behaviour
    fid_of = {}
    for regs in router_regs:
        for n, q, f in regs:
            fid_of[n] = (q, f)          # last registration wins
    for i, (name, q) in enumerate(jobs):
        route = ans[1 + i]
        jid = f"j{i}"
        runs = [f for f, x in o["ran"] if x == i]
        own = name in fid_of and fid_of[name][0] == q
        served_by_second = o["second"] is not None and o["second"].get(name) == q
        res.dist["job:" + ("own" if own else ("second" if served_by_second else "foreign"))] += 1
        res.note(("job", sx(regs_sx), name, q))
        jcase = dict(case, job={"name": name, "queue": q, "id": jid})
        exp_model = None if route == "none" else int(route)
        # with a second worker on a shared queue the two consumers poll in lock-step under virtual time: a job that was
        # simply not reached (still waiting, untouched) is the recorded livelock F15
        # (at the instant of the snapshot the rotating message may be in a consumer's hand: "processing", counter untouched)
        starved = o["second"] is not None and not runs and o["after"][q].get(jid) in (("simple", 0), ("processing", 0)) and q == QUEUES[0]
        if own:
            if runs != [fid_of[name][1]]:
                res.bad("impl", "a job was not executed exactly once by the actor registered (last) under its name", case=jcase,
                        observed=runs, expected=[fid_of[name][1]], finding=F15 if starved else None)
        elif served_by_second:
            if runs != [1000]:
                res.bad("impl", "a job of another worker's topic on a shared queue was not executed by that worker exactly once",
                        case=jcase, observed=runs, expected=[1000], finding=F15 if starved else None)
        else:
            here = o["after"][q].get(jid)
            if runs or here != ("simple", 0):
                res.bad("impl", "a message the worker has no actor for (by topic or by queue) was executed, moved or altered",
                        case=jcase, observed={"executed_by": runs, "now": here}, expected={"executed_by": [], "now": ("simple", 0)})
        if (exp_model is not None) != own or (own and exp_model != fid_of[name][1]):
            res.bad("corr", "Router.route of the model vs the statement's routing", case=jcase, observed=route,
                    expected=fid_of.get(name))


def run(ctx) -> Result:
    tier, seed = ctx["tier"], ctx["seed"]
    res = Result("C11")
    model = Model()
    deep = tier == "thorough" or ctx.get("search")
    # corpus first: the repaired defect F7 (name re-registered on another queue by a later router)
    fixed = [[("a", "q1", 1), ("b", "q1", 2)], [("a", "q3", 3)]]
    jobs = [(n, q) for n in NAMES for q in QUEUES]
    o = vtime.run(lambda loop: scenario(fixed, jobs, False), budget=20_000_000)
    check(fixed, jobs, o, model, res, "corpus/C11-F7 (regression)")
    for i in range(150 if deep else 30):
        rng = Rng(seed, f"c11/{i}")
        regs = gen_routers(rng)
        jobs = [(n, q) for n in NAMES for q in QUEUES]
        rng.shuffle(jobs)
        jobs = jobs + rng.sample(jobs, 4)
        o = vtime.run(lambda loop, r=regs, j=jobs, s=(i % 3 == 0): scenario(r, j, s), budget=20_000_000)
        check(regs, jobs, o, model, res, f"routers-{seed}-{i}")
    # shared queue on the Redis and RabbitMQ brokers (in-process fake servers): foreign and own messages interleaved, for
    # several sizes of the worker's delivery window (tasks_limit)
    for kind in ("redis", "rabbit"):
        for tl in (1, 2, 1000):
            for layout in range(4 if deep else 2):
                rng = Rng(seed, f"c11/{kind}/{tl}/{layout}")
                shared_queue(kind, tl, rng, res)
    return res


F25 = "F25-rabbit-foreign-head-blocks-window"


def shared_queue(kind: str, tl: int, rng: Rng, res: Result) -> None:
    from props import c02
    from workrun import S
    n = rng.randint(3, 7)
    jobs = []
    # the other worker's topic: unrelated, or sharing a prefix with the own one (either way round) — topics are whole names
    other = rng.choice(["foreign", "act2", "act_more", "ac"])
    for i in range(n):
        own = rng.random() < 0.6 or i == n - 1
        jobs.append({"id": f"{'o' if own else 'f'}{i}", "name": "act" if own else other, "queue": "default", "retries": 0,
                     "timeout": 10 * S, "plan": [{"k": "ret"}]})
    if layout_first_foreign := (rng.random() < 0.7):
        jobs[0].update(id="f0", name=other)
    sc = {"jobs": jobs, "actors": {"act": "default"}, "converter": "basic", "policy": {"kind": "const", "us": 0},
          "tasks_limit": tl, "horizon_s": 8.0, "broker": kind}
    r = vtime.run(lambda loop, s=sc: c02.run_scenario(s), budget=40_000_000)
    executed = sorted({e["id"] for e in r.events if e["kind"] == "actor_end"})
    own_ids = sorted(j["id"] for j in jobs if j["name"] == "act")
    foreign_ids = sorted(j["id"] for j in jobs if j["name"] != "act")
    places = r.msg_params()
    res.note(("shared-queue", kind, tl, tuple(j["name"] for j in jobs)))
    res.dist[f"shared-queue:{kind}:window{tl}"] += 1
    res.dist[f"shared-queue:other-topic:{other}"] += 1
    case = {"label": f"shared-queue-{kind}", "tasks_limit": tl, "other_topic": other, "queue": [[j["id"], j["name"]] for j in jobs]}
    if [x for x in executed if x in foreign_ids]:
        res.bad("impl", "a message of a topic the worker has no actor for was executed", case=case, observed=executed)
    if [x for x in own_ids if x not in executed]:
        # F25: as many foreign messages waiting as the delivery window is wide — they occupy the whole window
        blocked_by_head = kind == "rabbit" and len(foreign_ids) >= tl
        res.bad("impl", "own messages behind a foreign one in a shared queue were not executed: the worker blocks on a message it has "
                        "no actor for", case=case, observed={"executed": executed, "own": own_ids}, expected=own_ids,
                finding=F25 if blocked_by_head else None)
    for fid in foreign_ids:
        here = places.get(fid, [])
        if len(here) != 1 or here[0]["place"] in ("dead",) or here[0]["tried"] not in (0, None):
            res.bad("impl", "a foreign message was dropped, dead-lettered, duplicated or altered", case=dict(case, message=fid), observed=here)


def search(ctx) -> Result:
    return run(dict(ctx, tier="thorough"))
