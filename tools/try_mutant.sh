#!/bin/bash
# tools/try_mutant.sh <patch.diff> <property> [extra check args…]
# Applies the patch in a scratch worktree of /repo (outside /repo and /verif), runs the check
# against it (REPID_REPO), removes the worktree.  Exit code = the check's.
set -u
PATCH=$(realpath "$1"); PROP=$2; shift 2
WT=/tmp/mw_$$
git -C /repo worktree add --detach "$WT" HEAD -q || exit 2
( cd "$WT" && git apply "$PATCH" ) || { git -C /repo worktree remove --force "$WT"; echo "patch does not apply"; exit 2; }
cd "$(dirname "$0")/.."
REPID_REPO="$WT" ./check "$PROP" "$@"
rc=$?
git -C /repo worktree remove --force "$WT"
exit $rc
