/-
Middleware signals (code-model).  Anchors:
  repid/middlewares/wrapper.py:74-96   _middleware_wrapper.__call__ / call_set_context
  repid/middlewares/middleware.py:45-61,85-97   subscriber wrapper (kwargs filter, swallow Exception), emit_signal
  repid/connections/abc.py:28-53       instance methods wrapped in __new__, emitter set per instance
  repid/_processor.py:26               actor_run's emitter (class-level wrapper object)
-/
namespace Repid.Mw

/-- a wrapped operation as it is executed: its name, declared parameter names, the positional and keyword
    arguments of this call, the wrapped operations it calls itself (nested), whether it raises, its result -/
inductive Op where
  | mk (name : String) (params : List String) (args : List String) (kwargs : List (String × String))
       (children : List Op) (raises : Bool) (result : String)
  deriving Repr, Inhabited

def Op.name : Op → String | .mk n _ _ _ _ _ _ => n
def Op.raises : Op → Bool | .mk _ _ _ _ _ r _ => r
def Op.result : Op → String | .mk _ _ _ _ _ _ r => r
def Op.children : Op → List Op | .mk _ _ _ _ c _ _ => c

structure Signal where
  name : String                       -- "before_<op>" / "after_<op>"
  kwargs : List (String × String)
  deriving Repr, DecidableEq, Inhabited

/-- `dict.update` on association lists: later entries replace earlier ones with the same key -/
def dictUpdate (d : List (String × String)) : List (String × String) → List (String × String)
  | [] => d
  | (k, v) :: rest =>
    dictUpdate (if d.any (·.1 == k) then d.map (fun e => if e.1 == k then (k, v) else e) else d ++ [(k, v)]) rest

/-- `signal_kwargs = kwargs.copy(); signal_kwargs.update(zip(self.parameters, args))` -/
def signalKwargs : Op → List (String × String)
  | .mk _ params args kwargs _ _ _ => dictUpdate kwargs (params.zip args)

mutual
/-- signals emitted by one call of the wrapper: `inside` is the IsInsideMiddleware context flag, `emitter`
    whether `_repid_signal_emitter` is set on this wrapper object -/
def run (emitter inside : Bool) : Op → List Signal
  | .mk name params args kwargs children raises result =>
    if inside || !emitter then runAll emitter inside children
    else
      [{ name := "before_" ++ name, kwargs := signalKwargs (.mk name params args kwargs children raises result) }]
        ++ runAll emitter true children     -- the call runs in a child task whose context has the flag set
        ++ (if raises then []
            else [{ name := "after_" ++ name,
                    kwargs := dictUpdate (signalKwargs (.mk name params args kwargs children raises result)) [("result", result)] }])
def runAll (emitter inside : Bool) : List Op → List Signal
  | [] => []
  | o :: rest => run emitter inside o ++ runAll emitter inside rest
end

/-- the subscriber wrapper passes on only the keyword arguments the subscriber's positional-or-keyword
    parameters name -/
def subscriberKwargs (params : List String) (kw : List (String × String)) : List (String × String) :=
  kw.filter fun e => params.contains e.1

/-- outcome of an operation as its caller sees it (subscribers are not an input: whatever they return is
    discarded and any `Exception` they raise is swallowed by the subscriber wrapper) -/
def outcome (o : Op) : Except String String := if o.raises then .error o.name else .ok o.result

/-! ### Routing: which connection's subscribers receive a wrapper's signals

Every broker / bucket broker / consumer object gets wrappers of its own in `__new__`, and `Connection.__post_init__`
(consumers: `get_consumer`) stores the connection's `emit_signal` on them.  Processors are created one per worker run;
each wraps `actor_run` for itself (`fix:` 1c6a66c — before it all processors assigned the emitter of ONE class-level
wrapper, so the processor created last received everybody's `actor_run` signals). -/

/-- emitter of the `actor_run` wrapper used by the `i`-th created processor; `conns` = the connection of each
    processor in creation order -/
def actorRunEmitter (conns : List Nat) (i : Nat) : Option Nat := conns[i]?

/-- the class-level wrapper before the fix: the last assignment wins for every processor -/
def actorRunEmitterShared (conns : List Nat) (_i : Nat) : Option Nat := conns.getLast?

end Repid.Mw
