"""C05 — delayed messages are never delivered early and never forgotten (in-memory broker).

Tie: (i) random sessions: snapshot correspondence with the Lean code-model after every call, and
`Pred.C05.notEarlyMs` on every normal-category delivery of the implementation (due time = the key
under which the implementation filed the message at its last enqueue/requeue);
(ii) listening scenarios: a normal consumer keeps listening while messages with due times in
various orders/phases become due; every message must be delivered not early and within the
latency bound (`Pred.C05.latencyOk`)."""
from __future__ import annotations

import implenv  # noqa: F401

import asyncio

import memrun
import vtime
from common import NONE, A, Model, Result, Rng, sx
from memrun import S, MemSession, compare_with_model
from vtime import CLOCK

RULE = ("(i) random model-guided sessions (see C01) — a case is one normal-category delivery, distinct by "
        "(due class relative to delivery, how the message got there); (ii) listening scenarios: 1–5 messages with "
        "due offsets drawn from {−1 h, −1 µs, 0, +1 µs, 0.4 s, 0.999999 s, 1 s, 1.5 s, 2.75 s, far} in random "
        "enqueue order, consumer start phase 0…1 s in 50 ms steps, interleaved late enqueues")
ASSUMPTIONS = ["virtual clock: sleep(0.001) wakes after exactly 1 ms; wall-clock jitter is runtime",
               "latency bound = UPDATE_DELAYED_EVERY + 5 ms + 1 ms per message (poll counts, see C05.poll_progress)"]
F1 = "F1-mem-return-ignores-origin"


def opt(x):
    return NONE if x is None else x


def check_deliveries(s: MemSession, model: Model, res: Result, label: str) -> None:
    extra, meta = [], []
    for d in s.deliveries:
        if d["cat"] != "NORMAL":
            continue
        extra.append(sx([A("c05.notEarlyMs"), opt(d["due"]), d["at"]]))
        meta.append(d)
    first_bad, answers, ops = compare_with_model(s, model, res, label, extra)
    for d, ans in zip(meta, answers):
        cls = "immediate" if d["due"] is None else ("due-past" if d["due"] < d["at"] - S else "due-recent")
        res.dist["deliver:" + cls] += 1
        res.note(("deliver", cls, d["returned_nonnormal"], d["at"] - (d["due"] or 0) if d["due"] is not None else 0))
        if ans != "true":
            res.bad("impl", "Pred.C05.notEarlyMs on a normal-category delivery",
                    case={"label": label, "ops": ops[: d["log"] + 1], "delivery": d}, observed=ans, expected="true",
                    finding=F1 if d["returned_nonnormal"] else None)


OFFSETS = [-3600 * S, -1, 0, 1, 400_000, 999_999, S, 1_500_000, 2_750_000]


async def listening(rng: Rng) -> dict:
    """One consumer keeps listening; returns observations."""
    s = MemSession()
    await s.declare("q0")
    await s.start(0, "q0", "NORMAL", None)
    t0 = CLOCK.us
    k = rng.choice([1, 2, 3, 4, 5])
    offs = [rng.choice(OFFSETS) for _ in range(k)]
    if rng.random() < 0.4:
        offs[0] = rng.choice([6 * 3600 * S, 86400 * S])     # a far-future message enqueued first
    msgs = []
    for n, off in enumerate(offs):
        pd = {"ts": t0}
        mode = rng.choice(["next", "next", "delay_until", "next+defer"])
        if mode == "next":
            pd["next"] = t0 + off
        elif mode == "delay_until":
            pd["delay_until"] = t0 + off
        else:
            pd["next"] = t0 + off
            pd["defer_by"] = rng.choice([S, 10 * S])
        msgs.append((f"m{n}", pd))
    late = []
    if rng.random() < 0.5:
        late.append((rng.choice([100_000, 700_000, 1_200_000]), ("late", {"ts": t0, "next": t0 + rng.choice([1_300_000, 1_900_000, 2 * S])})))
    for i, pd in msgs:
        await s.enqueue("q0", i, "ta", "p", pd)
    phase = rng.randrange(0, 21) * 50_000
    CLOCK.advance(phase)
    listen_from = CLOCK.us
    near = [i for i, pd in msgs if s.due[i] is None or s.due[i] < t0 + 3600 * S]
    horizon = max([listen_from] + [s.due[i] or t0 for i in near] + [t0 + 2 * S]) + 3 * S
    got: list[dict] = []
    expected = set(near) | ({"late"} if late else set())
    # a busy queue: a producer keeps ordinary messages waiting all the time and the consumer needs 10 ms per message — a due
    # message must not wait behind "the queue is never empty"
    busy = rng.random() < 0.3

    async def consumer_loop():
        while len([g for g in got if g["id"] in expected]) < len(expected):
            key, payload, params = await s.consumers[0].consume()
            got.append({"id": key.id_, "at": CLOCK.us})
            await s.broker.ack(key)
            if busy:
                await asyncio.sleep(0.01)

    async def producer():
        from repid.data._key import RoutingKey
        from repid.data._parameters import Parameters
        n = 0
        while True:
            q = s.broker.queues["q0"]
            while q.simple.qsize() < 3:
                n += 1
                await s.broker.enqueue(RoutingKey(id_=f"busy{n}", topic="ta", queue="q0"), "", Parameters())
            await asyncio.sleep(0.004)

    async def late_enqueuer():
        for delay, (i, pd) in late:
            await asyncio.sleep(delay / 1e6)
            await s.enqueue("q0", i, "ta", "p", pd)

    task3 = asyncio.ensure_future(producer()) if busy else asyncio.ensure_future(asyncio.sleep(0))
    if busy:
        await asyncio.sleep(0)
        await asyncio.sleep(0)
    task = asyncio.ensure_future(consumer_loop())
    task2 = asyncio.ensure_future(late_enqueuer())
    try:
        await asyncio.wait_for(asyncio.shield(task), timeout=(horizon - CLOCK.us) / 1e6)
    except asyncio.TimeoutError:
        pass
    task.cancel()
    task2.cancel()
    task3.cancel()
    await asyncio.gather(task, task2, task3, return_exceptions=True)
    return {"session": s, "msgs": msgs, "late": late, "phase": phase, "listen_from": listen_from, "got": got, "busy": busy,
            "expected": sorted(expected), "horizon": horizon, "t0": t0, "nmsgs": len(msgs) + len(late)}


def check_listening(o: dict, model: Model, res: Result, label: str) -> None:
    s: MemSession = o["session"]
    case = {"label": label, "enqueued": [(i, pd) for i, pd in o["msgs"]], "late": o["late"], "consumer_phase_us": o["phase"],
            "busy_queue": o.get("busy", False)}
    res.dist["listen-scenario:" + ("busy-queue" if o.get("busy") else "idle-queue")] += 1
    # (busy queue: up to 4 ordinary messages of 10 ms each ahead of a message that has just become due)
    bound = 1_000_000 + 5_000 + 1_000 * o["nmsgs"] + (60_000 if o.get("busy") else 0)
    gotmap = {g["id"]: g["at"] for g in o["got"]}
    reqs, meta = [], []
    for i in o["expected"]:
        due = s.due.get(i)
        enq_time = next((op["now"] for op, _, _ in s.log if op.get("id") == i), o["t0"])
        listen = max(o["listen_from"], enq_time)
        if i in gotmap:
            reqs.append(sx([A("c05.notEarlyMs"), opt(due), gotmap[i]]))
            meta.append(("notEarlyMs", i, due, gotmap[i]))
            reqs.append(sx([A("c05.latencyOk"), due if due is not None else listen, listen, gotmap[i], bound]))
            meta.append(("latencyOk", i, due, gotmap[i]))
        else:
            # never delivered although a free consumer listened until the horizon: forgotten
            reqs.append(sx([A("c05.latencyOk"), due if due is not None else listen, listen, o["horizon"], bound]))
            meta.append(("latencyOk(forgotten)", i, due, None))
    # messages far in the future must NOT have been delivered
    for i, pd in o["msgs"]:
        if i not in o["expected"] and i in gotmap:
            reqs.append(sx([A("c05.notEarlyMs"), opt(s.due.get(i)), gotmap[i]]))
            meta.append(("notEarlyMs(far)", i, s.due.get(i), gotmap[i]))
    # the consumer runs concurrently with the enqueues here, so the call-level model comparison does
    # not apply; the Lean predicates are evaluated on the implementation's observations
    answers = model.ask(reqs)
    res.extra["model_requests"] = res.extra.get("model_requests", 0) + len(answers)
    for (what, i, due, at), ans in zip(meta, answers):
        res.dist["listen:" + what.split("(")[0]] += 1
        res.note(("listen", what, (due or 0) - o["listen_from"], o["phase"]), sample=case if len(res.samples) < 3 else None)
        if ans != "true":
            res.bad("impl", f"Pred.C05.{what} in a listening scenario", case=dict(case, id=i, due_us=due, delivered_at_us=at,
                    horizon_us=o["horizon"], bound_us=bound), observed=ans, expected="true")


def run(ctx) -> Result:
    tier, seed = ctx["tier"], ctx["seed"]
    res = Result("C05")
    model = Model()
    deep = tier == "thorough" or ctx.get("search")
    s = vtime.run(lambda loop: memrun.scripted_session(memrun.load_corpus("C05-F1.json")), budget=200_000)
    check_deliveries(s, model, res, "corpus/C05-F1.json")
    for i in range(300 if deep else 50):
        rng = Rng(seed, f"c05/{i}")
        s = vtime.run(lambda loop, r=rng: memrun.random_session(r, 60 if deep else 40), budget=500_000)
        check_deliveries(s, model, res, f"session-{seed}-{i}")
    for i in range(400 if deep else 60):
        rng = Rng(seed, f"c05/listen/{i}")
        o = vtime.run(lambda loop, r=rng: listening(r), budget=3_000_000)
        check_listening(o, model, res, f"listen-{seed}-{i}")
    # Redis broker: sessions on the real RedisMessageBroker/_RedisConsumer (in-process fake server) vs the Lean model
    # Redis.R, and this property's clauses on what the implementation did
    import redisrun
    res.merge(redisrun.part(ctx, "C05", ['mixed', 'ttl', 'mixed', 'poll'], crash=0, race=0))
    res.assumptions = list(getattr(res, "assumptions", []) or []) + redisrun.ASSUMPTIONS
    # RabbitMQ broker: sessions on the real RabbitMessageBroker/_RabbitConsumer (in-process fake AMQP server) vs Rabbit.S
    import rabbitrun
    res.merge(rabbitrun.part(ctx, "C05", ['mixed', 'ttl', 'mixed'], specials=['hol', 'nackcat']))
    res.assumptions = list(res.assumptions) + rabbitrun.ASSUMPTIONS
    return res


def search(ctx) -> Result:
    return run(dict(ctx, tier="thorough"))
