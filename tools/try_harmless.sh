#!/bin/bash
# tools/try_harmless.sh <patch.diff> [--lean]
# A behaviour-preserving rewrite of /repo must raise no alarm: applies the patch in a scratch worktree (outside /repo
# and /verif), runs every property's quick check against it (REPID_REPO), prints the checks that did not exit 0.
set -u
PATCH=$(realpath "$1"); LEAN=${2:-}
WT=/tmp/hw_$$
git -C /repo worktree add --detach "$WT" HEAD -q || exit 2
( cd "$WT" && git apply "$PATCH" ) || { git -C /repo worktree remove --force "$WT"; echo "patch does not apply"; exit 2; }
cd "$(dirname "$0")/.."
OUT=$(mktemp -d)
bad=0
run_one() { p=$1; if [ "$LEAN" = "--lean" ]; then REPID_REPO="$WT" ./check "$p" > "$OUT/$p.log" 2>&1; else REPID_REPO="$WT" ./check "$p" --no-lean > "$OUT/$p.log" 2>&1; fi; echo $? > "$OUT/$p.rc"; }
for i in $(seq -w 1 20); do run_one "C$i" & if (( 10#$i % 8 == 0 )); then wait; fi; done; wait
for i in $(seq -w 1 20); do rc=$(cat "$OUT/C$i.rc"); if [ "$rc" != 0 ]; then bad=1; echo "C$i rc=$rc: $(grep -m1 VIOLATION "$OUT/C$i.log" || tail -n 2 "$OUT/C$i.log" | head -c 300)"; fi; done
[ $bad = 0 ] && echo "no alarm: all 20 checks exit 0"
git -C /repo worktree remove --force "$WT"; rm -rf "$OUT"
exit $bad
