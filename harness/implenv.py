"""Import the implementation under test with the virtual clock installed.
Every property module imports this FIRST (before anything imports `repid`)."""
from __future__ import annotations

import os
import sys

import vtime

vtime.install(int(os.environ.get("VERIF_SEED", "0") or 0))

from common import REPO  # noqa: E402

if str(REPO) not in sys.path:
    sys.path.insert(0, str(REPO))

import logging  # noqa: E402

import repid  # noqa: E402,F401

logging.getLogger("repid").setLevel(logging.CRITICAL + 10)
logging.getLogger("repid").disabled = True
logging.getLogger("asyncio").setLevel(logging.CRITICAL + 10)

assert os.path.realpath(repid.__file__).startswith(os.path.realpath(str(REPO))), (
    f"repid imported from {repid.__file__}, expected under {REPO}"
)
