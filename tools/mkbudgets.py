#!/usr/bin/env python3
"""tools/mkbudgets.py — measure, on the unchanged /repo, how many event-loop callbacks every vtime.run call site needs
(thorough tier of every check, budgets uncapped) and write harness/budgets.json (site -> max callbacks used).
vtime.run then lets a run use 50x that before it counts as not finishing.  Re-run after changing generators."""
import collections
import json
import os
import subprocess
import tempfile
from pathlib import Path

VERIF = Path(__file__).resolve().parent.parent
log = tempfile.mktemp(prefix="budget_", suffix=".log")
env = dict(os.environ, VERIF_BUDGET_LOG=log)
procs = []
for i in range(1, 21):
    procs.append(subprocess.Popen([str(VERIF / "check"), f"C{i:02d}", "--tier", "thorough", "--no-lean"], cwd=str(VERIF), env=env,
                                  stdout=subprocess.DEVNULL, stderr=subprocess.DEVNULL))
    if len(procs) == 5:
        for p in procs:
            p.wait()
        procs = []
for p in procs:
    p.wait()
mx: dict = collections.defaultdict(int)
for line in open(log):
    site, _b, c = line.rsplit(" ", 2)
    mx[site] = max(mx[site], int(c))
(VERIF / "harness" / "budgets.json").write_text(json.dumps(dict(sorted(mx.items())), indent=1) + "\n")
os.remove(log)
print(f"{len(mx)} call sites")
