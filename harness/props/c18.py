"""C18 — dependencies resolve to exactly what their providers return.

Tie: random acyclic graphs of `Depends` objects (1–6 objects, fan-out 0–3, shared sub-dependencies, message
dependency leaves, sync/async providers, plain parameters with defaults of every kind, failing providers), an
actor with payload parameters and 1–3 dependency parameters, and override sequences between jobs (new function,
possibly another sub-dependency set).  Provider and actor functions are generated as source text and compiled, so
the real `inspect`-based declaration code runs.  Every provider returns the term (fn, resolved keyword
arguments); what the actor receives is compared with the Lean model `Deps.resolve`, provider call counts with
`Val.fns`; failing resolutions are judged by the disposition of the message.  Declarations: random signatures
(valid and each unsupported form) vs `Deps.declOk`, and the real function called with its resolved keyword
arguments vs `Deps.callProvider` (theorem accepted_declaration_callable)."""
# NOTE: no `from __future__ import annotations` (annotations must be objects).

import implenv  # noqa: F401

import asyncio
from datetime import timedelta

import vtime
from common import A, Model, Result, Rng, parse_sx, pmap, sx

from repid import BasicConverter, Connection, Depends, InMemoryMessageBroker, Job, MessageDependency, Router, Worker
from repid.converter import PydanticConverter

try:
    from typing import Annotated
except ImportError:  # pragma: no cover
    from typing_extensions import Annotated

RULE = ("graphs: 1–6 Depends objects × fan-out 0–3 (targets: message dependency or a higher-numbered object) × parameter "
        "kinds {positional-or-keyword, keyword-only} × plain defaulted parameters {positional-only, positional-or-keyword, "
        "keyword-only} × sync/async × failing; actor: 1–3 dependency parameters + payload parameters, converter {Basic, "
        "Pydantic}; 2–4 jobs per graph with 0–2 overrides before each; declarations: 40 random signatures per run over all "
        "parameter kinds × dependency/default flags; a case = one (graph, override sequence, job) or one signature")
F16 = "F16-pep563-dependency-parameters-not-recognised"
ASSUMPTIONS = ["in-memory broker; retry policy 1 s; providers raise Exception subclasses",
               "call counts are compared for successful resolutions only (after a failure the sibling providers keep running "
               "in the background — asyncio.gather does not cancel them — so their counts are not determined)",
               "cyclic declarations cannot be built in Python (a Depends object must exist before it is referenced)"]


# ------------------------------------------------------------------------------ generation
def gen_provider(rng: Rng, k: int, n: int, fn: int) -> dict:
    refs = []
    for i in range(rng.choice([0, 1, 1, 2, 2, 3])):
        targets = ["msg"] + [j for j in range(k + 1, n + 1)] * 2
        refs.append({"name": f"s{i}", "kind": rng.choice(["pk", "ko"]), "target": rng.choice(targets)})
    plains = []
    for i in range(rng.choice([0, 0, 1, 2])):
        plains.append({"name": f"o{i}", "kind": rng.choice(["po", "pk", "ko"])})
    return {"fn": fn, "refs": refs, "plains": plains, "sync": rng.random() < 0.3, "fails": rng.random() < 0.12}


def gen_case(rng: Rng) -> dict:
    n = rng.randint(1, 6)
    provs = {k: gen_provider(rng, k, n, k * 10) for k in range(1, n + 1)}
    actor_deps = []
    for i in range(rng.randint(1, 3)):
        actor_deps.append({"name": f"d{i}", "kind": rng.choice(["pk", "ko"]), "target": rng.choice(["msg"] + list(range(1, n + 1)) * 3)})
    # a second, separate Depends marker over the SAME provider function as marker n (written again in another signature):
    # the two are independent — overriding one says nothing about the other
    twin = rng.random() < 0.45
    if twin:
        provs[n + 1] = dict(provs[n], twin_of=n)
        for q in actor_deps + [q for p in provs.values() for q in p["refs"]]:
            if q["target"] == n and rng.random() < 0.5:
                q["target"] = n + 1
        if rng.random() < 0.7:
            actor_deps.append({"name": f"d{len(actor_deps)}", "kind": "ko", "target": rng.choice([n, n + 1])})
    rounds = []
    fresh = 1000
    for r in range(rng.randint(2, 4)):
        ovs = []
        for _ in range(rng.choice([0, 0, 1, 1, 2])):
            k = rng.randint(1, n + 1 if twin else n)
            fresh += 1
            p = gen_provider(rng, k, n, fresh)
            p["fails"] = rng.random() < 0.08
            ovs.append({"k": k, "provider": p})
        rounds.append({"overrides": ovs, "x": rng.randint(0, 9), "give_y": rng.random() < 0.5, "retries": rng.choice([0, 0, 1, 2])})
    case = {"n": n, "providers": provs, "actor_deps": actor_deps, "rounds": rounds,
            "converter": rng.choice(["basic", "basic", "pydantic"])}
    # a catch-all actor (`**kwargs`, Basic converter only): payload keys beyond the declared parameters reach it —
    # some of them named like a dependency parameter
    case["varkw"] = case["converter"] == "basic" and rng.random() < 0.3
    if case["varkw"]:
        for rd in rounds:
            rd["extra"] = rng.choice([None, None, "z", "z"] + [q["name"] for q in actor_deps] * 2)
    return case


def sig_of(p: dict) -> dict:
    """parameter lists in declaration order, with the flags the model needs"""
    po = [{"name": q["name"], "dflt": True, "dep": False} for q in p["plains"] if q["kind"] == "po"]
    need_default = bool(po)
    pk = [{"name": q["name"], "dflt": need_default, "dep": True} for q in p["refs"] if q["kind"] == "pk"]
    pk += [{"name": q["name"], "dflt": True, "dep": False} for q in p["plains"] if q["kind"] == "pk"]
    ko = [{"name": q["name"], "dflt": False, "dep": True} for q in p["refs"] if q["kind"] == "ko"]
    ko += [{"name": q["name"], "dflt": True, "dep": False} for q in p["plains"] if q["kind"] == "ko"]
    return {"po": po, "pk": pk, "ko": ko, "varpos": False, "varkw": False}


def sig_sx(s: dict):
    def ps(l):
        return [[A("p"), q["name"], bool(q["dflt"]), bool(q["dep"])] for q in l]
    return [A("sig"), ps(s["po"]), ps(s["pk"]), bool(s["varpos"]), ps(s["ko"]), bool(s["varkw"])]


def ref_sx(t):
    return A("msg") if t == "msg" else [A("prov"), t]


def env_sx(provs: dict):
    return [[k, p["fn"], sig_sx(sig_of(p)), [[q["name"], ref_sx(q["target"])] for q in p["refs"]], bool(p["fails"])]
            for k, p in sorted(provs.items())]


def param_src(q: dict, ann: str | None) -> str:
    s = q["name"]
    if ann is not None:
        s += f": {ann}"
    if q["dflt"]:
        s += " = None" if q["dep"] else f" = ('dflt', '{q['name']}')"
    return s


def fn_src(name: str, s: dict, ann_of, body: str, is_async: bool) -> str:
    parts = [param_src(q, ann_of(q)) for q in s["po"]]
    if s["po"]:
        parts.append("/")
    parts += [param_src(q, ann_of(q)) for q in s["pk"]]
    if s["varpos"]:
        parts.append("*args")
    elif s["ko"]:
        parts.append("*")
    parts += [param_src(q, ann_of(q)) for q in s["ko"]]
    if s["varkw"]:
        parts.append("**kwargs")
    return f"{'async ' if is_async else ''}def {name}({', '.join(parts)}):\n{body}\n"


class World:
    """the compiled program: Depends objects, provider functions, recorders"""

    def __init__(self) -> None:
        self.calls: list = []          # (fn, canonical kwargs)
        self.actor_calls: list = []
        self.D: dict = {}
        self.ns = {"Annotated": Annotated, "Depends": Depends, "MessageDependency": MessageDependency, "W": self}

    @staticmethod
    def canon(v):
        if isinstance(v, MessageDependency):
            return "msg"
        return v

    def provider_called(self, fn: int, fails: bool, deps: dict, plains: dict):
        term = ["app", fn, sorted([k, self.canon(v)] for k, v in deps.items())]
        self.calls.append((fn, term, {k: v for k, v in plains.items()}))
        if fails:
            raise RuntimeError(f"provider {fn} failed")
        return term

    def make_provider(self, p: dict):
        s = sig_of(p)
        target = {q["name"]: q["target"] for q in p["refs"]}

        def ann(q):
            if not q["dep"]:
                return None
            t = target[q["name"]]
            # (further metadata after the marker, as annotation libraries and docs tools add it)
            extra = ", 'doc'" if (p["fn"] + len(q["name"])) % 3 == 0 else ""
            return "MessageDependency" if t == "msg" else f"Annotated[object, D{t}{extra}]"
        deps = ", ".join(f"{q['name']}={q['name']}" for q in s["pk"] + s["ko"] if q["dep"])
        plains = ", ".join(f"{q['name']}={q['name']}" for q in s["po"] + s["pk"] + s["ko"] if not q["dep"])
        body = f"    return W.provider_called({p['fn']}, {bool(p['fails'])}, dict({deps}), dict({plains}))"
        name = f"prov_{p['fn']}"
        src = fn_src(name, s, ann, body, not p["sync"])
        exec(compile(src, f"<provider {p['fn']}>", "exec"), self.ns)  # noqa: S102
        return self.ns[name]

    def build(self, provs: dict) -> None:
        twins = {k: p for k, p in provs.items() if p.get("twin_of") is not None}
        for k in sorted(provs, reverse=True):
            if k in twins:
                continue
            d = Depends(self.make_provider(provs[k]))
            self.D[k] = d
            self.ns[f"D{k}"] = d
            for k2, p2 in twins.items():
                if p2["twin_of"] == k:
                    d2 = Depends(self.ns[f"prov_{p2['fn']}"])       # the very same function object, a marker of its own
                    self.D[k2] = d2
                    self.ns[f"D{k2}"] = d2

    def make_actor(self, actor_deps: list, varkw: bool = False):
        s = {"po": [], "pk": [{"name": "x", "dflt": False, "dep": False}, {"name": "y", "dflt": True, "dep": False}],
             "ko": [], "varpos": False, "varkw": varkw}
        for q in actor_deps:
            # positional-or-keyword dependency parameters come after `y` (which has a default): give them one too
            s["pk" if q["kind"] == "pk" else "ko"].append({"name": q["name"], "dflt": q["kind"] == "pk", "dep": True})
        target = {q["name"]: q["target"] for q in actor_deps}

        def ann(q):
            if q["name"] == "x":
                return "int"
            if q["name"] == "y":
                return None
            t = target[q["name"]]
            extra = ", 'doc', 42" if len(target) % 2 == 0 else ""
            return "MessageDependency" if t == "msg" else f"Annotated[object, D{t}{extra}]"
        deps = ", ".join(f"{q['name']}={q['name']}" for q in actor_deps)
        more = ", **kwargs" if varkw else ""
        body = f"    W.actor_calls.append((dict(x=x, y=y{more}), {{k: W.canon(v) for k, v in dict({deps}).items()}}))"
        src = fn_src("the_actor", s, ann, body, True)
        # `y`'s default must be a plain value for the Pydantic converter
        src = src.replace("y = ('dflt', 'y')", "y: int = 77")
        exec(compile(src, "<actor>", "exec"), self.ns)  # noqa: S102
        return self.ns["the_actor"]


def val_py(v):
    """model value → the term the recording providers build"""
    if v == "msg":
        return "msg"
    return ["app", int(v[1]), sorted([str(k), val_py(x)] for k, x in v[2])]


# ------------------------------------------------------------------------------ scenario
async def scenario(case: dict) -> dict:
    w = World()
    conn = Connection(InMemoryMessageBroker())
    r = Router()
    try:
        w.build(case["providers"])
        actor = w.make_actor(case["actor_deps"], case.get("varkw", False))
        r.actor(actor, name="the_actor", queue="q", retry_policy=lambda retry_number=1: timedelta(seconds=1),
                converter=BasicConverter if case["converter"] == "basic" else PydanticConverter)
    except Exception as e:  # noqa: BLE001
        return {"rounds": [], "died": None, "declare_error": f"{type(e).__name__}: {e}"}
    worker = Worker(routers=[r], handle_signals=[], _connection=conn)
    await conn.message_broker.queue_declare("q")
    task = asyncio.ensure_future(worker.run())
    out = []
    for i, rd in enumerate(case["rounds"]):
        errs = []
        for ov in rd["overrides"]:
            try:
                w.D[ov["k"]].override(w.make_provider(ov["provider"]))
            except Exception as e:  # noqa: BLE001
                errs.append(repr(e))
        w.calls.clear()
        w.actor_calls.clear()
        args = {"x": rd["x"]}
        if rd["give_y"]:
            args["y"] = 5
        if rd.get("extra"):
            args[rd["extra"]] = "from-payload"
        await Job("the_actor", queue="q", id_=f"j{i}", args=args, retries=rd["retries"], _connection=conn).enqueue()
        await asyncio.sleep(12)
        q = conn.message_broker.queues["q"]
        place = None
        for name, msgs in (("simple", list(q.simple._queue)), ("dead", q.dead), ("processing", list(q.processing)),
                           ("delayed", [m for ms in q.delayed.values() for m in ms])):
            for m in msgs:
                if m.key.id_ == f"j{i}":
                    place = [name, m.parameters.retries.already_tried]
        out.append({"actor_calls": list(w.actor_calls), "calls": [(fn, t) for fn, t, _ in w.calls],
                    "plains": [[fn, sorted(pl.items())] for fn, _, pl in w.calls], "place": place, "override_errors": errs})
    task.cancel()
    await asyncio.gather(task, return_exceptions=True)
    died = repr(task.exception()) if task.done() and not task.cancelled() and task.exception() is not None else None
    return {"rounds": out, "died": died}


def check_case(case: dict, o: dict, model: Model, res: Result, label: str) -> None:
    provs = {k: dict(p) for k, p in case["providers"].items()}
    if o.get("declare_error"):
        res.bad("impl", "a supported declaration (every provider parameter a dependency or defaulted; dependency markers inside "
                        "Annotated, possibly followed by further metadata) was rejected when the graph was declared",
                case={"label": label, "case": case}, observed=o["declare_error"], expected="accepted")
        return
    if o["died"]:
        res.bad("impl", "the worker died", case={"label": label, "case": case}, observed=o["died"])
    for i, (rd, ob) in enumerate(zip(case["rounds"], o["rounds"])):
        for ov in rd["overrides"]:
            provs[ov["k"]] = ov["provider"]
        env = env_sx(provs)
        reqs = [sx([A("deps.resolve"), env, ref_sx(q["target"])]) for q in case["actor_deps"]]
        ans = [parse_sx(a) for a in model.ask(reqs)]
        res.extra["model_requests"] = res.extra.get("model_requests", 0) + len(ans)
        rcase = {"label": label, "round": i, "case": case}
        res.note(("round", sx(env), repr(case["actor_deps"]), rd["x"], rd["give_y"], rd["retries"]),
                 sample=rcase if len(res.samples) < 2 else None)
        if ob["override_errors"]:
            res.bad("corr", "an override with a supported declaration was rejected", case=rcase, observed=ob["override_errors"])
        ok = all(str(a[0]) == "ok" for a in ans)
        depth = max([_depth(a[1]) for a in ans if str(a[0]) == "ok"] or [0])
        res.dist["resolution:" + ("ok" if ok else "fails")] += 1
        res.dist[f"depth:{depth}"] += 1
        res.dist["overrides:" + str(len(rd["overrides"]))] += 1
        res.dist["converter:" + case["converter"]] += 1
        if any(str(a[0]) == "error" and str(a[1]) != "failed" for a in ans):
            res.bad("corr", "model could not resolve a generated graph", case=rcase, observed=[sx(a) for a in ans])
            continue
        clash = rd.get("extra") in [q["name"] for q in case["actor_deps"]]
        res.dist["payload-extra:" + ("dependency-name" if clash else str(rd.get("extra")))] += 1
        if ok and clash:
            # a payload key named like a dependency parameter (the Lean side of this point: C08 dep_key_collision_fails).
            # The property speaks about every invocation: whichever happened received the providers' values
            exp_deps = {q["name"]: val_py(a[1]) for q, a in zip(case["actor_deps"], ans)}
            wrong = [c for c in ob["actor_calls"] if c[1] != exp_deps]
            if wrong:
                res.bad("impl", "an actor invocation received, in a dependency parameter, something else than the value its "
                                "provider returned (a payload entry of the same name took its place)", case=rcase,
                        observed=wrong, expected=exp_deps)
        elif ok:
            exp_deps = {q["name"]: val_py(a[1]) for q, a in zip(case["actor_deps"], ans)}
            exp_payload = {"x": rd["x"], "y": 5 if rd["give_y"] else 77}
            if rd.get("extra"):
                exp_payload[rd["extra"]] = "from-payload"
            exp_calls = sorted(f for a in ans for f in (int(x) for x in a[2]))
            shared = len(exp_calls) != len(set(exp_calls))
            res.dist["shared-provider"] += int(shared)
            if ob["actor_calls"] != [(exp_payload, exp_deps)]:
                res.bad("impl", "the actor did not receive, next to its payload arguments, for each dependency parameter the "
                                "value its (current) provider returns for its own resolved sub-dependencies — exactly once",
                        case=rcase, observed=ob["actor_calls"], expected=[(exp_payload, exp_deps)])
            if sorted(fn for fn, _ in ob["calls"]) != exp_calls:
                res.bad("impl", "providers called differ from the current providers reachable from the actor's parameters "
                                "(once per use)", case=rcase, observed=sorted(fn for fn, _ in ob["calls"]), expected=exp_calls)
            bad_plain = [x for x in ob["plains"] if any(v != ("dflt", k) for k, v in x[1])]
            if bad_plain:
                res.bad("impl", "a provider's non-dependency parameter did not receive its default", case=rcase, observed=bad_plain)
            if ob["place"] is not None:
                res.bad("impl", "a successfully executed message was not acknowledged", case=rcase, observed=ob["place"])
        else:
            if ob["actor_calls"]:
                res.bad("impl", "the actor ran although a provider below one of its parameters failed", case=rcase,
                        observed=ob["actor_calls"])
            failing = {int(a[2]) for a in ans if str(a[0]) == "error"}
            n_failed = sum(1 for fn, _ in ob["calls"] if fn in failing)
            if ob["place"] != ["dead", rd["retries"]] or n_failed < rd["retries"] + 1:
                res.bad("impl", "a provider failure was not treated as a failed execution following the retry rules "
                                "(retries+1 attempts, then dead-lettered)", case=rcase,
                        observed={"place": ob["place"], "failing_provider_calls": n_failed},
                        expected={"place": ["dead", rd["retries"]], "failing_provider_calls": f">= {rd['retries'] + 1}"})


def _depth(v) -> int:
    if v == "msg" or not isinstance(v, list):
        return 0
    return 1 + max([_depth(x[1]) for x in v[2]] or [0])


# ------------------------------------------------------------------------------ declarations
def gen_sig(rng: Rng) -> dict:
    def plist(prefix, n, allow_nodefault_last_only):
        out = []
        for i in range(n):
            out.append({"name": f"{prefix}{i}", "dflt": rng.random() < 0.6, "dep": rng.random() < 0.5})
        return out
    s = {"po": plist("a", rng.choice([0, 0, 1, 2]), False), "pk": plist("b", rng.choice([0, 1, 2, 3]), False),
         "ko": plist("c", rng.choice([0, 0, 1, 2]), False), "varpos": rng.random() < 0.12, "varkw": rng.random() < 0.12}
    # Python's own rule: positional parameters without default may not follow one with default
    seen_default = False
    for q in s["po"] + s["pk"]:
        if seen_default:
            q["dflt"] = True
        seen_default = seen_default or q["dflt"]
    return s


def check_decl(seed: int, i: int, model: Model, res: Result) -> None:
    rng = Rng(seed, f"c18/decl/{i}")
    s = gen_sig(rng)
    marker = Depends(lambda: 0)
    ns = {"Annotated": Annotated, "M": marker, "MessageDependency": MessageDependency}
    use_msg = rng.random() < 0.3

    def ann(q):
        if not q["dep"]:
            return None
        return "MessageDependency" if use_msg else "Annotated[object, M]"
    names = [q["name"] for q in s["po"] + s["pk"] + s["ko"]]
    body = "    return dict(" + ", ".join(f"{n}={n}" for n in names) + ")"
    src = fn_src("f", s, ann, body, rng.random() < 0.5)
    exec(compile(src, "<decl>", "exec"), ns)  # noqa: S102
    f = ns["f"]
    ans = model.ask([sx([A("deps.decl"), sig_sx(s)]), sx([A("deps.call"), sig_sx(s)])])
    res.extra["model_requests"] = res.extra.get("model_requests", 0) + 2
    accepted_model = ans[0] == "true"
    case = {"label": f"decl-{seed}-{i}", "source": src}
    try:
        Depends(f)
        accepted = True
        err = None
    except ValueError as e:
        accepted, err = False, str(e)
    res.note(("decl", src))
    res.dist["decl:" + ("accepted" if accepted_model else "rejected")] += 1
    if accepted != accepted_model:
        res.bad("corr", "Deps.declOk vs Depends(fn) (ValueError at declaration)", case=case, observed=[accepted, err], expected=accepted_model)
    if not accepted_model and accepted:
        return
    if accepted_model:
        # the accepted function is callable with its resolved keyword arguments, binding as the model says
        kw = {q["name"]: ("dep", q["name"]) for q in s["pk"] + s["ko"] if q["dep"]}
        try:
            r = f(**kw)
            if asyncio.iscoroutine(r):
                try:
                    r.send(None)
                except StopIteration as st:
                    r = st.value
            got = sorted((k, list(v) if isinstance(v, tuple) else v) for k, v in r.items())
            ok = True
        except TypeError as e:
            got, ok = str(e), False
        m = parse_sx(ans[1])
        if str(m[0]) != "bound":
            res.bad("proof", "accepted_declaration_callable: the model itself rejects the call of an accepted declaration",
                    case=case, observed=ans[1])
            return
        exp = sorted((str(e[0]), [str(e[1][0]), str(e[1][1])]) for e in m[1])
        if not ok or got != exp:
            res.bad("impl", "a provider declaration accepted at declaration time was rejected at run time, or its parameters were "
                            "not bound to the resolved dependencies / their defaults", case=case, observed=got, expected=exp)


PEP563_SRC = '''
from __future__ import annotations
from typing import Annotated
from repid import Depends, MessageDependency
def prov() -> int:
    return 5
D = Depends(prov)
async def actor563(x: int, m: MessageDependency, d: Annotated[int, D]) -> None:
    SEEN.append((x, type(m).__name__, d))
'''


async def pep563() -> dict:
    seen: list = []
    ns = {"SEEN": seen}
    exec(compile(PEP563_SRC, "<pep563>", "exec"), ns)  # noqa: S102
    conn = Connection(InMemoryMessageBroker())
    r = Router()
    try:
        r.actor(ns["actor563"], converter=BasicConverter)
    except Exception as e:  # noqa: BLE001
        return {"declared": False, "error": repr(e)}
    w = Worker(routers=[r], handle_signals=[], _connection=conn, messages_limit=1)
    await conn.message_broker.queue_declare("default")
    await Job("actor563", args={"x": 1}, id_="p1", _connection=conn).enqueue()
    await w.run()
    q = conn.message_broker.queues["default"]
    return {"declared": True, "seen": seen, "dead": [m.key.id_ for m in q.dead]}


def one(arg):
    kind, seed, i = arg
    res = Result("C18")
    model = Model()
    if kind == "g":
        rng = Rng(seed, f"c18/graph/{i}")
        case = gen_case(rng)
        o = vtime.run(lambda loop: scenario(case), budget=20_000_000)
        check_case(case, o, model, res, f"graph-{seed}-{i}")
    elif kind == "d":
        for j in range(i * 10, i * 10 + 10):
            check_decl(seed, j, model, res)
    else:
        o = vtime.run(lambda loop: pep563(), budget=2_000_000)
        res.note(("pep563",))
        res.dist["pep563"] += 1
        if o["declared"] and o.get("seen") != [(1, "MessageDependency", 5)]:
            res.bad("impl", "an actor whose module uses `from __future__ import annotations` (string annotations) was accepted at "
                            "declaration, but its dependency parameters were not recognised: every execution fails at run time",
                    case={"label": "pep563", "source": PEP563_SRC, "converter": "BasicConverter"}, observed=o,
                    expected="rejected at declaration, or (1, MessageDependency, 5) received", finding=F16)
    return res


def run(ctx) -> Result:
    tier, seed = ctx["tier"], ctx["seed"]
    res = Result("C18")
    deep = tier == "thorough" or ctx.get("search")
    items = [("p", seed, 0)] + [("g", seed, i) for i in range(200 if deep else 40)] + [("d", seed, i) for i in range(20 if deep else 4)]
    for r in pmap(one, items):
        res.merge(r)
    return res


def search(ctx) -> Result:
    return run(dict(ctx, tier="thorough"))
