import RepidModel.Driver.State
import RepidModel.Driver.Mem

namespace Repid.Driver
open Repid Sexp Wire Rabbit

def qnOf : Sexp → Option Qn
  | .atom "NORMAL" => some .main | .atom "DELAYED" => some .delayed | .atom "DEAD" => some .dead
  | _ => none

def qnTo : Qn → Sexp
  | .main => .atom "NORMAL" | .delayed => .atom "DELAYED" | .dead => .atom "DEAD"

/-- (A id topic prio payload params) -/
def amsgOf : Sexp → Option Rabbit.Msg
  | .list [.atom "A", i, t, pr, pl, p] => do
    pure { id := ← toStr? i, topic := ← toStr? t, prio := ← toNat? pr, payload := ← toStr? pl, params := ← paramsOf p }
  | _ => none

def amsgTo (m : Rabbit.Msg) : Sexp := .list [.atom "A", .str m.id, .str m.topic, ofNat m.prio, .str m.payload, paramsTo m.params]

def ids (l : List Rabbit.Msg) : Sexp := ofList (fun m : Rabbit.Msg => .str m.id) l

def sTo (s : S) : Sexp :=
  .list [.atom "S", ids s.main, ids s.delayed, ids s.dead,
    ofList (fun e : Nat × Qn × Rabbit.Msg => .list [ofNat e.1, qnTo e.2.1, .str e.2.2.id])
      (s.unacked.mergeSort fun a b => a.2.2.id ≤ b.2.2.id),
    ofList (fun e : Nat × Cons => .list [ofNat e.1, ids e.2.loc]) (s.consumers.mergeSort fun a b => a.1 ≤ b.1),
    ids (s.dropped.mergeSort fun a b => a.id ≤ b.id)]

def rabbit : Handler := fun st cmd args =>
  match cmd, args with
  | "rabbit.reset", [] => some ({ st with rabbit := {} }, .atom "ok")
  | "rabbit.snapshot", [] => some (st, sTo st.rabbit)
  | "rabbit.consumer", [c, cat, topics] => do
    let s := st.rabbit
    let s := { s with consumers := s.consumers ++ [(← toNat? c, { cat := ← qnOf cat, topics := ← mapM? toStr? topics })] }
    pure ({ st with rabbit := s }, sTo s)
  | "rabbit.publish", [m, ms, now] => do
    let m ← amsgOf m; noCron m.params
    let s := publish st.rabbit m (← toOpt? toInt? ms) (← toInt? now)
    pure ({ st with rabbit := s }, sTo s)
  | "rabbit.settle", [now] => do
    let s := settle st.rabbit (← toInt? now)
    pure ({ st with rabbit := s }, sTo s)
  | "rabbit.consume", [c, now] => do
    let cid ← toNat? c
    let cat ← (st.rabbit.consumers.find? (·.1 == cid)).map (·.2.cat)
    let (s, m) := consume (← toInt? now) cat (st.rabbit.unacked.length + 1) st.rabbit cid
    pure ({ st with rabbit := s }, .list [.atom "res", ofOpt amsgTo m, sTo s])
  | "rabbit.ack", [i] => do let s := ack st.rabbit (← toStr? i); pure ({ st with rabbit := s }, sTo s)
  | "rabbit.nack", [i] => do let s := nack st.rabbit (← toStr? i); pure ({ st with rabbit := s }, sTo s)
  | "rabbit.reject", [i] => do let s := reject st.rabbit (← toStr? i); pure ({ st with rabbit := s }, sTo s)
  | "rabbit.finish", [c, now] => do let s := finish st.rabbit (← toNat? c) (← toInt? now); pure ({ st with rabbit := s }, sTo s)
  | "rabbit.millisOk", [d, ms] => do pure (st, ofBool (millisOk (← toInt? d) (← toInt? ms)))
  | _, _ => none

end Repid.Driver
