/-
Helper lemmas for the per-operation clauses of C01.
-/
import RepidModel.Pred.C01
import RepidProofs.Proofs.MemStep

namespace Repid.Mem
open List Pred.C01

theorem cntId_eq_cnt (i : String) (l : List Msg) : cntId i l = cnt i l := rfl

theorem total_eq_live (i : String) (q : Q) : total i q = live i q + cnt i q.acked + cnt i q.limbo := by
  simp [total, live, cntId_eq_cnt]

theorem findHeld_id {q : Q} {i : String} {h : Held} (hf : findHeld q i = some h) : h.msg.id = i := by
  unfold findHeld at hf
  have := List.find?_some hf
  simpa using this

theorem findHeld_mem {q : Q} {i : String} {h : Held} (hf : findHeld q i = some h) : h ∈ q.processing := by
  unfold findHeld at hf
  exact List.mem_of_find?_eq_some hf

/-- a held id contributes at least one to the held count -/
theorem held_count_pos {q : Q} {i : String} {h : Held} (hf : findHeld q i = some h) :
    cnt i (heldMsgs q) = cnt i ((dropHeld q i).map (·.msg)) + 1 := by
  have := cnt_held_find i q.processing i h (by simpa [findHeld] using hf)
  simp [heldMsgs, dropHeld, findHeld_id hf] at *
  exact this

end Repid.Mem
