"""C14 — a message is held by at most one consumer at a time (in-memory broker).

Tie: random sessions with 2–4 consumers (mostly on one queue); after EVERY call the Lean predicate
`Pred.C14.singleHolder` is evaluated on the set of (consumer, id) pairs the implementation has
handed out and whose holder has not disposed of them; snapshot correspondence with the code-model
after every call."""
from __future__ import annotations

import implenv  # noqa: F401

import memrun
import vtime
from common import A, Model, Result, Rng, sx
from memrun import S, MemSession, compare_with_model, gen_params
from vtime import CLOCK

RULE = ("random multi-consumer sessions: 2–4 consumers of one queue with random topic filters, enqueue / consume / "
        "terminal actions by the holder / finish+restart; a case = one call, distinct by (op, number of holders, "
        "number of consumers holding something)")
ASSUMPTIONS = ["a consumer 'holds' an id from the return of consume() until it acks/nacks/rejects/requeues it or finishes itself"]
F3 = "F3-mem-finish-returns-others"


async def multi_session(rng: Rng, n_ops: int) -> MemSession:
    s = MemSession()
    await s.declare("q0")
    ncons = rng.choice([2, 2, 3, 4])
    topics_pool = ["ta", "tb"]
    t0 = CLOCK.us
    cats = {}
    for c in range(ncons):
        # beside the normal consumers, now and then one that inspects the DELAYED category (it takes messages whatever their time)
        cats[c] = "NORMAL" if c < 2 else rng.choice(["NORMAL", "NORMAL", "DELAYED"])
        await s.start(c, "q0", cats[c], rng.choice([None, None, ["ta"], ["ta", "tb"]]))
    live = set(range(ncons))
    nid = 0
    for _ in range(n_ops):
        r = rng.random()
        held_by: dict = {}
        for i, h in s.held.items():
            held_by.setdefault(h["c"], []).append(i)
        if r < 0.30 or nid == 0:
            nid += 1
            pd = {"ts": CLOCK.us}
            if rng.random() < 0.3:
                # (several messages scheduled for one and the same instant share a slot of the delayed table)
                pd["next"] = rng.choice([CLOCK.us - 1, CLOCK.us + 500_000, t0 + 3600 * S, t0 + 3600 * S])
            await s.enqueue("q0", f"m{nid}", rng.choice(topics_pool), f"p{nid}", pd)
        elif r < 0.36:
            s.advance(rng.choice([0, 1000, 600_000]))
        elif r < 0.70 and live:
            await s.consume(rng.choice(sorted(live)), rng.choice([1, 2, 3]))
        elif r < 0.90 and held_by:
            c = rng.choice(sorted(held_by))
            i = rng.choice(sorted(held_by[c]))
            kind = rng.choice(["ack", "nack", "reject", "reject", "requeue"])
            if kind == "requeue":
                key, payload, params = s.msgs[i]
                await s.enqueue("q0", i, key.topic, payload + "'", {"ts": CLOCK.us}, requeue=True)
            else:
                await s.terminal(kind, "q0", i)
        elif live:
            c = rng.choice(sorted(live))
            await s.finish(c)
            info = s.cinfo[c]
            await s.start(c, "q0", cats[c], info["topics"] or None)
        else:
            s.advance(1)
    return s


def check_session(s: MemSession, model: Model, res: Result, label: str) -> None:
    extra = [sx([A("c14.singleHolder"), [[c, i] for c, i in bel]]) for _, bel in s.bel_log]
    first_bad, answers, ops = compare_with_model(s, model, res, label, extra)
    for (idx, bel), ans in zip(s.bel_log, answers):
        op = s.log[idx][0]
        res.dist[op["op"]] += 1
        res.note((op["op"], len(bel), len({c for c, _ in bel})), sample={"label": label, "ops": ops[:6]} if len(res.samples) < 2 else None)
        if ans != "true":
            dup = [i for _, i in bel if sum(1 for _, j in bel if j == i) > 1]
            trig = F3 if dup and all(i in s.stolen for i in dup) else None
            res.bad("impl", "Pred.C14.singleHolder after a call", case={"label": label, "ops": ops[: idx + 1], "believes": bel},
                    observed=ans, expected="true", finding=trig)
            break


async def concurrent_round(rng: Rng) -> dict:
    """Several consumers of one queue call consume() CONCURRENTLY (same loop turn), with immediate and
    just-due delayed messages present; repeated for a few rounds with random disposals in between."""
    import asyncio
    s = MemSession()
    await s.declare("q0")
    ncons = rng.choice([2, 3, 4])
    for c in range(ncons):
        await s.start(c, "q0", "NORMAL", None)
    believes: list[tuple[int, str]] = []
    history = []
    nid = 0
    for rnd in range(rng.choice([2, 3, 4])):
        for _ in range(rng.choice([1, 2, 3, 5])):
            nid += 1
            pd = {"ts": CLOCK.us}
            r = rng.random()
            if r < 0.5:
                pd["next"] = CLOCK.us + rng.choice([-1, 0, 200_000, 700_000])
            await s.enqueue("q0", f"m{nid}", "ta", f"p{nid}", pd)
        CLOCK.advance(rng.choice([1, 300_000, 1_000_001]))

        async def one(c):
            try:
                key, _, _ = await asyncio.wait_for(s.consumers[c].consume(), timeout=rng.choice([0.0025, 0.0055]))
                return (c, key.id_)
            except asyncio.TimeoutError:
                return None
        got = [g for g in await asyncio.gather(*[one(c) for c in range(ncons)]) if g]
        believes.extend(got)
        history.append({"round": rnd, "delivered": got})
        # holders dispose of some of what they hold
        for (c, i) in list(believes):
            if rng.random() < 0.6:
                kind = rng.choice(["ack", "reject", "nack"])
                from repid.data._key import RoutingKey
                await getattr(s.broker, kind)(RoutingKey(topic="ta", queue="q0", priority=5, id_=i))
                believes = [b for b in believes if b != (c, i)]
        history[-1]["believes_after"] = list(believes)
        history[-1]["snapshot"] = memrun.snap_ids(s.broker, "q0")
    return {"ncons": ncons, "history": history}


def check_concurrent(o: dict, model: Model, res: Result, label: str) -> None:
    reqs = []
    for h in o["history"]:
        prior = []
        reqs.append(sx([A("c14.singleHolder"), [[c, i] for c, i in h["delivered"]] ]))
        reqs.append(sx([A("c14.singleHolder"), [[c, i] for c, i in h["believes_after"]]]))
    answers = model.ask(reqs)
    res.extra["model_requests"] = res.extra.get("model_requests", 0) + len(answers)
    for n, h in enumerate(o["history"]):
        res.dist["concurrent-round"] += 1
        res.note(("concurrent", o["ncons"], len(h["delivered"]), n))
        snap = h["snapshot"]
        flat = snap["simple"] + [i for _, ids in snap["delayed"] for i in ids] + snap["dead"] + snap["processing"]
        dup = sorted({i for i in flat if flat.count(i) > 1})
        if answers[2 * n] != "true" or answers[2 * n + 1] != "true" or dup:
            res.bad("impl", "one message delivered to two consumers in concurrent consume() calls (or duplicated in the queue)",
                    case={"label": label, "consumers": o["ncons"], "history": o["history"][: n + 1]},
                    observed={"delivered": h["delivered"], "duplicates_in_queue": dup}, expected="each id to at most one consumer")
            return


def run(ctx) -> Result:
    tier, seed = ctx["tier"], ctx["seed"]
    res = Result("C14")
    model = Model()
    deep = tier == "thorough" or ctx.get("search")
    s = vtime.run(lambda loop: memrun.scripted_session(memrun.load_corpus("C14-F3.json")), budget=200_000)
    check_session(s, model, res, "corpus/C14-F3.json")
    for i in range(500 if deep else 80):
        rng = Rng(seed, f"c14/{i}")
        s = vtime.run(lambda loop, r=rng: multi_session(r, 80 if deep else 45), budget=500_000)
        check_session(s, model, res, f"multi-{seed}-{i}")
    for i in range(300 if deep else 60):
        rng = Rng(seed, f"c14/conc/{i}")
        o = vtime.run(lambda loop, r=rng: concurrent_round(r), budget=500_000)
        check_concurrent(o, model, res, f"concurrent-{seed}-{i}")
    # worker level ("a job whose actor succeeds is executed exactly once"): a worker is stopped at every callback
    # index around a succeeding execution; a message whose ack returned must not also be back in the queue
    # (it would be executed a second time by the next worker)
    from common import pmap
    from props import c03
    for part in pmap(c03._combo, [(0, 0.0, True), (2, 0.002, True), (0, 0.002, True), (4, 0.002, True)]):
        res.evaluations += part.evaluations
        res.cases |= {("worker-stop",) + (k if isinstance(k, tuple) else (k,)) for k in part.cases}
        res.dist["worker-stop-points"] += part.extra.get("crash_points_enumerated", 0)
        for p in part.problems:
            if p.kind == "impl" and "both completed" in p.what:
                res.bad("impl", "a successfully executed job is back in the queue after the worker stopped (it will run twice)",
                        case=p.case, observed=p.observed, expected="acked and gone")
    # Redis broker: sessions on the real RedisMessageBroker/_RedisConsumer (in-process fake server) vs the Lean model
    # Redis.R, and this property's clauses on what the implementation did
    import redisrun
    res.merge(redisrun.part(ctx, "C14", ['race', 'mixed'], crash=0, race=8))
    res.assumptions = list(getattr(res, "assumptions", []) or []) + redisrun.ASSUMPTIONS
    return res


def search(ctx) -> Result:
    return run(dict(ctx, tier="thorough"))
