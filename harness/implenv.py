"""Import the implementation under test with the virtual clock installed.
Every property module imports this FIRST (before anything imports `repid`)."""
from __future__ import annotations

import os
import sys

import vtime

vtime.install(int(os.environ.get("VERIF_SEED", "0") or 0))

from common import REPO  # noqa: E402

if str(REPO) not in sys.path:
    sys.path.insert(0, str(REPO))

import logging  # noqa: E402

import repid  # noqa: E402,F401

# the library's logger as an application that configures nothing has it: records from WARNING upwards are processed
# (formatted by repid's adapter) and go to the NullHandler; VERIF_REPID_LOG=DEBUG processes every record (the thorough tier
# runs one of its rounds that way)
logging.getLogger("repid").setLevel(getattr(logging, os.environ.get("VERIF_REPID_LOG", "WARNING")))
logging.getLogger("repid").propagate = False
logging.getLogger("asyncio").setLevel(logging.CRITICAL + 10)

assert os.path.realpath(repid.__file__).startswith(os.path.realpath(str(REPO))), (
    f"repid imported from {repid.__file__}, expected under {REPO}"
)
