"""C04 — retries are bounded, counted and backed off as configured.

Tie: retry chains on the real Worker (in-memory broker, virtual time): N ∈ 0..6, ALL failure
bitmasks over N+1 attempts for N ≤ 3 (sampled above), failure by exception or by timeout, several
back-off policies (constant, linear, default factory with drawn parameters), recurring or not.
Per delivery the observation is compared with the Lean model (`Worker.process`, as in C02); per job
the observed chain (attempt counter, start, failure time, outcome of every execution, final place)
is judged by the Lean predicate `Pred.C04.chainOk` — the predicate `C04.chain_ok` proves of the
model chain for every N, pattern and policy."""
from __future__ import annotations

import implenv  # noqa: F401

import vtime
import workrun
from common import A, Model, Result, Rng, sx
from props import c02
from workrun import S, WorkerRun, deliveries, policy_us

RULE = ("jobs = (N, failure bitmask, failure kind, recurring) × policy; exhaustive over bitmasks for N ≤ 3 (quick: N ≤ 2 "
        "exhaustive, larger sampled); a case = one job chain, distinct by (N, mask, kind, recurring, policy)")
ASSUMPTIONS = ["Redis / RabbitMQ runs use in-process fake servers (assumption sets R, A)", "in-memory broker (delivery of a due retry may lag by the consumer's delayed-queue refresh, ≤ 1 s)",
               "the retry policy is an input: the harness evaluates the same policy object as a pure function"]

POLICIES = [{"kind": "const", "us": 0}, {"kind": "const", "us": 300_000}, {"kind": "linear", "us": 250_000},
            {"kind": "default", "min": 1, "max": 4, "mult": 1, "exp": 2}]


def make_jobs(rng: Rng, deep: bool) -> list[dict]:
    jobs = []
    n = 0
    for N in range(0, 7 if deep else 5):
        masks = list(range(2 ** (N + 1)))
        limit = 16 if deep else (8 if N <= 2 else 3)
        if len(masks) > limit:
            masks = [0, 2 ** (N + 1) - 1, 2 ** N - 1] + rng.sample(masks, limit - 3)
        for mask in masks:
            for kind in ("raise",) + (("timeout",) if (mask and rng.random() < 0.3) else ()):
                for recurring in (False,) + ((True,) if rng.random() < 0.35 else ()):
                    n += 1
                    plan = [({"k": kind} if (mask >> k) & 1 else {"k": "ret"}) for k in range(N + 1)] + [{"k": "ret"}]
                    j = {"id": f"c{n}", "retries": N, "timeout": 1 * S, "plan": plan, "mask": mask, "N": N, "fail_kind": kind,
                         "store_result": rng.random() < 0.2}
                    if recurring:
                        j["defer_by"] = 5 * S
                    jobs.append(j)
    # explicitly forced retries push the counter past N; the next ordinary failure must dead-letter
    fr = {"k": "eager", "pre": [], "api": ["forceRetry", None]}
    er = {"k": "eager", "pre": [], "api": ["retry", None]}
    for N, prefix in ((0, [fr]), (1, [{"k": "raise"}, fr]), (2, [{"k": "raise"}, {"k": "raise"}, fr, fr]), (2, [er, er]),
                      (3, [er, {"k": "raise"}, er, fr])):
        for tail in ({"k": "raise"}, {"k": "timeout"}, {"k": "ret"}):
            n += 1
            jobs.append({"id": f"c{n}", "retries": N, "timeout": 1 * S, "plan": prefix + [tail, {"k": "ret"}], "mask": -1, "N": N,
                         "fail_kind": tail["k"], "store_result": False, "forced": True})
    return jobs


def check_chains(run: WorkerRun, model: Model, res: Result, label: str) -> None:
    sc = run.sc
    spec = run.policy_spec
    ds = deliveries(run)
    by_id: dict[str, list[dict]] = {}
    for d in ds:
        by_id.setdefault(d["id"], []).append(d)
    reqs, meta = [], []
    freqs, fmeta = [], []
    places = run.msg_params()
    for j in sc["jobs"]:
        if j.get("forced"):
            res.dist["forced-retry-chain"] += 1
            # disposition judged per delivery (counter above budget): see c02.check_run.  The back-off clause holds for
            # explicit retries too (`message.retry()` / `force_retry()` without a delay ask the actor's policy)
            fchain = []
            for d in by_id.get(j["id"], []):
                start = d["start_t"] if d["start_t"] is not None else d["t"]
                fin = d["call_t"] if d["call_t"] is not None else (d["end_t"] or start)
                fchain.append([d["tried"], start, fin, True])
                c = d["calls"][0] if len(d["calls"]) == 1 else None
                if not (isinstance(c, list) and int(c[1][4]) == d["tried"] + 1):
                    break
            if len(fchain) >= 2:
                fpol = [policy_us(spec, k) for k in range(1, j["N"] + 8)]
                freqs.append(sx([A("c04.backoffOk"), fpol, fchain]))
                fmeta.append((j, fchain))
            continue
        chain = []
        final = "other"
        recurring = "defer_by" in j
        first_sched = True
        for d in by_id.get(j["id"], []):
            if not first_sched:
                break
            st = j["plan"][min(d["n"], len(j["plan"]) - 1)]
            start = d["start_t"] if d["start_t"] is not None else d["t"]
            fin = d["call_t"] if d["call_t"] is not None else (d["end_t"] or start)
            failed = st["k"] != "ret"
            chain.append([d["tried"], start, fin, failed])
            if len(d["calls"]) != 1:
                final = "other"
                first_sched = False
                continue
            c = d["calls"][0]
            if isinstance(c, list):           # requeue
                tried_after = int(c[1][4])
                if tried_after == d["tried"] + 1:
                    continue                   # retry: chain goes on
                final = "rescheduled" if (recurring and tried_after == 0) else "other"
            else:
                final = {"ack": "acked", "nack": "dead"}.get(str(c), "other")
            first_sched = False
        if not chain:
            res.bad("impl", "job was never executed", case={"label": label, "job": j, "policy": spec}, observed="no delivery")
            continue
        if first_sched and final == "other":
            # every observed delivery ended in a retry; the run's horizon was reached before the next attempt started —
            # the message must then still be waiting in the broker (otherwise the retry was lost)
            here = places.get(j["id"], [])
            if [h["place"] for h in here] in (["delayed"], ["simple"], ["processing"]):
                res.dist["chain-cut-by-horizon"] += 1
                continue
        # the broker must agree with the final call (non-recurring jobs)
        if not recurring:
            here = places.get(j["id"], [])
            if final == "acked" and here:
                final = "other"
            if final == "dead" and [h["place"] for h in here] != ["dead"]:
                final = "other"
        pol = [policy_us(spec, k) for k in range(1, j["N"] + 3)]
        reqs.append(sx([A("c04.chainOk"), j["N"], recurring, pol, chain, A(final)]))
        meta.append((j, chain, final))
    for (j, fchain), ans in zip(fmeta, model.ask(freqs)):
        res.note(("forced", j["N"], j["fail_kind"], repr(j["plan"]), spec["kind"], spec.get("us")))
        if ans != "true":
            res.bad("impl", "Pred.C04.backoffOk / countersOk on the observed chain of explicit retries: a retry was delivered earlier than "
                            "the delay the policy returns for it, counted from the failure (or the counter did not grow by one)",
                    case={"label": label, "job": j, "policy": spec, "chain[tried,start,fin,failed]": fchain}, observed=ans, expected="true")
    answers = model.ask(reqs)
    res.extra["model_requests"] = res.extra.get("model_requests", 0) + len(answers) + len(freqs)
    for (j, chain, final), ans in zip(meta, answers):
        res.dist[f"N{j['N']}:{'allfail' if j['mask'] == 2 ** (j['N'] + 1) - 1 else ('nofail' if j['mask'] == 0 else 'mixed')}"] += 1
        res.note((j["N"], j["mask"], j["fail_kind"], "defer_by" in j, spec["kind"], spec.get("us")),
                 sample={"job": {k: v for k, v in j.items() if k != "plan"}, "policy": spec, "chain[tried,start,fin,failed]": chain,
                         "final": final} if len(res.samples) < 4 else None)
        if ans != "true":
            res.bad("impl", "Pred.C04.chainOk on the observed retry chain",
                    case={"label": label, "job": j, "policy": spec, "chain[tried,start,fin,failed]": chain, "final": final},
                    observed=ans, expected="true")


def run(ctx) -> Result:
    tier, seed = ctx["tier"], ctx["seed"]
    res = Result("C04")
    model = Model()
    deep = tier == "thorough" or ctx.get("search")
    for pi, spec in enumerate(POLICIES if deep else POLICIES[:3] + [POLICIES[3]]):
        rng = Rng(seed, f"c04/{pi}")
        jobs = make_jobs(rng, deep)
        sc = {"jobs": jobs, "converter": rng.choice(["basic", "pydantic"]), "policy": spec, "horizon_s": 90.0 if deep else 30.0,
              "tasks_limit": rng.choice([1000, 3, 1000])}
        r = vtime.run(lambda loop, s=sc: c02.run_scenario(s), budget=60_000_000)
        c02.check_run(r, model, res, f"chains-{spec['kind']}-{spec.get('us', '')}")
        check_chains(r, model, res, f"chains-{spec['kind']}-{spec.get('us', '')}")
    # the same chains on the Redis and RabbitMQ brokers (in-process fake servers; back-off through the delayed set / queue)
    for kind in ("redis", "rabbit"):
        rng = Rng(seed, f"c04/{kind}")
        jobs = make_jobs(rng, False)
        jobs = jobs if deep else rng.sample(jobs, min(40, len(jobs)))
        sc = {"jobs": jobs, "converter": "basic", "policy": POLICIES[1], "horizon_s": 40.0, "tasks_limit": 1000, "broker": kind}
        r = vtime.run(lambda loop, s=sc: c02.run_scenario(s), budget=120_000_000)
        c02.check_run(r, model, res, f"chains-{kind}")
        check_chains(r, model, res, f"chains-{kind}")
        res.dist[f"broker:{kind}"] += len(jobs)
    # day-scale back-off (RabbitMQ only: its fake server is event-driven, nothing polls through the virtual days)
    rng = Rng(seed, "c04/rabbit-days")
    jobs = [j for j in make_jobs(rng, False) if j["N"] <= 2 and "defer_by" not in j and not j.get("forced") and j["fail_kind"] == "raise"][:10]
    sc = {"jobs": jobs, "converter": "basic", "policy": {"kind": "const", "us": (86400 + 5) * S}, "horizon_s": 3 * 86400.0 + 60,
          "tasks_limit": 1000, "broker": "rabbit"}
    r = vtime.run(lambda loop, s=sc: c02.run_scenario(s), budget=120_000_000)
    c02.check_run(r, model, res, "chains-rabbit-days")
    check_chains(r, model, res, "chains-rabbit-days")
    res.dist["broker:rabbit-day-scale"] += len(jobs)
    return res


def search(ctx) -> Result:
    return run(dict(ctx, tier="thorough"))
