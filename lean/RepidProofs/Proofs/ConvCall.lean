/-
The central lemma of C08: calling the function with the arguments produced by a converter
(`args0 ++ X` positionally, `kw0 ++ R ++ dependency kwargs` by keyword) binds every named
parameter to its specified value, `X` to *args and `R` to **kwargs.
-/
import RepidProofs.Proofs.ConvLemmas

namespace Repid.Conv

structure WF (s : Sig) : Prop where
  names : (s.named.map (·.name)).Nodup
  decl : declOk s = true

theorem popOrDefault_eq_spec (fields : List (String × V)) (p : P) (h : p.isDep = false) :
    popOrDefault fields p = specValue fields p := by
  simp [popOrDefault, specValue, h]

theorem nodup_parts {s : Sig} (wf : WF s) :
    (s.posOnly.map (·.name)).Nodup ∧ ((s.posOrKw ++ s.kwOnly).map (·.name)).Nodup ∧
    (∀ p ∈ s.posOnly, ∀ q ∈ s.posOrKw ++ s.kwOnly, p.name ≠ q.name) := by
  have h := wf.names
  simp only [Sig.named, List.append_assoc, List.map_append] at h
  rw [List.nodup_append] at h
  refine ⟨h.1, by simpa [List.map_append] using h.2.1, ?_⟩
  intro p hp q hq hne
  have := h.2.2 p.name (List.mem_map_of_mem hp) q.name (by
    have := List.mem_map_of_mem (f := (·.name)) hq
    simpa [List.map_append] using this)
  exact this hne

theorem posOnly_nondep {s : Sig} (wf : WF s) : ∀ p ∈ s.posOnly, p.isDep = false := by
  have := wf.decl
  simp only [declOk, List.all_eq_true, Bool.not_eq_true'] at this
  exact this

theorem eq_of_name_eq (l : List P) (hnd : (l.map (·.name)).Nodup) (a b : P) (ha : a ∈ l) (hb : b ∈ l)
    (h : a.name = b.name) : a = b := by
  induction l with
  | nil => simp at ha
  | cons x rest ih =>
    simp only [List.map_cons, List.nodup_cons] at hnd
    simp only [List.mem_cons] at ha hb
    rcases ha with rfl | ha <;> rcases hb with rfl | hb
    · rfl
    · exact absurd (h ▸ List.mem_map_of_mem hb) hnd.1
    · exact absurd (h ▸ List.mem_map_of_mem ha) hnd.1
    · exact ih hnd.2 ha hb

/-- lookup of a dependency parameter in the dependency kwargs -/
theorem lookup_dep (l : List P) (hnd : (l.map (·.name)).Nodup) (p : P) (hp : p ∈ l) (hd : p.isDep = true) :
    lookup p.name ((l.filter (·.isDep)).map fun q => (q.name, V.dep q.name)) = some (V.dep p.name) := by
  induction l with
  | nil => simp at hp
  | cons x rest ih =>
    simp only [List.map_cons, List.nodup_cons] at hnd
    simp only [List.mem_cons] at hp
    rcases hp with rfl | hp
    · simp [List.filter_cons, hd, lookup]
    · have hne : ¬ x.name = p.name := fun he => hnd.1 (he ▸ List.mem_map_of_mem hp)
      by_cases hx : x.isDep = true
      · simp [List.filter_cons, hx, lookup, hne, ih hnd.2 hp]
      · simp [List.filter_cons, hx, ih hnd.2 hp]

theorem dep_names (l : List P) : ((l.filter (·.isDep)).map fun q => (q.name, V.dep q.name)).map (·.1)
    = (l.filter (·.isDep)).map (·.name) := by
  simp [List.map_map, Function.comp_def]

/-- value found for a keyword-capable parameter in `kw0 ++ R ++ depKwargs` -/
theorem lookup_kwargs (s : Sig) (wf : WF s) (fields : List (String × V)) (kw0 R : List (String × V))
    (hk : mapNamed (popOrDefault fields) ((s.posOrKw ++ s.kwOnly).filter (!·.isDep)) = .ok kw0)
    (hR : ∀ e ∈ R, e.1 ∉ (s.posOrKw ++ s.kwOnly).map (·.name))
    (p : P) (hp : p ∈ s.posOrKw ++ s.kwOnly) :
    ∃ v, specValue fields p = .ok v ∧ lookup p.name (kw0 ++ R ++ depKwargs s) = some v := by
  obtain ⟨hn1, hn2, hn3⟩ := nodup_parts wf
  by_cases hd : p.isDep = true
  · refine ⟨.dep p.name, by simp [specValue, hd], ?_⟩
    have hkn := mapNamed_names _ _ _ hk
    have h1 : lookup p.name kw0 = none := by
      apply lookup_none
      rw [hkn]
      intro hm
      obtain ⟨q, hq, hqn⟩ := List.mem_map.mp hm
      have hq' := List.mem_filter.mp hq
      have : q = p := eq_of_name_eq _ hn2 q p hq'.1 hp hqn
      subst this
      simp [hd] at hq'
    have h2 : lookup p.name R = none := lookup_none _ _ (fun hm => by
      obtain ⟨e, he, hen⟩ := List.mem_map.mp hm
      exact hR e he (hen ▸ List.mem_map_of_mem hp))
    have hpn : p ∈ s.named := by
      simp only [Sig.named, List.append_assoc, List.mem_append] at hp ⊢
      exact Or.inr hp
    have h3 := lookup_dep s.named wf.names p hpn hd
    rw [lookup_append, lookup_append, h1, h2]
    exact h3
  · have hd' : p.isDep = false := by simpa using hd
    have hpf : p ∈ (s.posOrKw ++ s.kwOnly).filter (!·.isDep) := List.mem_filter.mpr ⟨hp, by simp [hd']⟩
    have hnd : (((s.posOrKw ++ s.kwOnly).filter (!·.isDep)).map (·.name)).Nodup :=
      List.Nodup.sublist (List.Sublist.map _ List.filter_sublist) hn2
    obtain ⟨v, hv, hl⟩ := mapNamed_lookup _ _ _ hk hnd p hpf
    refine ⟨v, by rw [← popOrDefault_eq_spec fields p hd']; exact hv, ?_⟩
    rw [List.append_assoc, lookup_append, hl]

end Repid.Conv

namespace Repid.Conv

theorem depKwargs_names_sub (s : Sig) (wf : WF s) :
    ∀ e ∈ depKwargs s, e.1 ∈ (s.posOrKw ++ s.kwOnly).map (·.name) := by
  intro e he
  simp only [depKwargs, List.mem_map, List.mem_filter] at he
  obtain ⟨q, ⟨hq, hd⟩, rfl⟩ := he
  simp only [Sig.named, List.append_assoc, List.mem_append] at hq
  rcases hq with hq | hq
  · have := posOnly_nondep wf q hq; simp [this] at hd
  · exact List.mem_map_of_mem (by simpa using hq)

theorem notcontains_false (l : List String) (x : String) (h : x ∈ l) : (!l.contains x) = false := by simp [h]
theorem notcontains_true (l : List String) (x : String) (h : x ∉ l) : (!l.contains x) = true := by simp [h]

theorem filter_kwargs (s : Sig) (wf : WF s) (fields : List (String × V)) (kw0 R : List (String × V))
    (hk : mapNamed (popOrDefault fields) ((s.posOrKw ++ s.kwOnly).filter (!·.isDep)) = .ok kw0)
    (hR : ∀ e ∈ R, e.1 ∉ (s.posOrKw ++ s.kwOnly).map (·.name)) :
    (kw0 ++ R ++ depKwargs s).filter (fun e => !((s.posOrKw ++ s.kwOnly).map (·.name)).contains e.1) = R := by
  have hkn := mapNamed_names _ _ _ hk
  have h1 : kw0.filter (fun e => !((s.posOrKw ++ s.kwOnly).map (·.name)).contains e.1) = [] := by
    apply List.filter_eq_nil_iff.mpr
    intro e he
    have : e.1 ∈ kw0.map (·.1) := List.mem_map_of_mem he
    rw [hkn] at this
    obtain ⟨q, hq, hqn⟩ := List.mem_map.mp this
    have hq' := (List.mem_filter.mp hq).1
    have : e.1 ∈ (s.posOrKw ++ s.kwOnly).map (·.name) := hqn ▸ List.mem_map_of_mem hq'
    rw [notcontains_false _ _ this]; simp
  have h2 : R.filter (fun e => !((s.posOrKw ++ s.kwOnly).map (·.name)).contains e.1) = R := by
    apply List.filter_eq_self.mpr
    intro e he
    have := hR e he
    exact notcontains_true _ _ this
  have h3 : (depKwargs s).filter (fun e => !((s.posOrKw ++ s.kwOnly).map (·.name)).contains e.1) = [] := by
    apply List.filter_eq_nil_iff.mpr
    intro e he
    have := depKwargs_names_sub s wf e he
    rw [notcontains_false _ _ this]; simp
  simp only [List.filter_append, h1, h2, h3, List.nil_append, List.append_nil]

/-- the function is called with `args0 ++ X` and `kw0 ++ R ++ dependency kwargs` -/
theorem call_canonical (s : Sig) (wf : WF s) (fields : List (String × V)) (args0 : List V)
    (kw0 R : List (String × V)) (X : List V)
    (ha : mapE (popOrDefault fields) s.posOnly = .ok args0)
    (hk : mapNamed (popOrDefault fields) ((s.posOrKw ++ s.kwOnly).filter (!·.isDep)) = .ok kw0)
    (hR : ∀ e ∈ R, e.1 ∉ (s.posOrKw ++ s.kwOnly).map (·.name))
    (hRv : R ≠ [] → s.varKw = true)
    (hX : X ≠ [] → s.varPos = true ∧ s.posOrKw = []) :
    call s (args0 ++ X) (kw0 ++ R ++ depKwargs s) =
      match mapNamed (specValue fields) s.named with
      | .error e => .error e
      | .ok N => .ok { named := N, star := X, dstar := R } := by
  have hlen := mapE_length _ _ _ ha
  have hfil := filter_kwargs s wf fields kw0 R hk hR
  -- guards
  have g1 : ¬ ((args0 ++ X).length > s.posOnly.length + s.posOrKw.length ∧ ¬ s.varPos = true) := by
    rintro ⟨hgt, hnv⟩
    by_cases hx : X = []
    · subst hx; simp [hlen] at hgt; omega
    · exact hnv (hX hx).1
  have g2 : ¬ ((kw0 ++ R ++ depKwargs s).filter (fun e => !((s.posOrKw ++ s.kwOnly).map (·.name)).contains e.1) ≠ []
      ∧ ¬ s.varKw = true) := by
    rw [hfil]; rintro ⟨hne, hnv⟩; exact hnv (hRv hne)
  -- positional-only parameters
  have hpo : mapIdxNamed (bindPositional (args0 ++ X) (kw0 ++ R ++ depKwargs s) false) 0 s.posOnly
      = mapNamed (specValue fields) s.posOnly := by
    apply mapIdxNamed_eq
    intro i p hp
    obtain ⟨v, hv, hget⟩ := mapE_getElem _ _ _ ha i p hp
    have hi : i < args0.length := by
      rcases Nat.lt_or_ge i args0.length with h | h
      · exact h
      · simp [List.getElem?_eq_none h] at hget
    have hmem : p ∈ s.posOnly := List.mem_of_getElem? hp
    have : (args0 ++ X)[0 + i]? = some v := by
      rw [Nat.zero_add, List.getElem?_append_left hi]; exact hget
    simp only [bindPositional, this, Bool.false_and, Bool.false_eq_true, if_false]
    rw [← popOrDefault_eq_spec fields p (posOnly_nondep wf p hmem), hv]
  -- positional-or-keyword parameters
  have hpk : mapIdxNamed (bindPositional (args0 ++ X) (kw0 ++ R ++ depKwargs s) true) s.posOnly.length s.posOrKw
      = mapNamed (specValue fields) s.posOrKw := by
    apply mapIdxNamed_eq
    intro i p hp
    have hmem : p ∈ s.posOrKw := List.mem_of_getElem? hp
    have hX0 : X = [] := by
      by_cases hx : X = []
      · exact hx
      · have := (hX hx).2
        rw [this] at hmem; simp at hmem
    subst hX0
    have hnone : (args0 ++ [])[s.posOnly.length + i]? = none := by
      simp only [List.append_nil]
      apply List.getElem?_eq_none; omega
    obtain ⟨v, hv, hl⟩ := lookup_kwargs s wf fields kw0 R hk hR p (by simp [hmem])
    simp only [bindPositional, hnone, if_true, hl, hv]
  -- keyword-only parameters
  have hko : mapNamed (bindKwOnly (kw0 ++ R ++ depKwargs s)) s.kwOnly = mapNamed (specValue fields) s.kwOnly := by
    apply mapNamed_congr
    intro p hp
    obtain ⟨v, hv, hl⟩ := lookup_kwargs s wf fields kw0 R hk hR p (by simp [hp])
    simp only [bindKwOnly, hl, hv]
  -- star
  have hstar : (args0 ++ X).drop (s.posOnly.length + s.posOrKw.length) = X := by
    by_cases hx : X = []
    · subst hx; simp; omega
    · have := (hX hx).2
      simp [this, ← hlen]
  unfold call
  rw [if_neg g1, if_neg g2, hpo, hpk, hko, hfil, hstar]
  simp only [Sig.named]
  rw [mapNamed_append, mapNamed_append]
  cases mapNamed (specValue fields) s.posOnly with
  | error e => rfl
  | ok a =>
    cases mapNamed (specValue fields) s.posOrKw with
    | error e => rfl
    | ok b =>
      cases mapNamed (specValue fields) s.kwOnly with
      | error e => rfl
      | ok c => rfl

end Repid.Conv
