"""C03 — stopping or killing a worker at any moment loses no message (in-memory broker).

Tie: crash-point enumeration on the real Worker under virtual time.  Scenarios put one to three
messages into chosen phases (actor running, failing → retry-requeue, succeeding → ack, recurring →
reschedule, result storing, prefetched but not yet spawned, two queues); graceful period ∈ {0, 2 ms,
25 s}.  For EVERY event-loop callback index k of the run (quick tier: every index near a broker
call / delivery / actor boundary and every 4th elsewhere) the stop request is delivered at k by
invoking the signal handler the worker really registered; the run continues to idle; then:
  * run() returned within graceful period + 5 s + 1 s (+ slack);
  * every message is in exactly one legitimate final state: disposed by a completed terminal call
    (and then not also back in the queue), or back in its queue exactly once with its retry counter
    unchanged; nothing stays marked in-flight;
  * a call that was interrupted has applied none or all of its effect."""
from __future__ import annotations

import implenv  # noqa: F401

import asyncio
import os

import vtime
import workrun
from common import A, Model, Result, Rng, sx
from workrun import S, WorkerRun

RULE = ("scenario × graceful period × injection index k; k ranges over every callback index of the reference run "
        "within ±24 (thorough) / ±8 (quick) callbacks of every delivery / broker call / actor boundary / store, plus every 7th / 61st "
        "index of the idle-polling stretches; a case = one (scenario, graceful, k)")
ASSUMPTIONS = ["process death and OS signal timing are runtime; the stop request is the registered handler invoked between two callbacks",
               "Redis recovery after a crash (maintenance) is checked in the Redis part"]
F2 = "F2-mem-requeue-not-atomic"
F24 = "F24-redis-finish-leaves-fetch-in-flight"
F26 = "F26-rabbit-cancelled-handover-stays-unacked"

MS = 1000


def scenarios() -> list[dict]:
    base = {"converter": "basic", "policy": {"kind": "const", "us": 1 * MS}, "actors": {"act": "default"}}
    out = []
    out.append(dict(base, name="running", tasks_limit=1000,
                    jobs=[{"id": "a", "retries": 0, "timeout": 10 * S, "plan": [{"k": "ret", "dur": 4 * MS}]}]))
    out.append(dict(base, name="fail-retry", tasks_limit=1000,
                    jobs=[{"id": "a", "retries": 2, "timeout": 10 * S, "plan": [{"k": "raise", "dur": 1 * MS}, {"k": "raise", "dur": 0}, {"k": "ret", "dur": 0}]}]))
    out.append(dict(base, name="succeed-result", tasks_limit=1000,
                    jobs=[{"id": "a", "retries": 0, "timeout": 10 * S, "store_result": True, "plan": [{"k": "ret", "dur": 1 * MS}]}]))
    out.append(dict(base, name="recurring", tasks_limit=1000,
                    jobs=[{"id": "a", "raw": {"ts": 0, "defer_by": 3600 * S, "next": -1, "max": 1}, "plan": [{"k": "ret", "dur": 1 * MS}]},
                          {"id": "b", "raw": {"ts": 0, "defer_by": 3600 * S, "next": -1, "max": 0}, "plan": [{"k": "raise", "dur": 2 * MS}]}]))
    out.append(dict(base, name="prefetched", tasks_limit=1,
                    jobs=[{"id": "a", "retries": 0, "timeout": 10 * S, "plan": [{"k": "ret", "dur": 3 * MS}]},
                          {"id": "b", "retries": 1, "timeout": 10 * S, "plan": [{"k": "raise", "dur": 1 * MS}, {"k": "ret"}]},
                          {"id": "c", "retries": 0, "timeout": 10 * S, "plan": [{"k": "ret", "dur": 0}]}]))
    out.append(dict(base, name="two-queues", tasks_limit=2, actors={"act": "default", "act2": "q2"},
                    jobs=[{"id": "a", "retries": 0, "timeout": 10 * S, "plan": [{"k": "ret", "dur": 2 * MS}]},
                          {"id": "b", "name": "act2", "queue": "q2", "retries": 0, "timeout": 10 * S, "plan": [{"k": "raise", "dur": 1 * MS}]},
                          {"id": "c", "name": "act2", "queue": "q2", "retries": 0, "timeout": 10 * S,
                           "plan": [{"k": "eager", "pre": [], "api": "reject", "dur": 1 * MS}, {"k": "ret"}]}]))
    out.append(dict(base, name="eager-nack-and-timeout", tasks_limit=1000,
                    jobs=[{"id": "a", "retries": 0, "timeout": 10 * S, "plan": [{"k": "eager", "pre": [], "api": "nack", "dur": 1 * MS}]},
                          {"id": "b", "retries": 1, "timeout": 1 * S, "plan": [{"k": "ret", "dur": 30 * MS}]}]))
    return out


async def one_run(sc: dict, graceful: float, k: int | None) -> WorkerRun:
    run = WorkerRun(sc)
    await run.enqueue_all()
    loop = asyncio.get_running_loop()
    state = {"fired": None}

    def inject(idx: int) -> None:
        if k is not None and state["fired"] is None and idx - run.cb0 >= k:
            ok = workrun.fire_signal(loop)
            state["fired"] = ok
            run.ev("stop_request", registered=ok)
    run.inject = inject
    nexec = sum(len(j["plan"]) for j in sc["jobs"])
    wt = asyncio.ensure_future(run.run_worker(limit=nexec if k is None else None, tasks_limit=sc["tasks_limit"],
                                              graceful=graceful, horizon_s=graceful + 12.0, signals=True))
    while not wt.done():
        await asyncio.sleep(0.0005)
        if state["fired"] is False:        # the handler was not registered (yet / any more): nothing to observe
            wt.cancel()
    try:
        await wt
    except asyncio.CancelledError:
        pass
    for _ in range(6):
        await asyncio.sleep(0)
    if sc.get("broker") == "rabbit":
        # on RabbitMQ the consumer's last rejects (deliveries that arrived while it was being stopped wait 0.1 s before they
        # are given back) are given the time to happen; the state is then read while the worker's connection is still open —
        # what is unacknowledged now stays in flight for as long as the process keeps its connection
        await asyncio.sleep(0.3)
    run.final = {q: run.msg_params(q) for q in set(sc["actors"].values())}
    if sc.get("broker") == "rabbit":
        await run.broker.disconnect()
        for _ in range(6):
            await asyncio.sleep(0)
    run.fired = state["fired"]
    return run


def judge(run: WorkerRun, sc: dict, graceful: float, k, res: Result, label: str) -> None:
    case = {"label": label, "scenario": sc["name"], "graceful_s": graceful, "stop_at_callback": k,
            "jobs": [{kk: v for kk, v in j.items()} for j in sc["jobs"]]}
    stop_t = next((e["t"] for e in run.events if e["kind"] == "stop_request"), None)
    ret_t = next((e["t"] for e in run.events if e["kind"] == "run_return"), None)
    if ret_t is None:
        res.bad("impl", "run() did not return after the stop request", case=case, observed="no return within the horizon",
                expected="return within graceful + 5 s + 1 s")
        return
    bound = int(graceful * 1e6) + 5 * S + 1 * S + 500_000
    if stop_t is not None and ret_t - stop_t > bound:
        res.bad("impl", "run() returned later than graceful period + fixed slack after the stop request", case=case,
                observed={"us": ret_t - stop_t}, expected={"<=": bound})
    for j in sc["jobs"]:
        jid, q = j["id"], j.get("queue", "default")
        here = run.final[q].get(jid, [])
        evs = [e for e in run.events if e.get("id") == jid]
        calls = [e for e in evs if e["kind"] == "bcall" and e["op"] != "enqueue"]
        rets = [e for e in evs if e["kind"] == "bret" and e["op"] != "enqueue"]
        # pair every call with its return (same op, later); unpaired calls were interrupted by the cancellation
        unused = list(rets)
        completed, interrupted = [], []
        for c in calls:
            m = next((r for r in unused if r["op"] == c["op"] and r["cb"] >= c["cb"]), None)
            if m is not None:
                unused.remove(m)
                completed.append(c)
            else:
                interrupted.append(c)
        done_ops = [c["op"] for c in completed]
        delivers = [e for e in evs if e["kind"] == "deliver"]
        init_tried = 0
        # counter the message must carry if it is (back) in the queue: that of the last completed requeue, else initial
        exp_tried = [init_tried]
        last_requeue = [c for c in completed if c["op"] == "requeue"]
        if last_requeue:
            exp_tried = [last_requeue[-1]["tried"]]
        if interrupted and interrupted[0]["op"] == "requeue":
            exp_tried.append(interrupted[0]["tried"])
        places = [h["place"] for h in here]
        problem = None
        finding = None
        terminal_done = [o for o in done_ops if o in ("ack", "nack")]
        if "processing" in places:
            problem = "message still marked in-flight after the worker returned"
            paused_at_finish = all(e.get("paused") is not False for e in run.events if e["kind"] == "consumer_finish")
            if sc.get("broker") == "redis" and paused_at_finish and \
                    len(delivers) == len([o for o in done_ops if o in ("ack", "nack", "reject", "requeue")]):
                # every delivery handed to the runner was disposed of: this mark belongs to a take of the consumer's background
                # fetch loop that was never handed over — dropped by finish()
                finding = F24
            if sc.get("broker") == "rabbit" and len(delivers) == len([o for o in done_ops if o in ("ack", "nack", "reject", "requeue")]):
                # every delivery handed to the runner was disposed of: this one was taken out of the consumer's local queue by a
                # consume() call that was cancelled before it could hand the message over (inside the middleware wrapper's
                # `after_consume` signal) — finish() does not know about it any more
                finding = F26
        elif len(here) > 1:
            problem = "message present more than once"
        elif "ack" in terminal_done and here:
            problem = "message both completed (ack returned) and back in the queue"
        elif "nack" in terminal_done and places != ["dead"]:
            problem = "nacked message is not (only) among the dead letters"
        elif not terminal_done:
            if not here:
                intr = interrupted[0]["op"] if interrupted else None
                if intr in ("ack",):
                    pass                              # the ack took effect before the cancellation: disposed
                elif intr == "requeue":
                    problem = "message vanished: cancelled between the two halves of requeue"
                    finding = F2
                else:
                    problem = "message vanished (neither disposed by a completed call nor back in the queue)"
            else:
                if here[0]["tried"] not in exp_tried and not (interrupted and interrupted[0]["op"] == "nack" and places == ["dead"]):
                    problem = "returned message carries a changed retry counter"
                if places == ["dead"] and not (interrupted and interrupted[0]["op"] == "nack"):
                    problem = "message dead-lettered without a nack"
        if problem:
            res.bad("impl", problem, case=dict(case, message=jid),
                    observed={"present": here, "completed_calls": done_ops, "interrupted": [c["op"] for c in interrupted],
                              "deliveries": len(delivers)},
                    expected="disposed by one completed terminal call, or back in its queue once with the retry counter unchanged",
                    finding=finding)


def _combo(arg) -> Result:
    si, graceful, deep = arg[:3]
    sc = scenarios()[si]
    if len(arg) > 3:
        sc = dict(sc, broker=arg[3], name=f"{arg[3]}:{sc['name']}")
    res = Result("C03")
    ref = vtime.run(lambda loop, s=sc, g=graceful: one_run(s, g, None), budget=20_000_000)
    n = ref.runner_snaps[-1][0] - ref.cb0 if ref.runner_snaps else 200
    marks = sorted({e["cb"] - ref.cb0 for e in ref.events if e["kind"] in ("deliver", "bcall", "bret", "actor_start", "actor_end", "store", "runner_created")})
    # every index near an event; idle polling stretches (thousands of identical callbacks) are strided
    ks = set()
    w = 24 if deep else 8
    for m in marks:
        ks.update(range(max(0, m - w), m + w + 1))
    ks.update(range(0, n + 10, 7 if deep else 61))
    if not deep and graceful == 25.0:
        ks = {x for x in ks if x % 2 == 0}
    n_fired = 0
    for k in sorted(ks):
        r = vtime.run(lambda loop, s=sc, g=graceful, kk=k: one_run(s, g, kk), budget=20_000_000)
        res.extra["crash_points_enumerated"] = res.extra.get("crash_points_enumerated", 0) + 1
        n_fired += int(r.fired is True)
        if r.fired is not True:
            res.dist["handler-not-registered"] += 1
            if r.fired is None and k > n + 5:
                break
            continue
        res.dist[f"{sc['name']}:g{graceful}"] += 1
        res.note((sc["name"], graceful, k), sample={"scenario": sc["name"], "graceful_s": graceful, "stop_at_callback": k,
                                                   "final": r.final} if len(res.samples) < 1 and k % 17 == 5 else None)
        judge(r, sc, graceful, k, res, f"{sc['name']}/g={graceful}/k={k}")
    if ks and n_fired == 0:
        # a worker started with its default signal handling that never has a handler for the stop signal cannot be told to stop
        res.bad("impl", "the running worker never had a handler registered for the stop signal (default handle_signals): it cannot be "
                        "told to stop", case={"label": f"{sc['name']}/g={graceful}", "stop_indices_tried": len(ks)},
                observed="no handler at any of the indices", expected="SIGINT / SIGTERM handled while the worker runs")
    return res


def run(ctx) -> Result:
    from common import pmap
    tier, seed = ctx["tier"], ctx["seed"]
    res = Result("C03")
    deep = tier == "thorough" or bool(ctx.get("search"))
    combos = [(si, g, deep) for si in range(len(scenarios())) for g in (0.0, 0.002, 25.0)]
    # the same stop-at-every-callback enumeration with the worker on the Redis / RabbitMQ brokers (in-process fake servers)
    for kind in ("redis", "rabbit"):
        combos += [(si, g, deep, kind) for si in ((0, 1, 2, 4, 5) if deep else (0, 1, 4)) for g in ((0.0, 0.002) if deep else (0.002,))]
    for part in pmap(_combo, combos):
        res.merge(part)
    res.exhaustive = False
    # Redis broker: sessions on the real RedisMessageBroker/_RedisConsumer (in-process fake server) vs the Lean model
    # Redis.R, and this property's clauses on what the implementation did
    import redisrun
    res.merge(redisrun.part(ctx, "C03", ['mixed'], n_quick=4, n_deep=16, crash=12, race=0))
    res.assumptions = list(getattr(res, "assumptions", []) or []) + redisrun.ASSUMPTIONS
    # RabbitMQ broker: sessions on the real RabbitMessageBroker/_RabbitConsumer (in-process fake AMQP server) vs Rabbit.S
    import rabbitrun
    res.merge(rabbitrun.part(ctx, "C03", ['mixed'], n_quick=2, n_deep=8, specials=['window']))
    res.assumptions = list(res.assumptions) + rabbitrun.ASSUMPTIONS
    return res


def search(ctx) -> Result:
    return run(dict(ctx, tier="thorough"))
