/-
C17 — Middleware only observes.
Model: RepidModel/Mw/Wrapper.lean.
-/
import RepidModel.Mw.Wrapper

namespace Repid.C17
open Repid Mw

mutual
/-- `nested_silent`: inside another wrapped operation nothing is emitted, whatever the operation tree -/
theorem nested_silent (emitter : Bool) : ∀ o : Op, run emitter true o = []
  | .mk name params args kwargs children raises result => by
    simp only [run, Bool.true_or, if_true]
    exact nested_silent_all emitter children
theorem nested_silent_all (emitter : Bool) : ∀ os : List Op, runAll emitter true os = []
  | [] => rfl
  | o :: rest => by simp only [runAll, nested_silent emitter o, nested_silent_all emitter rest, List.append_nil]
end

/-- `signal_shape`: a top-level wrapped operation emits exactly one `before` signal and — iff it succeeds —
    exactly one `after` signal carrying its result; the operations nested inside it emit nothing.  For EVERY
    operation tree (any nesting depth and fan-out). -/
theorem signal_shape (name : String) (params args : List String) (kwargs : List (String × String))
    (children : List Op) (raises : Bool) (result : String) :
    run true false (.mk name params args kwargs children raises result) =
      [{ name := "before_" ++ name, kwargs := signalKwargs (.mk name params args kwargs children raises result) }] ++
      (if raises then []
       else [{ name := "after_" ++ name,
               kwargs := dictUpdate (signalKwargs (.mk name params args kwargs children raises result)) [("result", result)] }]) := by
  simp [run, nested_silent_all]

/-- without an emitter (a broker that is not part of a Connection) nothing is emitted at any depth -/
theorem no_emitter_silent : ∀ (inside : Bool) (o : Op), run false inside o = [] := by
  have h : ∀ (n : Nat) (inside : Bool) (o : Op), sizeOf o ≤ n → run false inside o = [] := by
    intro n
    induction n with
    | zero => intro inside o h; cases o; simp at h
    | succ n ih =>
      intro inside o hsz
      cases o with
      | mk name params args kwargs children raises result =>
        simp only [run, Bool.not_false, Bool.or_true, if_true]
        have : ∀ (cs : List Op), sizeOf cs ≤ n → runAll false inside cs = [] := by
          intro cs
          induction cs with
          | nil => intro _; rfl
          | cons c rest ihc =>
            intro hcs
            simp only [List.cons.sizeOf_spec] at hcs
            simp only [runAll, ih inside c (by omega), ihc (by omega), List.append_nil]
        apply this
        simp only [Op.mk.sizeOf_spec] at hsz
        omega
  intro inside o
  exact h (sizeOf o) inside o (Nat.le_refl _)

/-- `args_by_name`: positional arguments appear in the signal under the operation's parameter names;
    keyword arguments under their own names (positional binding wins on a clash, as `dict.update` does) -/
theorem args_by_name_positional (name : String) (params args : List String) (children : List Op)
    (raises : Bool) (result : String) (hnd : params.Nodup) (hlen : args.length ≤ params.length) :
    signalKwargs (.mk name params args [] children raises result) = params.zip args := by
  simp only [signalKwargs]
  have : ∀ (d : List (String × String)) (ps as : List String),
      (∀ p ∈ ps, ¬ d.any (·.1 == p) = true) → ps.Nodup →
      dictUpdate d (ps.zip as) = d ++ ps.zip as := by
    intro d ps
    induction ps generalizing d with
    | nil => intro as _ _; simp [dictUpdate]
    | cons p rest ih =>
      intro as hfresh hn
      cases as with
      | nil => simp [dictUpdate]
      | cons a as' =>
        simp only [List.zip_cons_cons, dictUpdate]
        have hp := hfresh p (by simp)
        simp only [List.nodup_cons] at hn
        rw [if_neg hp, ih (d ++ [(p, a)]) as' ?_ hn.2]
        · simp
        · intro q hq
          have hq' := hfresh q (by simp [hq])
          have hne : q ≠ p := fun h => hn.1 (h ▸ hq)
          simp only [List.any_append, List.any_cons, List.any_nil, Bool.or_false, Bool.or_eq_true, beq_iff_eq]
          rintro (h | h)
          · exact hq' h
          · exact hne h.symm
  simpa using this [] params args (by simp) hnd

theorem args_by_name_keyword (name : String) (params : List String) (kwargs : List (String × String))
    (children : List Op) (raises : Bool) (result : String) :
    signalKwargs (.mk name params [] kwargs children raises result) = kwargs := by
  simp [signalKwargs, dictUpdate]

/-- `non_interference`: the outcome of an operation (its result or its exception) is a function of the
    operation alone — the set of subscribers, what they return and which `Exception`s they raise are not
    inputs of `outcome`; a subscriber only ever sees the arguments its own parameters name. -/
theorem subscriber_sees_only_named (params : List String) (kw : List (String × String)) :
    ∀ e ∈ subscriberKwargs params kw, e.1 ∈ params ∧ e ∈ kw := by
  intro e he
  have := List.mem_filter.mp he
  exact ⟨by simpa using this.2, this.1⟩

/-- `routing`: the `actor_run` signals of a processor go to the middleware of that processor's own connection,
    however many processors (of whatever connections) were created before or after it -/
theorem routing_own_connection (conns : List Nat) (i : Nat) (h : i < conns.length) :
    actorRunEmitter conns i = some conns[i] := by
  simp [actorRunEmitter, h]

/-- the repaired defect, kept as a witness: with one shared class-level wrapper the first of two processors of
    different connections sends its `actor_run` signals to the other connection -/
theorem shared_emitter_misroutes_witness :
    actorRunEmitterShared [1, 2] 0 = some 2 ∧ actorRunEmitter [1, 2] 0 = some 1 := by decide

-- Non-vacuity: requeue → (ack, enqueue) emits exactly before/after_requeue.
example :
    let ack := Op.mk "ack" ["key"] ["k1"] [] [] false "None"
    let enq := Op.mk "enqueue" ["key", "payload", "params"] ["k1", "p", "P"] [] [] false "None"
    let rq := Op.mk "requeue" ["key", "payload", "params"] ["k1"] [("params", "P"), ("payload", "p")] [ack, enq] false "None"
    (run true false rq).map (·.name) = ["before_requeue", "after_requeue"] ∧
    signalKwargs rq = [("params", "P"), ("payload", "p"), ("key", "k1")] := by
  decide

end Repid.C17
