"""C06 — recurring jobs: exactly one successor per run, on a steady cadence.

Tie: real Worker under virtual time; periods {1 s, 2 s, 10 s}, 3–10 consecutive iterations, duration
profiles constant / growing / shrinking / random, outcomes per iteration including retry chains and
failures with exhausted retries, deferred_until on the first run.  At every reschedule the
parameters handed to requeue are judged by `Pred.C06.successorOk` (counter reset, TTL clock
restarted, now < next ≤ now + period on the grid) and compared with the Lean model
(`Worker.process`); the number of messages carrying the job's id is counted after every iteration
(exactly one); consecutive scheduled times are judged by `Pred.C06.spacingOk`."""
from __future__ import annotations

import implenv  # noqa: F401

import asyncio

import vtime
import workrun
from common import NONE, A, Model, Result, Rng, sx
from props import c02
from workrun import S, WorkerRun, deliveries

RULE = ("jobs = period × duration profile × outcome pattern per iteration (success / fail+retries / fail exhausted) × "
        "deferred_until on the first run; a case = one completed iteration, distinct by (period, lateness class, outcome, index)")
ASSUMPTIONS = ["cron recurrence is not exercised (croniter absent)", "in-memory broker"]
F5 = "F5-recurring-grid-rebased-on-completion"


def make_jobs(rng: Rng, n: int) -> list[dict]:
    jobs = []
    for i in range(n):
        per = rng.choice([1 * S, 2 * S, 2 * S, 10 * S])
        prof = rng.choice(["const", "grow", "shrink", "random", "zero", "edge"])
        iters = 12
        durs = []
        for k in range(iters):
            base = per // 10
            if prof == "const":
                d = base * 3
            elif prof == "grow":
                d = base * (k + 1)
            elif prof == "shrink":
                d = max(0, base * (8 - 2 * k))
            elif prof == "zero":
                d = 0
            elif prof == "edge":
                # finishing a fraction of a millisecond before / after the next slot: the successor is due (almost) at once
                d = per + rng.choice([-1500, -900, -300, -1, 0, 1, 400])
            else:
                d = rng.randrange(0, int(per * 1.4))
            durs.append(d)
        retries = rng.choice([0, 0, 1, 2])
        plan = []
        k = 0
        pattern = []
        for it in range(iters):
            kind = rng.choice(["ok", "ok", "fail-exhaust", "fail-then-ok"]) if retries else rng.choice(["ok", "ok", "fail-exhaust"])
            pattern.append(kind)
            if kind == "ok":
                plan.append({"k": "ret", "dur": durs[it]})
            elif kind == "fail-exhaust":
                plan += [{"k": "raise", "dur": durs[it]}] * (retries + 1)
            else:
                plan += [{"k": "raise", "dur": durs[it]}, {"k": "ret", "dur": durs[it]}]
        j = {"id": f"p{i}", "retries": retries, "defer_by": per, "timeout": 30 * S, "plan": plan, "profile": prof,
             "pattern": pattern, "store_result": False}
        if rng.random() < 0.3:
            j["defer_until"] = rng.choice([per // 2, per * 2 + 123_456, 5 * S])
        if rng.random() < 0.3:
            j["ttl"] = per * 3
        jobs.append(j)
    return jobs


async def scenario(sc: dict) -> dict:
    run = WorkerRun(sc)
    counts: list[dict] = []
    await run.enqueue_all()

    async def counter():
        seen = 0
        while True:
            await asyncio.sleep(0.02)
            ends = [e for e in run.events if e["kind"] == "bret" and e["op"] in ("requeue", "ack", "nack")]
            for e in ends[seen:]:
                here = run.msg_params().get(e["id"], [])
                counts.append({"id": e["id"], "t": e["t"], "present": len(here), "places": [h["place"] for h in here]})
            seen = len(ends)
    ct = asyncio.ensure_future(counter() if not sc.get("no_counter") else asyncio.sleep(0))
    await run.run_worker(horizon_s=sc.get("horizon_s", 40.0), signals=False, tasks_limit=sc.get("tasks_limit", 1000))
    ct.cancel()
    await asyncio.gather(ct, return_exceptions=True)
    return {"run": run, "counts": counts}


def check(o: dict, model: Model, res: Result, label: str) -> None:
    run: WorkerRun = o["run"]
    sc = run.sc
    c02.check_run(run, model, res, label)
    jobs = {j["id"]: j for j in sc["jobs"]}
    ds = deliveries(run)
    reqs, meta = [], []
    by_id: dict[str, list] = {}
    for d in ds:
        by_id.setdefault(d["id"], []).append(d)
    for jid, dl in by_id.items():
        j = jobs[jid]
        per = j["defer_by"]
        iter_T = None
        iter_t0 = None
        for d in dl:
            if d["tried"] == 0:
                iter_T = d["next"]      # scheduled time of the iteration that starts with this delivery
                iter_t0 = d["t"]        # … and when it was actually delivered
            if len(d["calls"]) != 1 or not isinstance(d["calls"][0], list):
                if len(d["calls"]) == 1 and str(d["calls"][0]) in ("ack", "nack"):
                    res.bad("impl", "a completed iteration of a recurring job got no successor (ack/nack instead of reschedule)",
                            case={"label": label, "job": j, "delivery": {k: v for k, v in d.items() if k != "params"}},
                            observed=str(d["calls"][0]), expected="requeue")
                continue
            succ = d["calls"][0][1]
            tried_after = int(succ[4])
            if tried_after == d["tried"] + 1:
                continue            # a retry inside the iteration
            # a reschedule: the iteration scheduled for T (= next of the delivered message, or its due time) is complete
            T = iter_T
            now = d["call_t"]
            du = j.get("defer_until")
            reqs.append(sx([A("c06.successorOk"), now, per, d["ts"], NONE if du is None else du, succ]))
            meta.append(("successor", j, d, None))
            nxt = succ[8]
            if T is not None and str(nxt) != "none":
                reqs.append(sx([A("c06.spacingOk"), T, int(nxt), per]))
                meta.append(("spacing", j, d, {"T": T, "next": int(nxt), "now": now, "ts": d["ts"], "delivered": iter_t0}))
    answers = model.ask(reqs)
    res.extra["model_requests"] = res.extra.get("model_requests", 0) + len(answers)
    for (what, j, d, info), ans in zip(meta, answers):
        case = {"label": label, "job": {k: v for k, v in j.items() if k != "plan"}, "iteration_delivery": d["n"],
                "delivered": {k: d[k] for k in ("tried", "next", "ts", "t", "call_t")}, "successor": sx(d["calls"][0][1]), "info": info}
        if what == "successor":
            res.dist["iteration:" + j["profile"]] += 1
            res.note(("it", j["defer_by"], j["profile"], d["tried"], min(d["n"], 6)), sample=case if len(res.samples) < 3 else None)
            if ans != "true":
                res.bad("impl", "Pred.C06.successorOk on the parameters handed to requeue", case=case, observed=ans, expected="true")
        else:
            res.dist["spacing:" + ("ok" if ans == "true" else "short")] += 1
            if ans != "true":
                # the partial theorem covers now ≥ ts + per; below that the current code re-bases the grid
                # F5 = exactly the cases outside the hypotheses of C06.spacing_partial
                per = j["defer_by"]
                # … an iteration that was delivered BEFORE its scheduled time is another matter (the broker's delay, not the grid)
                tol = 1000 if sc.get("broker") == "rabbit" else 0
                early = info["delivered"] is not None and info["delivered"] < info["T"] - tol
                trig = F5 if not (info["T"] <= info["ts"] + per and info["ts"] + per <= info["now"]) and not early else None
                res.bad("impl", "Pred.C06.spacingOk: next scheduled time less than one period after the slot that just ran",
                        case=case, observed=info, expected="T + period ≤ next", finding=trig)
    # exactly one message with the id after every iteration
    for c in o["counts"]:
        j = jobs[c["id"]]
        res.dist["count:%d" % c["present"]] += 1
        if c["present"] != 1:
            res.bad("impl", "after a completed iteration the recurring job's id is not present exactly once",
                    case={"label": label, "job": {k: v for k, v in j.items() if k != "plan"}, "at_us": c["t"]},
                    observed=c, expected="exactly one message (the successor)")
            break
    # first run honours deferred_until
    for jid, dl in by_id.items():
        j = jobs[jid]
        if j.get("defer_until") is not None and dl:
            first = dl[0]
            # RabbitMQ expresses delays in whole milliseconds (C05: "at millisecond resolution")
            tol = 1000 if sc.get("broker") == "rabbit" else 0
            if first["t"] < j["defer_until"] - tol:
                res.bad("impl", "first run before deferred_until", case={"label": label, "job": {k: v for k, v in j.items() if k != "plan"}},
                        observed=first["t"], expected=">= %d" % j["defer_until"])


async def witness_f5() -> dict:
    """period 10 s; the first iteration is late/long, the second short: scheduled times 20.0 s then 20.5 s"""
    sc = {"jobs": [{"id": "w", "retries": 0, "defer_by": 10 * S, "timeout": 30 * S, "profile": "witness", "pattern": [],
                    "plan": [{"k": "ret", "dur": 500_000}, {"k": "ret", "dur": 100_000}, {"k": "ret", "dur": 100_000}],
                    "store_result": False}],
          "converter": "basic", "policy": {"kind": "const", "us": 0}, "horizon_s": 45.0}
    return await scenario(sc)


def run(ctx) -> Result:
    tier, seed = ctx["tier"], ctx["seed"]
    res = Result("C06")
    model = Model()
    deep = tier == "thorough" or ctx.get("search")
    o = vtime.run(lambda loop: witness_f5(), budget=60_000_000)
    check(o, model, res, "corpus/C06-F5 (period 10 s, durations 0.5 s then 0.1 s)")
    for i in range(6 if deep else 2):
        rng = Rng(seed, f"c06/{i}")
        sc = {"jobs": make_jobs(rng, 14 if deep else 8), "converter": rng.choice(["basic", "pydantic"]),
              "policy": {"kind": "const", "us": rng.choice([0, 100_000])}, "horizon_s": 45.0 if deep else 32.0,
              "tasks_limit": rng.choice([1000, 1000, 4])}
        o = vtime.run(lambda loop, s=sc: scenario(s), budget=200_000_000)
        check(o, model, res, f"recurring-{seed}-{i}")
    # the same on the Redis and RabbitMQ brokers (in-process fake servers)
    for kind in ("redis", "rabbit"):
        rng = Rng(seed, f"c06/{kind}")
        jobs = make_jobs(rng, 8 if deep else 5)
        # always one job whose iterations end a fraction of a millisecond before the next slot (the successor is due at once)
        jobs.append({"id": "pe", "retries": 0, "defer_by": 1 * S, "timeout": 30 * S, "profile": "edge", "pattern": ["ok"] * 12,
                     "plan": [{"k": "ret", "dur": 1 * S - [300, 900, 1, 1500][k % 4]} for k in range(12)], "store_result": False})
        sc = {"jobs": jobs, "converter": "basic", "policy": {"kind": "const", "us": 100_000},
              "horizon_s": 32.0, "tasks_limit": 1000, "broker": kind}
        o = vtime.run(lambda loop, s=sc: scenario(s), budget=300_000_000)
        check(o, model, res, f"recurring-{kind}-{seed}")
        res.dist[f"broker:{kind}"] += len(sc["jobs"])
    # periods of more than a day (RabbitMQ only: its fake server is event-driven, nothing polls through the virtual days)
    H, D = 3600 * S, 86400 * S
    jobs = []
    for i, (per, du) in enumerate(((25 * H, None), (2 * D, None), (7 * D, 3 * D + 12 * H), (D + 1500, D + 700_000))):
        j = {"id": f"d{i}", "retries": 0, "defer_by": per, "timeout": 30 * S, "profile": "days", "pattern": ["ok"] * 6,
             "plan": [{"k": "ret", "dur": 200_000 * (k + 1)} for k in range(6)], "store_result": False}
        if du is not None:
            j["defer_until"] = du
        jobs.append(j)
    sc = {"jobs": jobs, "converter": "basic", "policy": {"kind": "const", "us": 0}, "horizon_s": 16 * 86400.0, "tasks_limit": 1000,
          "broker": "rabbit", "no_counter": True}
    o = vtime.run(lambda loop, s=sc: scenario(s), budget=300_000_000)
    check(o, model, res, f"recurring-rabbit-days-{seed}")
    res.dist["broker:rabbit-day-scale"] += len(jobs)
    return res


def search(ctx) -> Result:
    return run(dict(ctx, tier="thorough"))
