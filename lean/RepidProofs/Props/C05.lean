/-
C05 — Delayed messages are never delivered early and never forgotten (in-memory broker).
-/
import RepidModel.Pred.Broker
import RepidProofs.Proofs.MemEarly

namespace Repid.C05
open Repid Mem Pred.C05

/-- Histories admitted by the partial theorem: the clock read by successive atoms never goes back,
    and messages are only returned (reject / finish) out of normal-category holds. -/
def Valid (cron : String → Int → Int) : Int → Q → List Op → Prop
  | _, _, [] => True
  | t, q, op :: rest =>
    (∀ n, opNow op = some n → t ≤ n) ∧ okReturn q op ∧
    Valid cron ((opNow op).getD t) (step cron q op) rest

theorem valid_run (cron : String → Int → Int) (ops : List Op) (t : Int) (q : Q)
    (hinv : EarlyInv t q) (hv : Valid cron t q ops) :
    ∃ t', EarlyInv t' (run cron q ops) ∧ t ≤ t' ∧
      (∀ op ∈ ops, ∀ n, opNow op = some n → n ≤ t') := by
  induction ops generalizing t q with
  | nil => exact ⟨t, hinv, Int.le_refl t, by simp⟩
  | cons op rest ih =>
    obtain ⟨h1, h2, h3⟩ := hv
    have hstep := early_step cron t q op hinv h1 h2
    obtain ⟨t', hi, hle, hall⟩ := ih _ _ hstep h3
    have hmono : t ≤ (opNow op).getD t := by
      cases ho : opNow op with
      | none => simp
      | some n => simpa using h1 n ho
    refine ⟨t', by simpa [run] using hi, by omega, ?_⟩
    intro o ho n hn
    simp only [List.mem_cons] at ho
    rcases ho with ho | ho
    · subst ho; simp [hn] at hle; exact hle
    · exact hall o ho n hn

/-- `mem_never_early_partial`: in every valid history starting from the empty queue, whenever a
    normal-category poll at `now` hands out a message that was enqueued with due time `d`, then
    `d < now`.  PARTIAL: histories in which a message held out of the DELAYED/DEAD category is
    rejected or returned by finish are excluded (see `mem_delayed_return_witness`). -/
theorem mem_never_early_partial (cron : String → Int → Int) (pre : List Op) (c : Nat) (now : Int)
    (topics : List String) (m : Msg) (d : Int)
    (hv : Valid cron 0 {} (pre ++ [.poll c .normal now topics]))
    (hdeliv : (pollTake (run cron {} pre) c .normal now topics).1 = some m)
    (hdue : m.due = some d) : d < now := by
  -- split validity of `pre ++ [poll]`
  have key : ∀ (ops : List Op) (t : Int) (q : Q), EarlyInv t q →
      Valid cron t q (ops ++ [.poll c .normal now topics]) →
      ∃ t', EarlyInv t' (run cron q ops) ∧ t' ≤ now := by
    intro ops
    induction ops with
    | nil =>
      intro t q hi hv
      exact ⟨t, hi, hv.1 now rfl⟩
    | cons op rest ih =>
      intro t q hi hv
      obtain ⟨h1, h2, h3⟩ := hv
      have hstep := early_step cron t q op hi h1 h2
      obtain ⟨t', hi', hle⟩ := ih _ _ hstep h3
      exact ⟨t', by simpa [run] using hi', hle⟩
  have h0 : EarlyInv 0 ({} : Q) := ⟨by simp, by simp, by simp⟩
  obtain ⟨t', hi, hle⟩ := key pre 0 {} h0 hv
  exact (early_pollTake _ c .normal now topics (hi.mono hle)).2 m hdeliv rfl d hdue

/-- the same through the predicate evaluated on implementation traces (millisecond resolution) -/
theorem notEarlyMs_of_lt (d now : Int) (h : d < now) : notEarlyMs (some d) now = true := by
  simp only [notEarlyMs, decide_eq_true_eq]
  exact Int.ediv_le_ediv (by omega) (by omega)

/-- Refutation of the full clause on the current code: a message due in one hour, inspected through
    the DELAYED category and rejected (or returned by `finish`), is handed to a normal consumer at
    time 0. -/
theorem mem_delayed_return_witness :
    let m : Msg := { id := "m1", topic := "t", params := { delay := { nextExecutionTime := some 3600000000 } } }
    let cron : String → Int → Int := fun _ n => n
    let q1 := put {} m 0 cron
    let q2 := (pollTake q1 1 .delayed 0 []).2
    let q3 := rejectA q2 "m1"
    let r := pollTake q3 0 .normal 0 []
    (r.1.map (·.id)) = some "m1" ∧ (r.1.bind (·.due)) = some 3600000000 ∧
    notEarlyMs (r.1.bind (·.due)) 0 = false := by
  decide

/-- Until it is moved, a delayed message is visible only through the delayed category:
    a normal poll only ever returns a message from `simple`, a dead poll from `dead`,
    a delayed poll from the delayed dict. -/
theorem visible_only_delayed (q : Q) (cat : Cat) (now : Int) (topics : List String) (m : Msg)
    (h : (poll q cat now topics).1 = some m) :
    match cat with
    | .normal => m ∈ q.simple
    | .delayed => m ∈ delayedMsgs q.delayed
    | .dead => m ∈ q.dead := by
  cases cat with
  | normal =>
    simp only [poll, pollNormal] at h ⊢
    cases hs : q.simple with
    | nil => simp [hs] at h
    | cons x xs =>
      simp only [hs] at h
      by_cases h1 : x.params.isOverdue now = true
      · simp [h1] at h
      · by_cases h2 : (!wants topics x) = true
        · simp [h1, h2] at h
        · simp [h1, h2] at h; simp [h]
  | delayed =>
    simp only [poll, pollDelayed] at h ⊢
    cases hk : minKey q.delayed with
    | none => simp [hk] at h
    | some t =>
      simp only [hk] at h
      obtain ⟨e, he, hm⟩ := (popAt_sub q.delayed t).1 m h
      simp only [delayedMsgs, List.mem_flatMap]
      exact ⟨e, he, hm⟩
  | dead =>
    simp only [poll, pollDead] at h ⊢
    cases hd : q.dead with
    | nil => simp [hd] at h
    | cons x xs => simp [hd] at h; simp [h]

/-- "Never forgotten", step 1: the periodic `__update_delayed` at `now` moves EVERY entry that is
    due (`t < now`) into the normal queue, whatever the insertion order of the dict, and leaves no
    due entry behind. -/
theorem update_moves_all_due (q : Q) (now : Int) :
    (∀ e ∈ q.delayed, e.1 < now → ∀ m ∈ e.2, m ∈ (updateDelayed q now).simple) ∧
    (∀ e ∈ (updateDelayed q now).delayed, ¬ e.1 < now) ∧
    (∀ e ∈ q.delayed, ¬ e.1 < now → e ∈ (updateDelayed q now).delayed) := by
  refine ⟨fun e he hlt m hm => ?_, fun e he => ?_, fun e he hn => ?_⟩
  · simp only [updateDelayed, List.mem_append, delayedMsgs, List.mem_flatMap, List.mem_filter]
    exact Or.inr ⟨e, ⟨he, by simpa using hlt⟩, hm⟩
  · simp only [updateDelayed, List.mem_filter] at he
    simpa using he.2
  · simp only [updateDelayed, List.mem_filter]
    exact ⟨he, by simpa using hn⟩

/-- "Never forgotten", step 2: number of foreign messages in front of the first wanted one. -/
def lead (topics : List String) (l : List Msg) : Nat := (l.takeWhile (fun x => !wants topics x)).length

/-- each failed normal poll brings the oldest wanted waiting message one position closer to the
    head; with nothing in front it is delivered (or, if expired, dead-lettered — C12).  Hence a
    wanted message with `k` foreign messages in front is handed out after at most `k+1` polls. -/
theorem poll_progress (q : Q) (now : Int) (topics : List String) (x : Msg) (xs : List Msg)
    (hs : q.simple = x :: xs) (hw : ∃ y ∈ q.simple, wants topics y = true) :
    let r := pollNormal q now topics
    (lead topics q.simple = 0 ∧ (r.1 = some x ∨ x.params.isOverdue now = true)) ∨
    (r.1 = none ∧ lead topics r.2.simple + 1 = lead topics q.simple) := by
  simp only [pollNormal, hs]
  by_cases hwx : wants topics x = true
  · left
    refine ⟨by simp [lead, List.takeWhile_cons, hwx], ?_⟩
    by_cases h1 : x.params.isOverdue now = true
    · exact Or.inr h1
    · left; simp [h1, hwx]
  · right
    have hwx' : wants topics x = false := by simpa using hwx
    obtain ⟨y, hy, hyw⟩ := hw
    rw [hs] at hy
    have hyxs : y ∈ xs := by
      simp only [List.mem_cons] at hy
      rcases hy with hy | hy
      · subst hy; simp [hwx'] at hyw
      · exact hy
    have htw : ∀ (l : List Msg), y ∈ l →
        (l ++ [x]).takeWhile (fun z => !wants topics z) = l.takeWhile (fun z => !wants topics z) := by
      intro l hl
      induction l with
      | nil => simp at hl
      | cons a as ih =>
        by_cases ha : wants topics a = true
        · simp [List.takeWhile_cons, ha]
        · have ha' : wants topics a = false := by simpa using ha
          simp only [List.mem_cons] at hl
          rcases hl with hl | hl
          · subst hl; simp [ha'] at hyw
          · simp [List.takeWhile_cons, ha', ih hl]
    by_cases h1 : x.params.isOverdue now = true
    · simp [h1, lead, List.takeWhile_cons, hwx']
    · simp [h1, hwx', lead, List.takeWhile_cons, htw xs hyxs]

-- Non-vacuity of `Valid`: enqueue (due 5 s), idle, update at 6 s, deliver.
example :
    let m : Msg := { id := "a", topic := "t", params := { delay := { nextExecutionTime := some 5000000 } } }
    let cron : String → Int → Int := fun _ n => n
    Valid cron 0 {} [.put m 0, .poll 0 .normal 1000 [], .update 6000000, .poll 0 .normal 6000000 []] ∧
    ((pollTake (run cron {} [.put m 0, .poll 0 .normal 1000 [], .update 6000000]) 0 .normal 6000000 []).1.map (·.id))
      = some "a" := by
  refine ⟨⟨by simp [opNow], trivial, by simp [opNow], trivial, by simp [opNow], trivial, by simp [opNow], trivial, trivial⟩, by decide⟩

end Repid.C05
