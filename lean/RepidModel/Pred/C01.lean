/-
C01 property predicates (in-memory broker) — evaluated by the driver on snapshots of the
implementation and proved of the model in RepidProofs/Props/C01.lean.
-/
import RepidModel.Broker.MemHistory

namespace Repid.Pred.C01
open Repid Mem

def cntId (i : String) (l : List Msg) : Nat := (l.map (·.id)).count i

/-- occurrences of `i` over the live places of a queue -/
def live (i : String) (q : Q) : Nat :=
  cntId i q.simple + cntId i (delayedMsgs q.delayed) + cntId i q.dead + cntId i (heldMsgs q)

/-- every id ever enqueued is in exactly one place (a live place, or acknowledged), and nothing
    else is in the queue -/
def onePlace (q : Q) (enq acked : List String) : Bool :=
  enq.all (fun i => live i q + acked.count i == 1) && (liveIds q).all (fun i => enq.contains i)

/-- ack removes the message -/
def ackOk (after : Q) (i : String) : Bool := live i after == 0

/-- nack dead-letters it -/
def nackOk (after : Q) (i : String) : Bool := cntId i after.dead == 1 && live i after == 1

/-- reject returns it to the category it was taken from -/
def rejectOk (after : Q) (i : String) (frm : Cat) : Bool :=
  live i after == 1 &&
  (match frm with
   | .normal => cntId i after.simple == 1
   | .delayed => cntId i (delayedMsgs after.delayed) == 1
   | .dead => cntId i after.dead == 1)

/-- requeue replaces the held message by the new payload/parameters under the same id -/
def requeueOk (after : Q) (m : Msg) : Bool :=
  live m.id after == 1 &&
  ((after.simple ++ delayedMsgs after.delayed).any fun x =>
     x.id == m.id && x.topic == m.topic && x.payload == m.payload && decide (x.params = m.params))

end Repid.Pred.C01
