"""Call-level sessions on the real in-memory broker under virtual time, logged in the model's
vocabulary.  Used by C01 / C05 / C12 / C14 / C15."""
from __future__ import annotations

import implenv  # noqa: F401  (must be first)

import asyncio
from typing import Any

import vtime
from common import NONE, A, Atom, Rng, sx
from vtime import CLOCK, from_us, td_us, to_us, us_td

from repid import Connection, InMemoryMessageBroker, MessageCategory
from repid.data._key import RoutingKey
from repid.data._parameters import DelayProperties, Parameters, ResultProperties, RetriesProperties

S = 1_000_000
CATS = {"NORMAL": MessageCategory.NORMAL, "DELAYED": MessageCategory.DELAYED, "DEAD": MessageCategory.DEAD}


def opt(x):
    return NONE if x is None else x


def params_sx(p) -> list:
    r = NONE if p.result is None else [A("R"), p.result.id_, opt(td_us(p.result.ttl))]
    return [A("P"), td_us(p.execution_timeout), r, p.retries.max_amount, p.retries.already_tried,
            opt(to_us(p.delay.delay_until)), opt(td_us(p.delay.defer_by)),
            NONE if p.delay.cron is None else p.delay.cron, opt(to_us(p.delay.next_execution_time)),
            to_us(p.timestamp), opt(td_us(p.ttl))]


def mk_params(d: dict) -> Parameters:
    """params dict (µs ints) -> Parameters"""
    return Parameters(
        execution_timeout=us_td(d.get("timeout", 600 * S)),
        result=None if d.get("result") is None else ResultProperties(id_=d["result"][0], ttl=us_td(d["result"][1])),
        retries=RetriesProperties(max_amount=d.get("max", 0), already_tried=d.get("tried", 0)),
        delay=DelayProperties(delay_until=from_us(d.get("delay_until")), defer_by=us_td(d.get("defer_by")),
                              cron=None, next_execution_time=from_us(d.get("next"))),
        timestamp=from_us(d.get("ts", 0)),
        ttl=us_td(d.get("ttl")),
    )


def msg_sx(key, payload: str, params) -> list:
    return [A("M"), key.id_, key.topic, payload, params_sx(params)]


def m_sx(m) -> list:
    return msg_sx(m.key, m.payload, m.parameters)


def snapshot(broker: InMemoryMessageBroker, qname: str) -> list:
    """Canonical snapshot of one DummyQueue, same shape as the model's `qTo`."""
    q = broker.queues[qname]
    simple = list(q.simple._queue)  # asyncio.Queue's deque, head first
    return [A("Q"),
            [m_sx(m) for m in simple],
            [[to_us(t)] + [m_sx(m) for m in ms] for t, ms in q.delayed.items()],
            [m_sx(m) for m in q.dead],
            [m_sx(m) for m in sorted(q.processing, key=lambda m: m.key.id_)]]


def snap_ids(broker, qname) -> dict:
    q = broker.queues[qname]
    return {
        "simple": [m.key.id_ for m in q.simple._queue],
        "delayed": [[to_us(t), [m.key.id_ for m in ms]] for t, ms in q.delayed.items()],
        "dead": [m.key.id_ for m in q.dead],
        "processing": sorted(m.key.id_ for m in q.processing),
    }


class MemSession:
    """Executes ops on the real broker; `log` holds (op-dict, model-request-line, impl-answer)."""

    def __init__(self) -> None:
        self.broker = InMemoryMessageBroker()
        self.conn = Connection(self.broker)
        self.consumers: dict[int, Any] = {}
        self.cinfo: dict[int, dict] = {}
        self.log: list[tuple[dict, str, str]] = []
        self.script: list[dict] = []              # complete replayable op list (incl. start/advance)
        self.enq: dict[str, list[str]] = {}       # queue -> ids ever enqueued
        self.acked: dict[str, list[str]] = {}     # queue -> ids acked (call returned)
        self.held: dict[str, dict] = {}           # id -> {"c":, "q":, "cat":}
        self.msgs: dict[str, tuple] = {}          # id -> (key, payload, params) as last enqueued/requeued
        self.deliveries: list[dict] = []          # every successful consume
        self.believes: list[tuple[int, str]] = []  # (consumer, id): handed out and not disposed of by the holder
        self.bel_log: list[tuple[int, list]] = []  # (log index, believes after that op)
        self.due: dict[str, int | None] = {}      # id -> next execution time T of its last (re)enqueue (from the Parameters)
        self.due_key: dict[str, int | None] = {}  # id -> key of the broker's delayed dict at its last (re)enqueue
        self.enq_at: dict[str, int] = {}          # id -> log index of its last (re)enqueue
        self.returned_nonnormal: set[str] = set() # ids returned (reject/finish) out of a DELAYED/DEAD hold
        self.stolen: set[str] = set()             # ids returned by ANOTHER consumer's finish()
        self.returned: dict[str, int] = {}        # id -> log index of its latest return (reject/finish)
        self.dead_events: list[dict] = []         # ids that newly appeared in `dead`, with the causing op

    # -- helpers ------------------------------------------------------------------------
    def _rec(self, op: dict, line: str, impl: Any) -> None:
        self.log.append((op, line, sx(impl) if not isinstance(impl, str) or isinstance(impl, Atom) else impl))
        self.bel_log.append((len(self.log) - 1, list(self.believes)))
        self.script.append({k: v for k, v in op.items() if k not in ("before", "held", "returned", "order", "got", "now")})

    def _dead_ids(self, q: str) -> list[str]:
        return [m.key.id_ for m in self.broker.queues[q].dead]

    def _note_dead(self, q: str, before: list[str], op: dict) -> None:
        for m in self.broker.queues[q].dead:
            if m.key.id_ not in before:
                self.dead_events.append({"id": m.key.id_, "op": op["op"], "op_id": op.get("id"), "at": CLOCK.us,
                                         "start": op.get("now"), "ts": to_us(m.parameters.timestamp),
                                         "ttl": td_us(m.parameters.ttl)})

    async def declare(self, q: str) -> None:
        await self.broker.queue_declare(q)
        self.enq.setdefault(q, [])
        self.acked.setdefault(q, [])
        self._rec({"op": "declare", "q": q}, sx([A("mem.declare"), q]), A("ok"))

    def advance(self, us: int) -> None:
        CLOCK.advance(us)
        self.script.append({"op": "advance", "us": us})

    async def enqueue(self, q: str, id_: str, topic: str, payload: str, pd: dict, *, requeue: bool = False) -> None:
        key = RoutingKey(topic=topic, queue=q, priority=5, id_=id_)
        params = mk_params(pd)
        now = CLOCK.us
        # the statement's T: the stored next execution time, else the one computed from the schedule — taken from the
        # Parameters object, independently of where the broker files the message
        spec_due = params.delay.next_execution_time or params.compute_next_execution_time
        if requeue:
            await self.broker.requeue(key, payload, params)
            self.held.pop(id_, None)
        else:
            await self.broker.enqueue(key, payload, params)
            self.enq[q].append(id_)
        self.msgs[id_] = (key, payload, params)
        self.due_key[id_] = next((to_us(t) for t, ms in self.broker.queues[q].delayed.items()
                                  if any(m.key.id_ == id_ for m in ms)), None)
        self.due[id_] = None if spec_due is None else to_us(spec_due)
        self.enq_at[id_] = len(self.log)
        if requeue:
            self.believes = [b for b in self.believes if b[1] != id_]
        op = {"op": "requeue" if requeue else "enqueue", "q": q, "id": id_, "topic": topic, "payload": payload,
              "params": pd, "now": now}
        self._rec(op, sx([A("mem.requeue" if requeue else "mem.enqueue"), q, msg_sx(key, payload, params), now]),
                  snapshot(self.broker, q))

    async def start(self, c: int, q: str, cat: str, topics: list[str] | None) -> None:
        cons = self.broker.get_consumer(q, topics, category=CATS[cat])
        await cons.start()
        self.consumers[c] = cons
        self.cinfo[c] = {"q": q, "cat": cat, "topics": list(topics or [])}
        self.script.append({"op": "start", "c": c, "q": q, "cat": cat, "topics": topics})

    async def consume(self, c: int, polls: int) -> Any:
        cons, info = self.consumers[c], self.cinfo[c]
        q = info["q"]
        now = CLOCK.us
        dead_before = self._dead_ids(q)
        try:
            got = await asyncio.wait_for(cons.consume(), timeout=(polls - 0.5) / 1000.0)
        except asyncio.TimeoutError:
            got = None
        elapsed = CLOCK.us - now
        if got is None:
            failed = polls
            res_m = NONE
            # normalise the clock to the end of the last poll window
            CLOCK.advance_to(now + polls * 1000)
        else:
            key, payload, params = got
            failed = elapsed // 1000
            res_m = msg_sx(key, payload, params)
            self.held[key.id_] = {"c": c, "q": q, "cat": info["cat"]}
            self.believes.append((c, key.id_))
            self.deliveries.append({"id": key.id_, "c": c, "q": q, "cat": info["cat"], "at": CLOCK.us,
                                    "log": len(self.log), "due": self.due.get(key.id_),
                                    "returned_nonnormal": key.id_ in self.returned_nonnormal,
                                    "stolen": key.id_ in self.stolen,
                                    "topic": key.topic, "ts": to_us(params.timestamp), "ttl": td_us(params.ttl),
                                    "next": to_us(params.delay.next_execution_time)})
        op = {"op": "consume", "c": c, "q": q, "cat": info["cat"], "topics": info["topics"], "now": now, "polls": polls,
              "got": None if got is None else got[0].id_}
        self._note_dead(q, dead_before, op)
        self._rec(op, sx([A("mem.consume"), q, c, A(info["cat"]), info["topics"], now, polls]),
                  [A("res"), res_m, failed, snapshot(self.broker, q)])
        return got

    async def terminal(self, kind: str, q: str, id_: str) -> None:
        key = RoutingKey(topic=(self.msgs[id_][0].topic if id_ in self.msgs else "t"), queue=q, priority=5, id_=id_)
        before = snap_ids(self.broker, q)
        await getattr(self.broker, kind)(key)
        h = self.held.pop(id_, None)
        if kind == "ack" and h is not None:
            self.acked[q].append(id_)
        if h is not None:
            self.believes = [b for b in self.believes if b[1] != id_]
            if kind == "reject":
                self.returned[id_] = len(self.log)
                if h["cat"] != "NORMAL":
                    self.returned_nonnormal.add(id_)
        op = {"op": kind, "q": q, "id": id_, "held": h, "before": before, "now": CLOCK.us}
        self._note_dead(q, before["dead"], op)
        self._rec(op, sx([A("mem." + kind), q, id_]), snapshot(self.broker, q))

    async def finish(self, c: int) -> None:
        cons, info = self.consumers[c], self.cinfo[c]
        q = info["q"]
        before = snap_ids(self.broker, q)
        n0 = len(before["simple"])
        await cons.finish()
        after = snap_ids(self.broker, q)
        order = after["simple"][n0:]
        returned = {i: self.held[i] for i in order if i in self.held}
        for i in order:
            h = self.held.pop(i, None)
            self.returned[i] = len(self.log)
            if h is not None and h["cat"] != "NORMAL":
                self.returned_nonnormal.add(i)
            if h is not None and h["c"] != c:
                self.stolen.add(i)
        self.believes = [b for b in self.believes if b[0] != c]
        op = {"op": "finish", "c": c, "q": q, "order": order, "returned": returned, "before": before, "now": CLOCK.us}
        self._rec(op, sx([A("mem.finish"), q, c, order]), snapshot(self.broker, q))


def gen_params(rng: Rng, now: int) -> dict:
    """Structured, mostly-valid message parameters relative to `now` (µs)."""
    pd: dict = {"ts": now - rng.choice([0, 0, 1, S, 3 * S])}
    r = rng.random()
    if r < 0.45:
        pass                                                    # immediate
    elif r < 0.75:
        pd["next"] = now + rng.choice([-3600 * S, -1, 0, 1, 400_000, 999_999, S, 2 * S, 5 * S, 86400 * S])
    elif r < 0.87:
        pd["delay_until"] = now + rng.choice([-S, 0, 1, 500_000, 2 * S, 3600 * S])
    else:
        pd["defer_by"] = rng.choice([S, 2 * S, 10 * S])
    if rng.random() < 0.15 and "next" not in pd:
        pd["next"] = now + rng.choice([-S, 1, 300_000, 3 * S])    # back-off of a retried recurring/deferred job
    if rng.random() < 0.3:
        pd["ttl"] = rng.choice([S, 2 * S, 5 * S, 3600 * S, 0, 1])
    if rng.random() < 0.3:
        pd["max"] = rng.choice([1, 3])
        pd["tried"] = rng.choice([0, 1])
    return pd


async def random_session(rng: Rng, n_ops: int, profile: str = "mixed") -> MemSession:
    """Model-guided random well-behaved session: terminal actions only on ids currently held by the
    acting consumer; fresh ids; consumers started before consuming."""
    s = MemSession()
    nq = rng.choice([1, 1, 2, 3])
    queues = [f"q{i}" for i in range(nq)]
    topics_pool = ["ta", "tb", "tc"][: rng.choice([1, 2, 3])]
    for q in queues:
        await s.declare(q)
    ncons = rng.choice([1, 2, 3])
    cat_choices = {"mixed": ["NORMAL", "NORMAL", "NORMAL", "DELAYED", "DEAD"], "normal": ["NORMAL"],
                   "ttl": ["NORMAL", "NORMAL", "NORMAL", "DEAD"]}[profile]
    for c in range(ncons):
        q = rng.choice(queues)
        cat = cat_choices[0] if c == 0 else rng.choice(cat_choices)
        tp = rng.choice([None, None, [rng.choice(topics_pool)], topics_pool[:2]])
        await s.start(c, q, cat, tp)
    live = set(range(ncons))
    nid = 0
    for _ in range(n_ops):
        r = rng.random()
        held_by = {}
        for i, h in s.held.items():
            held_by.setdefault(h["c"], []).append(i)
        if r < 0.30 or nid == 0:
            q = rng.choice(queues)
            nid += 1
            pd = gen_params(rng, CLOCK.us)
            if profile == "ttl" and rng.random() < 0.6:
                pd["ttl"] = rng.choice([S, S, 2 * S, 5 * S, 0])
            await s.enqueue(q, f"m{nid}", rng.choice(topics_pool), f"p{nid}", pd)
        elif r < 0.42:
            s.advance(rng.choice([0, 1, 999, 1000, 500_000, S - 1001, S - 1, S, S + 1, 2 * S, 5 * S, 3600 * S]))
        elif r < 0.70 and live:
            c = rng.choice(sorted(live))
            await s.consume(c, rng.choice([1, 1, 2, 3, 5, 8]))
        elif r < 0.93 and held_by:
            c = rng.choice(sorted(held_by))
            i = rng.choice(sorted(held_by[c]))
            q = s.held[i]["q"]
            kind = rng.choice(["ack", "nack", "reject", "reject", "requeue"])
            if kind == "requeue":
                key, payload, params = s.msgs[i]
                pd = gen_params(rng, CLOCK.us)
                await s.enqueue(q, i, key.topic, payload + "'", pd, requeue=True)
            else:
                await s.terminal(kind, q, i)
        elif r < 0.97 and live:
            c = rng.choice(sorted(live))
            await s.finish(c)
            info = s.cinfo[c]
            if rng.random() < 0.7:
                await s.start(c, info["q"], info["cat"], info["topics"] or None)
            else:
                live.discard(c)
        else:
            # a terminal action on an id nobody holds is not well-behaved; the separate
            # ill-behaved stream (C01 only) sends them and compares no-op behaviour
            s.advance(1)
    return s


def compare_with_model(s: MemSession, model, res, label: str, extra_lines: list[str] | None = None):
    """Correspondence: every logged call's snapshot/result vs the Lean code-model.
    Returns (index of the first divergence or None, answers to extra_lines)."""
    lines = [ln for _, ln, _ in s.log]
    extra_lines = extra_lines or []
    answers = model.ask(lines + extra_lines)
    res.extra["model_requests"] = res.extra.get("model_requests", 0) + len(answers)
    first_bad = None
    ops_json = [{k: v for k, v in o.items() if k != "before"} for o, _, _ in s.log]
    for idx, ((op, ln, impl), ans) in enumerate(zip(s.log, answers)):
        if ans != impl:
            first_bad = idx
            res.bad("corr", "Mem code-model vs InMemoryMessageBroker (snapshot/result after a call)",
                    case={"label": label, "ops": ops_json[: idx + 1], "request": ln}, observed=impl, expected=ans)
            break
    return first_bad, answers[len(lines):], ops_json


async def scripted_session(script: list[dict]) -> MemSession:
    """Execute a recorded op list (corpus witness or replay)."""
    s = MemSession()
    for op in script:
        k = op["op"]
        if k == "declare":
            await s.declare(op["q"])
        elif k == "start":
            await s.start(op["c"], op["q"], op["cat"], op.get("topics"))
        elif k == "advance":
            s.advance(op["us"])
        elif k == "enqueue":
            await s.enqueue(op["q"], op["id"], op["topic"], op["payload"], op["params"])
        elif k == "requeue":
            await s.enqueue(op["q"], op["id"], op["topic"], op["payload"], op["params"], requeue=True)
        elif k == "consume":
            await s.consume(op["c"], op["polls"])
        elif k in ("ack", "nack", "reject"):
            await s.terminal(k, op["q"], op["id"])
        elif k == "finish":
            await s.finish(op["c"])
        else:
            raise ValueError(f"unknown op {k}")
    return s


def load_corpus(name: str) -> list[dict]:
    import json
    from common import VERIF
    return json.loads((VERIF / "corpus" / name).read_text())["script"]
