/-
Worker-side processing of one delivered message (code-model).  Anchors:
  repid/message.py                              Message.ack/nack/reject/reschedule/retry/force_retry
  repid/dependencies/message_dependency.py      eager responses, callbacks, _NoAction
  repid/_processor.py:38-143                    actor_run
  repid/_processor.py:145-172                   report_to_broker (decision ladder)
  repid/_processor.py:174-223                   set_result_bucket, process
-/
import RepidModel.Broker.InMemory

namespace Repid.Worker
open Repid Mem

/-- a call made on the message broker for one message -/
inductive BCall where
  | ack | nack | reject
  | requeue (p : Params)
  deriving Repr, DecidableEq, Inhabited

/-! ### `Message` handle (message.py) -/

inductive Refusal where
  | readOnly        -- ValueError("Message is read only.")
  | category        -- ValueError("Can not … message with category …")
  | budget          -- ValueError("Max retry limit reached.")
  | noResultParams  -- ValueError("parameters.result is not set.")
  | noResultBroker  -- ValueError("Results bucket broker is not configured.")
  deriving Repr, DecidableEq, Inhabited

inductive Api where
  | ack | nack | reject | reschedule
  | retry (next : Option Int)
  | forceRetry (next : Option Int)
  deriving Repr, DecidableEq, Inhabited

structure Handle where
  readOnly : Bool := false
  category : Cat := .normal
  deriving Repr, DecidableEq, Inhabited

/-- One `Message` API call: guards in the order of the code, then the broker call, then
    `__read_only = True` (set only after the broker call returned).
    `dflt` is the back-off used when `next_retry is None`: `timedelta(0)` for a plain `Message`,
    `actor.retry_policy(already_tried + 1)` for a `MessageDependency`. -/
def Handle.call (h : Handle) (p : Params) (now : Int) (cron : String → Int → Int) (dflt : Int) :
    Api → Except Refusal (BCall × Handle)
  | .ack =>
    if h.readOnly then .error .readOnly else .ok (.ack, { h with readOnly := true })
  | .nack =>
    if h.category != .normal then .error .category
    else if h.readOnly then .error .readOnly
    else .ok (.nack, { h with readOnly := true })
  | .reject =>
    if h.readOnly then .error .readOnly else .ok (.reject, { h with readOnly := true })
  | .reschedule =>
    if h.readOnly then .error .readOnly
    else .ok (.requeue (p.prepareReschedule now cron), { h with readOnly := true })
  | .retry next =>
    if h.category != .normal then .error .category
    else if h.readOnly then .error .readOnly
    else if p.retries.alreadyTried ≥ p.retries.maxAmount then .error .budget
    else .ok (.requeue (p.prepareRetry now (next.getD dflt)), { h with readOnly := true })
  | .forceRetry next =>
    if h.category != .normal then .error .category
    else if h.readOnly then .error .readOnly
    else .ok (.requeue (p.prepareRetry now (next.getD dflt)), { h with readOnly := true })

/-- run a sequence of API calls on one handle; per call: the refusal or the broker call made -/
def Handle.calls (h : Handle) (p : Params) (now : Int) (cron : String → Int → Int) (dflt : Int) :
    List Api → List (Except Refusal BCall)
  | [] => []
  | a :: rest =>
    match h.call p now cron dflt a with
    | .ok (b, h') => .ok b :: Handle.calls h' p now cron dflt rest
    | .error r => .error r :: Handle.calls h p now cron dflt rest

/-! ### `MessageDependency` (eager responses inside an actor) -/

/-- what the actor body does before its eager response -/
inductive Pre where
  | setResult        -- m.set_result(v)
  | setException     -- m.set_exception(e)
  | addCallback (id : Nat) (raises : Bool)
  deriving Repr, DecidableEq, Inhabited

/-- a callback to run after the broker call: a user callback or the lazily positioned result store -/
inductive Cb where
  | user (id : Nat) (raises : Bool)
  | store (success : Bool)
  deriving Repr, DecidableEq, Inhabited

structure DepState where
  callbacks : List Cb := []
  /-- `__lazy_result_callback`: (insert position, success flag) recorded by the latest set_* call -/
  lazy : Option (Nat × Bool) := none
  resultSuccess : Option Bool := none
  deriving Repr, DecidableEq, Inhabited

/-- `set_result` / `set_exception` / `add_callback`; `hasResultParams`, `hasBroker` are the two
    guards of set_* (both raise ValueError — an ordinary exception in the actor body). -/
def DepState.pre (d : DepState) (hasResultParams hasBroker : Bool) : Pre → Except Refusal DepState
  | .addCallback id raises => .ok { d with callbacks := d.callbacks ++ [.user id raises] }
  | .setResult =>
    if !hasResultParams then .error .noResultParams
    else if !hasBroker then .error .noResultBroker
    else .ok { d with lazy := some (d.callbacks.length, true), resultSuccess := some true }
  | .setException =>
    if !hasResultParams then .error .noResultParams
    else if !hasBroker then .error .noResultBroker
    else .ok { d with lazy := some (d.callbacks.length, false), resultSuccess := some false }

/-- `__execute_callbacks`: `self.__lazy_result_callback()` inserts the store at the recorded index
    (`list.insert(i, x)` with `i ≤ len`), then the callbacks run in list order. -/
def DepState.finalCallbacks (d : DepState) : List Cb :=
  match d.lazy with
  | none => d.callbacks
  | some (i, s) => d.callbacks.take i ++ [.store s] ++ d.callbacks.drop i

def Cb.raises : Cb → (storeFails : Bool) → Bool
  | .user _ r, _ => r
  | .store _, sf => sf

/-- `__execute_callbacks`: every callback runs, in list order; a callback that raises is logged and
    the remaining ones still run (the message has already been reported to the broker).
    Returns the callbacks executed and whether any of them raised. -/
def runCallbacks (cbs : List Cb) (storeFails : Bool) : List Cb × Bool :=
  (cbs, cbs.any (fun c => c.raises storeFails))

/-! ### actor outcomes and `actor_run` -/

/-- Everything an actor can do with a delivered message (the alphabet of C02). -/
inductive Outcome where
  | ret                -- returns a value
  | raise              -- raises an Exception
  | timeout            -- exceeds execution_timeout (asyncio.TimeoutError is an Exception)
  | convFail           -- argument conversion raises
  | depFail            -- dependency resolution raises
  | eager (pre : List Pre) (a : Api)   -- set_result/set_exception/add_callback calls, then an eager response
  deriving Repr, DecidableEq, Inhabited

structure ActorResult where
  success : Bool
  reportingDone : Bool
  /-- broker calls made from inside the actor (eager response) -/
  calls : List BCall := []
  /-- callbacks executed after the eager response, in order -/
  ran : List Cb := []
  /-- the actor body was entered (conversion and dependencies succeeded) -/
  bodyRan : Bool := true
  deriving Repr, DecidableEq, Inhabited

def foldPre (d : DepState) (hasResultParams hasBroker : Bool) : List Pre → Except Refusal DepState
  | [] => .ok d
  | x :: rest =>
    match d.pre hasResultParams hasBroker x with
    | .ok d' => foldPre d' hasResultParams hasBroker rest
    | .error r => .error r

/-- default success flag of `_NoAction` per eager action when no result was set -/
def Api.defaultSuccess : Api → Bool
  | .ack => true | .reschedule => true | _ => false

/-- `actor_run`: maps what happened to `ActorResult(success, reporting_done)`.
    `storeFails`: the result bucket broker raises on `store_bucket`. -/
def actorRun (p : Params) (now : Int) (cron : String → Int → Int) (policyNext : Int)
    (hasBroker storeFails : Bool) : Outcome → ActorResult
  | .ret => { success := true, reportingDone := false }
  | .raise => { success := false, reportingDone := false }
  | .timeout => { success := false, reportingDone := false }
  | .convFail => { success := false, reportingDone := false, bodyRan := false }
  | .depFail => { success := false, reportingDone := false, bodyRan := false }
  | .eager pre a =>
    match foldPre {} p.result.isSome hasBroker pre with
    | .error _ => { success := false, reportingDone := false }   -- ValueError inside the body
    | .ok d =>
      match ({} : Handle).call p now cron policyNext a with
      | .error _ => { success := false, reportingDone := false } -- refused: ValueError inside the body
      | .ok (b, _) =>
        let r := runCallbacks d.finalCallbacks storeFails
        -- whatever the callbacks do, `_NoAction` is raised afterwards: reporting is done
        { success := d.resultSuccess.getD a.defaultSuccess, reportingDone := true, calls := [b], ran := r.1 }

/-! ### the decision ladder and `process` -/

def isRecurring (p : Params) : Bool := p.delay.deferBy.isSome || p.delay.cron.isSome

/-- `report_to_broker` -/
def report (p : Params) (success : Bool) (now : Int) (cron : String → Int → Int) (policyNext : Int) : BCall :=
  if !success && decide (p.retries.alreadyTried < p.retries.maxAmount) then
    .requeue (p.prepareRetry now policyNext)
  else if isRecurring p then .requeue (p.prepareReschedule now cron)
  else if success then .ack
  else .nack

structure ProcTrace where
  calls : List BCall               -- broker calls for this message, in order
  stores : List Bool               -- result-bucket stores attempted (success flag of the stored outcome)
  bodyRan : Bool
  ran : List Cb
  /-- `process()` itself raised (only a failing store on the non-eager path can do that) -/
  raised : Bool := false
  deriving Repr, DecidableEq, Inhabited

/-- `process()`: actor_run; unless reporting is done: report_to_broker, count, set_result_bucket. -/
def process (p : Params) (now : Int) (cron : String → Int → Int) (policyNext : Int)
    (hasBroker storeFails : Bool) (o : Outcome) : ProcTrace :=
  let r := actorRun p now cron policyNext hasBroker storeFails o
  let eagerStores := r.ran.filterMap (fun | .store s => some s | _ => none)
  if r.reportingDone then
    { calls := r.calls, stores := eagerStores, bodyRan := r.bodyRan, ran := r.ran }
  else
    let b := report p r.success now cron policyNext
    match p.result with
    | none => { calls := r.calls ++ [b], stores := eagerStores, bodyRan := r.bodyRan, ran := r.ran }
    | some _ =>
      -- `self._conn._rb` raises ValueError when no results broker is configured
      { calls := r.calls ++ [b], stores := eagerStores ++ (if hasBroker then [r.success] else []),
        bodyRan := r.bodyRan, ran := r.ran, raised := !hasBroker || storeFails }

/-- the disposition table of the statement (spec, written without looking at the ladder's order) -/
def disposition (p : Params) (success : Bool) (now : Int) (cron : String → Int → Int) (policyNext : Int) : BCall :=
  match success, decide (p.retries.alreadyTried < p.retries.maxAmount), isRecurring p with
  | false, true, _ => .requeue (p.prepareRetry now policyNext)        -- failure, retries remain
  | _, _, true => .requeue (p.prepareReschedule now cron)             -- recurring: reschedule instead of ack/nack
  | true, _, false => .ack
  | false, false, false => .nack

end Repid.Worker
