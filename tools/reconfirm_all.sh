#!/bin/bash
# tools/reconfirm_all.sh — every kept seeded change is applied (scratch worktree) and the check of its property must report a VIOLATION
cd "$(dirname "$0")/.."
OUT=$(mktemp -d)
n=0
for d in seeded/C*; do
  id=$(basename "$d"); prop=${id%%-*}
  ( tools/try_mutant.sh "$d/patch.diff" "$prop" --no-lean > "$OUT/$id.log" 2>&1; echo $? > "$OUT/$id.rc" ) &
  n=$((n+1)); if (( n % 6 == 0 )); then wait; fi
done; wait
bad=0
for d in seeded/C*; do
  id=$(basename "$d"); rc=$(cat "$OUT/$id.rc")
  v=$(grep -m1 '^VIOLATION' "$OUT/$id.log")
  if [ "$rc" != 1 ] || [ -z "$v" ]; then bad=1; echo "NOT CAUGHT: $id rc=$rc $(tail -n 1 "$OUT/$id.log" | cut -c1-120)"; fi
  case "$v" in *no-failing-input-found*) echo "no-failing-input: $id";; esac
done
[ $bad = 0 ] && echo "all $(ls -d seeded/C* | wc -l) seeded changes are reported as violations"
rm -rf "$OUT"; exit $bad
