/-
Shutdown timeline of `Worker.run` (code-model of the timers only).  Anchors:
  repid/_runner.py:141-162   stop_wait_and_cancel / finish_gracefully
  repid/worker.py:108-127    finish consumers under wait_for(5 s), stop health server under wait_for(1 s)
All values in microseconds.
-/
namespace Repid.Shutdown

structure Timers where
  grace : Int                 -- graceful_shutdown_time
  consumerFinish : Int        -- graceful_consumer_finish_time (5 s)
  healthStop : Int            -- graceful_health_check_server_finish_time (1 s)
  deriving Repr, DecidableEq

/-- what the phases actually took in one run: time until all processing tasks were done after the
    stop request, time consumers needed to finish, time the health server needed to stop -/
structure Phases where
  tasksDone : Int
  consumersDone : Int
  healthDone : Int
  deriving Repr, DecidableEq

/-- `asyncio.wait(tasks, timeout=grace)` / `sleep(grace); cancel_event.set()` cut the first phase at
    `grace`; `wait_for(..., timeout)` cut the others -/
def returnAfter (t : Timers) (p : Phases) : Int :=
  min p.tasksDone t.grace + min p.consumersDone t.consumerFinish + min p.healthDone t.healthStop

end Repid.Shutdown
