"""In-process stand-in for `aiormq.connect()` / channel, covering exactly the calls repid makes.

Assumption set A (DESIGN §3.6): queues are FIFO per priority with `x-max-priority`; a consumer holds
each delivered message exclusively until ack/nack/reject or channel close; `reject/nack(requeue=True)`
returns the message to (the head of) its queue; `nack/reject(requeue=False)` and per-message
`expiration` dead-letter to `x-dead-letter-routing-key` via the default exchange; per-message TTL
fires only at the HEAD of the queue; `basic.qos(prefetch_count)` bounds unacked deliveries per
channel (0 = unlimited).  Deliveries are real `aiormq.abc.DeliveredMessage` objects handed to the
consumer callback in a new task (as aiormq does).

One channel method = one atomic server step behind one scheduling point.
All connections for the same dsn share one `FakeAmqpServer`.
"""
from __future__ import annotations

import asyncio
import time
from dataclasses import dataclass, field
from typing import Any

from aiormq.abc import DeliveredMessage
from pamqp import commands as spec
from pamqp.header import ContentHeader


@dataclass
class Msg:
    body: bytes
    properties: spec.Basic.Properties
    routing_key: str
    expires_at: int | None = None         # unix time in µs at which the per-message TTL fires (at queue head)
    seq: int = 0
    redelivered: bool = False


@dataclass
class Queue:
    name: str
    arguments: dict
    ready: list[Msg] = field(default_factory=list)        # ordered: priority desc, then seq asc
    consumers: list = field(default_factory=list)         # (channel, tag, callback) round-robin

    def insert(self, m: Msg, front: bool = False) -> None:
        maxp = self.arguments.get("x-max-priority")
        pr = min(m.properties.priority or 0, maxp) if maxp is not None else 0
        key = (-pr, m.seq)
        i = 0
        while i < len(self.ready):
            o = self.ready[i]
            opr = min(o.properties.priority or 0, maxp) if maxp is not None else 0
            if (-opr, o.seq) > key:
                break
            i += 1
        self.ready.insert(i, m)


class FakeAmqpServer:
    def __init__(self) -> None:
        self.queues: dict[str, Queue] = {}
        self.seq = 0
        self.round_trips = 0
        self.log: list[tuple] = []
        self.latency = None
        self.unacked: dict[tuple[int, int], tuple[str, Msg]] = {}    # (channel id, delivery tag) -> (queue, msg)
        self.dropped: list[Msg] = []                                  # dead-lettered with no DLX target (discarded)
        self._pumping = False

    def now(self) -> int:
        """server clock in whole microseconds (exact under the virtual clock)"""
        return time.time_ns() // 1000

    def snapshot(self) -> dict:
        def mid(m: Msg) -> str:
            return m.properties.message_id or "?"
        return {"ready": {q.name: [mid(m) for m in q.ready] for q in sorted(self.queues.values(), key=lambda q: q.name)},
                "unacked": sorted((qn, mid(m)) for (qn, m) in self.unacked.values())}

    # -- routing ---------------------------------------------------------------------------------
    def publish(self, routing_key: str, body: bytes, properties: spec.Basic.Properties) -> bool:
        q = self.queues.get(routing_key)
        if q is None:
            return False
        self.seq += 1
        exp = None
        if properties.expiration is not None:
            exp = self.now() + int(properties.expiration) * 1000
        q.insert(Msg(body, properties, routing_key, exp, self.seq))
        return True

    def dead_letter(self, qname: str, m: Msg) -> None:
        q = self.queues.get(qname)
        target = q.arguments.get("x-dead-letter-routing-key") if q else None
        if target is None or target not in self.queues:
            self.dropped.append(m)
            return
        self.seq += 1
        props = m.properties
        # per-message expiration is removed when a message is dead-lettered because it expired
        p2 = spec.Basic.Properties(message_id=props.message_id, priority=props.priority, expiration=None,
                                   delivery_mode=props.delivery_mode, timestamp=props.timestamp, headers=props.headers)
        self.queues[target].insert(Msg(m.body, p2, target, None, self.seq))

    def next_expiry(self) -> float | None:
        ts = [q.ready[0].expires_at for q in self.queues.values() if q.ready and q.ready[0].expires_at is not None]
        return min(ts) if ts else None

    def expire_heads(self) -> None:
        changed = True
        while changed:
            changed = False
            for q in list(self.queues.values()):
                while q.ready and q.ready[0].expires_at is not None and q.ready[0].expires_at <= self.now():
                    m = q.ready.pop(0)
                    self.dead_letter(q.name, m)
                    changed = True

    # -- delivery ---------------------------------------------------------------------------------
    def pump(self) -> None:
        """expire queue heads, then deliver ready messages to consumers with capacity"""
        if self._pumping:
            return
        self._pumping = True
        try:
            self.expire_heads()
            for q in self.queues.values():
                progress = True
                while q.ready and q.consumers and progress:
                    progress = False
                    for _ in range(len(q.consumers)):
                        ch, tag, cb = q.consumers[0]
                        q.consumers.append(q.consumers.pop(0))
                        if ch.closed or not ch.has_capacity():
                            continue
                        m = q.ready.pop(0)
                        ch.deliver(q.name, tag, cb, m)
                        progress = True
                        break
        finally:
            self._pumping = False


_SERVERS: dict[str, FakeAmqpServer] = {}


def server_for(dsn: str) -> FakeAmqpServer:
    return _SERVERS.setdefault(dsn, FakeAmqpServer())


def reset_servers() -> None:
    _SERVERS.clear()
    FakeChannel._next_id = 0


class FakeChannel:
    _next_id = 0

    def __init__(self, server: FakeAmqpServer) -> None:
        self.server = server
        self.id = FakeChannel._next_id
        FakeChannel._next_id += 1
        self.consumers: dict = {}           # repid replaces this with its _Consumers dict
        self.closed = False
        self.prefetch = 0
        self.tag = 0
        self.ctag = 0
        self._ttl_task: asyncio.Task | None = None

    @property
    def is_closed(self) -> bool:
        return self.closed

    async def _trip(self, op: str, arg: Any = None) -> None:
        self.server.round_trips += 1
        self.server.log.append((self.id, op, arg))
        lat = self.server.latency(self.id, op) if self.server.latency else 0
        await asyncio.sleep(lat)
        if self.closed:
            raise ConnectionError("fake channel is closed")

    def _after(self) -> None:
        self.server.pump()
        self._arm_ttl()

    def _arm_ttl(self) -> None:
        """wake up when the next queue head expires (server-side timer)"""
        nxt = self.server.next_expiry()
        if self._ttl_task is not None and not self._ttl_task.done():
            self._ttl_task.cancel()
        if nxt is None:
            return

        async def timer(at=nxt):
            await asyncio.sleep(max(0, at - self.server.now()) / 1e6)
            self.server.pump()
            self._arm_ttl()
        self._ttl_task = asyncio.ensure_future(timer())

    def unacked_count(self) -> int:
        return sum(1 for (cid, _t) in self.server.unacked if cid == self.id)

    def has_capacity(self) -> bool:
        return self.prefetch == 0 or self.unacked_count() < self.prefetch

    def deliver(self, qname: str, ctag: str, cb, m: Msg) -> None:
        self.tag += 1
        tag = self.tag
        self.server.unacked[(self.id, tag)] = (qname, m)
        delivery = spec.Basic.Deliver(consumer_tag=ctag, delivery_tag=tag, redelivered=m.redelivered, exchange="",
                                      routing_key=m.routing_key)
        header = ContentHeader(body_size=len(m.body), properties=m.properties)
        msg = DeliveredMessage(delivery=delivery, header=header, body=m.body, channel=self)  # type: ignore[arg-type]
        callback = self.consumers.get(ctag, cb)
        asyncio.ensure_future(callback(msg))

    # -- channel methods ---------------------------------------------------------------------------
    async def basic_publish(self, body: bytes, *, exchange: str = "", routing_key: str = "", properties=None,
                            mandatory: bool = False, **_kw):
        await self._trip("publish", routing_key)
        ok = self.server.publish(routing_key, body, properties or spec.Basic.Properties())
        self._after()
        # the publisher confirm is a frame of its own: deliveries triggered by this publish may be handled before it arrives
        await asyncio.sleep(0)
        await asyncio.sleep(0)
        if not ok and mandatory:
            return spec.Basic.Return(reply_code=312, reply_text="NO_ROUTE", exchange=exchange, routing_key=routing_key)
        return spec.Basic.Ack(delivery_tag=0)

    async def basic_ack(self, delivery_tag: int, multiple: bool = False, wait: bool = True) -> None:
        await self._trip("ack", delivery_tag)
        self.server.unacked.pop((self.id, delivery_tag), None)
        self._after()

    async def _return(self, delivery_tag: int, requeue: bool) -> None:
        ent = self.server.unacked.pop((self.id, delivery_tag), None)
        if ent is not None:
            qname, m = ent
            if requeue:
                m.redelivered = True
                q = self.server.queues.get(qname)
                if q is not None:
                    q.insert(m)       # same seq: back to its original position
            else:
                self.server.dead_letter(qname, m)
        self._after()
        # the client call returns when its frame has drained (aiormq: `await drain_future`); what the server sends in
        # reaction (a redelivery of the message just given back) may be handled by the client before that
        await asyncio.sleep(0)
        await asyncio.sleep(0)

    async def basic_nack(self, delivery_tag: int, multiple: bool = False, requeue: bool = True, wait: bool = True) -> None:
        await self._trip("nack", (delivery_tag, requeue))
        await self._return(delivery_tag, requeue)

    async def basic_reject(self, delivery_tag: int, *, requeue: bool = True, wait: bool = True) -> None:
        await self._trip("reject", (delivery_tag, requeue))
        await self._return(delivery_tag, requeue)

    async def basic_qos(self, *, prefetch_size=None, prefetch_count=None, global_: bool = False, **_kw):
        await self._trip("qos", prefetch_count)
        self.prefetch = prefetch_count or 0
        self._after()
        return spec.Basic.QosOk()

    async def basic_consume(self, queue: str, consumer_callback, *, no_ack: bool = False, consumer_tag=None, **_kw):
        await self._trip("consume", queue)
        self.ctag += 1
        tag = consumer_tag or f"ctag{self.id}.{self.ctag}"
        self.consumers[tag] = consumer_callback
        q = self.server.queues.get(queue)
        if q is None:
            raise ConnectionError(f"NOT_FOUND - no queue '{queue}'")
        q.consumers.append((self, tag, consumer_callback))
        self._after()
        return spec.Basic.ConsumeOk(consumer_tag=tag)

    async def basic_cancel(self, consumer_tag: str, **_kw):
        await self._trip("cancel", consumer_tag)
        for q in self.server.queues.values():
            q.consumers = [c for c in q.consumers if not (c[0] is self and c[1] == consumer_tag)]
        self.consumers.pop(consumer_tag, None)      # aiormq pops the callback on CancelOk
        return spec.Basic.CancelOk(consumer_tag=consumer_tag)

    async def queue_declare(self, queue: str = "", *, durable: bool = False, arguments=None, **_kw):
        await self._trip("declare", queue)
        if queue not in self.server.queues:
            self.server.queues[queue] = Queue(queue, dict(arguments or {}))
        return spec.Queue.DeclareOk(queue=queue, message_count=len(self.server.queues[queue].ready), consumer_count=0)

    async def queue_purge(self, queue: str = "", **_kw):
        await self._trip("purge", queue)
        q = self.server.queues.get(queue)
        n = len(q.ready) if q else 0
        if q:
            q.ready.clear()
        return spec.Queue.PurgeOk(message_count=n)

    async def queue_delete(self, queue: str = "", **_kw):
        await self._trip("delete", queue)
        self.server.queues.pop(queue, None)
        return spec.Queue.DeleteOk(message_count=0)

    def queue_deleted_at_server(self, queue: str) -> None:
        """the queue disappears at the server (deleted, node lost): its consumers on this channel are cancelled server-side —
        aiormq pops their callbacks from `channel.consumers` — and a new basic_consume on it fails with NOT_FOUND"""
        q = self.server.queues.pop(queue, None)
        if q is None:
            return
        for ch, tag, _cb in q.consumers:
            if ch is self:
                self.consumers.pop(tag, None)

    def close_from_server(self) -> None:
        """channel/connection death: every unacked delivery of this channel returns to its queue"""
        self.closed = True
        for key in [k for k in self.server.unacked if k[0] == self.id]:
            qname, m = self.server.unacked.pop(key)
            m.redelivered = True
            q = self.server.queues.get(qname)
            if q is not None:
                q.insert(m)
        for q in self.server.queues.values():
            q.consumers = [c for c in q.consumers if c[0] is not self]


class FakeConnection:
    def __init__(self, dsn: str) -> None:
        self.server = server_for(dsn)
        self.channels: list[FakeChannel] = []
        self.is_closed = False

    async def channel(self, *a, **kw) -> FakeChannel:
        await asyncio.sleep(0)
        ch = FakeChannel(self.server)
        self.channels.append(ch)
        return ch

    async def close(self, *a, **kw) -> None:
        await asyncio.sleep(0)
        self.is_closed = True
        for ch in self.channels:
            ch.close_from_server()
        self.server.pump()


async def connect(dsn: str, *a, **kw) -> FakeConnection:
    await asyncio.sleep(0)
    return FakeConnection(dsn)


def install() -> None:
    """Replace `aiormq.connect` as seen by repid's RabbitMQ broker (call after importing repid)."""
    import repid.connections.rabbitmq.message_broker as mb
    mb.aiormq.connect = connect   # type: ignore[assignment]
