"""Virtual time for running the real repid code deterministically.

* `install()` must be called BEFORE `repid` is imported: it replaces the module attributes
  `datetime.datetime` (subclass whose now()/utcnow()/today() read the virtual clock), `time.time`,
  `time.time_ns`, and `uuid.uuid4` (seeded), so that every `from datetime import datetime` inside
  repid binds the virtual clock.
* `VirtualLoop` is a SelectorEventLoop whose `time()` is the virtual clock and which jumps the
  clock to the next timer when nothing is ready.  A per-callback hook lets the harness snapshot
  state and inject external events at an exact callback index.  Every run carries a callback
  budget; exhausting it raises `BudgetExhausted` (never a hang).
"""
from __future__ import annotations

import asyncio
import datetime as _dt
import heapq
import os
import random
import time as _time
import uuid as _uuid

os.environ["TZ"] = os.environ.get("VERIF_TZ", "UTC")
try:
    _time.tzset()
except AttributeError:  # pragma: no cover
    pass

_REAL_DATETIME = _dt.datetime
BASE = _REAL_DATETIME(2026, 3, 1, 12, 0, 0)          # virtual epoch: the UTC wall clock at model time 0
BASE_UNIX_US = int((BASE - _REAL_DATETIME(1970, 1, 1)).total_seconds()) * 1_000_000
# Local time zone of the process under test.  Naive datetimes in repid are LOCAL wall-clock times (`datetime.now()`); the
# harness runs under UTC by default and, for one round of the thorough tier, under a zone away from UTC (`set_tz`), so that a
# naive value taken for a UTC one (or the reverse) shows.
LOCAL_OFFSET = _dt.timedelta(0)


def set_tz(posix_tz: str) -> None:
    """e.g. "UTC", "XXX+5" (five hours west of UTC), "XXX-5:30" (five and a half hours east)"""
    global LOCAL_OFFSET
    os.environ["TZ"] = posix_tz
    _time.tzset()
    lt = _time.localtime(86400 * 365)
    LOCAL_OFFSET = _dt.timedelta(seconds=lt.tm_gmtoff)


class Clock:
    """Microsecond-quantised virtual clock. `us` = microseconds since BASE."""

    def __init__(self) -> None:
        self.us = 0

    def reset(self, us: int = 0) -> None:
        self.us = us

    def advance(self, us: int) -> None:
        assert us >= 0
        self.us += us

    def advance_to(self, us: int) -> None:
        if us > self.us:
            self.us = us

    def now(self) -> _dt.datetime:
        return VDateTime._from_real(BASE + _dt.timedelta(microseconds=self.us) + LOCAL_OFFSET)

    def unix_us(self) -> int:
        return BASE_UNIX_US + self.us


CLOCK = Clock()
_RNG = random.Random(0)


class VDateTime(_REAL_DATETIME):
    @classmethod
    def _from_real(cls, d: _dt.datetime) -> "VDateTime":
        return cls(d.year, d.month, d.day, d.hour, d.minute, d.second, d.microsecond, d.tzinfo)

    @classmethod
    def now(cls, tz=None):  # noqa: D102
        d = BASE + _dt.timedelta(microseconds=CLOCK.us)
        if tz is not None:
            d = d.replace(tzinfo=_dt.timezone.utc).astimezone(tz)
        else:
            d = d + LOCAL_OFFSET          # a naive now() is the local wall clock
        return cls._from_real(d)

    @classmethod
    def utcnow(cls):  # noqa: D102
        return cls._from_real(BASE + _dt.timedelta(microseconds=CLOCK.us))

    @classmethod
    def today(cls):  # noqa: D102
        return cls.now()


_installed = False


def install(seed: int = 0) -> None:
    global _installed
    _RNG.seed(seed)
    random.seed(seed)
    if _installed:
        return
    _dt.datetime = VDateTime  # type: ignore[misc]
    _time.time = lambda: CLOCK.unix_us() / 1e6  # type: ignore[assignment]
    _time.time_ns = lambda: CLOCK.unix_us() * 1000  # type: ignore[assignment]
    _uuid.uuid4 = lambda: _uuid.UUID(int=_RNG.getrandbits(128), version=4)  # type: ignore[assignment]
    _installed = True


if os.environ.get("VERIF_TZ"):
    set_tz(os.environ["VERIF_TZ"])


def to_us(d: _dt.datetime | None) -> int | None:
    """datetime -> µs since BASE (model time)."""
    if d is None:
        return None
    if d.tzinfo is not None:
        d = d.astimezone(_dt.timezone.utc).replace(tzinfo=None)
    else:
        d = d - LOCAL_OFFSET
    delta = d - BASE
    return (delta.days * 86400 + delta.seconds) * 1_000_000 + delta.microseconds


def from_us(us: int | None):
    if us is None:
        return None
    return VDateTime._from_real(BASE + _dt.timedelta(microseconds=us) + LOCAL_OFFSET)


def td_us(td: _dt.timedelta | None) -> int | None:
    if td is None:
        return None
    return (td.days * 86400 + td.seconds) * 1_000_000 + td.microseconds


def us_td(us: int | None):
    if us is None:
        return None
    return _dt.timedelta(microseconds=us)


class BudgetExhausted(Exception):
    pass


_orig_handle_run = asyncio.events.Handle._run


def _hooked_run(self):  # type: ignore[no-untyped-def]
    _orig_handle_run(self)
    loop = self._loop
    hook = getattr(loop, "_after_callback", None)
    if hook is not None:
        hook()


asyncio.events.Handle._run = _hooked_run  # type: ignore[method-assign]


class VirtualLoop(asyncio.SelectorEventLoop):
    """Event loop on the virtual clock."""

    def __init__(self, budget: int = 2_000_000, horizon_us: int | None = None) -> None:
        super().__init__()
        self._clock_resolution = 1e-7
        self.cb_index = 0            # number of callbacks executed so far
        self.budget = budget
        self.horizon_us = horizon_us
        self.on_callback = None      # callable(index) after every callback
        self._exec_pending = 0
        self._origin_us = CLOCK.us   # loop.time() == 0 at creation
        self._tfloat = 0.0           # exact float deadline of the timer the clock last jumped to
        self._deadlock_check = True  # (scenarios that wait for real threads / sockets switch it off)

    # -- time -----------------------------------------------------------------
    def time(self) -> float:
        t = (CLOCK.us - self._origin_us) / 1e6
        # return the timer's own float deadline after a jump (a difference of 1e-17 s would make the
        # selector sleep a real millisecond)
        if abs(t - self._tfloat) < 4e-7 and self._tfloat > t:
            return self._tfloat
        return t

    def _after_callback(self) -> None:
        self.cb_index += 1
        if self.on_callback is not None:
            self.on_callback(self.cb_index)
        if self.cb_index > self.budget:
            self.budget = 10**18  # raise once
            raise BudgetExhausted(f"callback budget exhausted at virtual t={CLOCK.us}us")

    def run_in_executor(self, executor, func, *args):  # type: ignore[override]
        fut = super().run_in_executor(executor, func, *args)
        self._exec_pending += 1

        def _done(_f):  # type: ignore[no-untyped-def]
            self._exec_pending -= 1

        fut.add_done_callback(_done)
        return fut

    def _run_once(self) -> None:  # type: ignore[override]
        sched = self._scheduled
        while sched and sched[0]._cancelled:
            h = heapq.heappop(sched)
            h._scheduled = False
            self._timer_cancelled_count -= 1
        if not self._ready and not sched and self._exec_pending == 0 and not self._stopping and self._deadlock_check:
            # nothing is ready, no timer is pending, no executor job is out: every task waits for something that can no longer
            # happen — the scenario would block in select() for ever
            raise BudgetExhausted(f"deadlock at virtual t={CLOCK.us}us: every task waits and nothing is scheduled")
        if not self._ready and sched and self._exec_pending == 0:
            when_us = self._origin_us + int(round(sched[0]._when * 1e6))
            if self.horizon_us is not None and when_us > self.horizon_us:
                raise BudgetExhausted(f"virtual-time horizon reached ({self.horizon_us}us)")
            if when_us > CLOCK.us:
                CLOCK.advance_to(when_us)
                self._tfloat = sched[0]._when
            elif sched[0]._when > self.time():
                self._tfloat = sched[0]._when
        super()._run_once()


_BUDGETS: dict | None = None


def _site() -> str:
    """the function that called vtime.run, as file.py:function"""
    import sys as _sys
    fr = _sys._getframe(2)
    return f"{os.path.basename(fr.f_code.co_filename)}:{fr.f_code.co_name}"


def _effective_budget(budget: int, site: str) -> int:
    """The budgets written at the call sites are generous upper bounds.  `budgets.json` (tools/mkbudgets.py) records the largest
    number of callbacks each site needed on the unchanged tree over the thorough tier; a run may use 50 times that (at least
    100 000) before it counts as not finishing — a livelock on changed code is then reported within minutes, not hours."""
    global _BUDGETS
    if _BUDGETS is None:
        try:
            import json as _json
            _BUDGETS = _json.loads((__import__("pathlib").Path(__file__).parent / "budgets.json").read_text())
        except Exception:  # noqa: BLE001
            _BUDGETS = {}
    used = _BUDGETS.get(site)
    if used is None:
        return budget
    return min(budget, max(100_000, 50 * int(used)))


def run(coro_fn, *, budget: int = 2_000_000, horizon_us: int | None = None, on_callback=None,
        start_us: int = 0):
    """Run `coro_fn(loop)` to completion on a fresh VirtualLoop; returns its result."""
    CLOCK.reset(start_us)
    if not os.environ.get("VERIF_BUDGET_LOG"):
        budget = _effective_budget(budget, _site())
    loop = VirtualLoop(budget=budget, horizon_us=horizon_us)
    loop.on_callback = on_callback
    asyncio.set_event_loop(loop)
    try:
        return loop.run_until_complete(coro_fn(loop))
    finally:
        try:
            pending = [t for t in asyncio.all_tasks(loop) if not t.done()]
            for t in pending:
                t.cancel()
            if pending:
                loop.on_callback = None
                loop.budget = 10**18
                loop.horizon_us = None
                loop.run_until_complete(asyncio.gather(*pending, return_exceptions=True))
        except BaseException:  # noqa: BLE001
            pass
        asyncio.set_event_loop(None)
        loop.close()
        if os.environ.get("VERIF_BUDGET_LOG"):        # development aid: callbacks used vs budget, per call site
            import sys as _sys
            with open(os.environ["VERIF_BUDGET_LOG"], "a") as _f:
                _f.write(f"{_site()} {budget} {loop.cb_index}\n")
